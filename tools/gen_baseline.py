#!/usr/bin/env python3
"""Regenerate baseline_functions.json: the qualified names of the yakushima:: functions of the tree the rule instances were
confirmed against (run on the pinned tree only, by hand; the checks never write this file)."""
import json
import os
import sys

HERE = os.path.dirname(os.path.dirname(os.path.abspath(__file__)))
sys.path.insert(0, HERE)
from yk import session  # noqa: E402

names = set()
closures = {}
decomps = {}
ref_locals = {}
from yk import inline  # noqa: E402
for cfg in ('pinned', 'debug', 'guard_off'):
    try:
        raw = json.load(open(session.extract(cfg, None)))
    except Exception as e:  # noqa: BLE001
        print('config %s not extracted: %s' % (cfg, e))
        continue
    for fid, r in raw['functions'].items():
        q = r.get('qname') or ''
        if q.startswith('yakushima::') and not r.get('lambda'):
            names.add(q)
    for fid, r in raw['functions'].items():
        for n in r.get('elems', {}).values():
            if n.get('k') == 'DeclStmt':
                for v in n.get('vars', []):
                    ty_ = (v.get('type') or '').rstrip()
                    if not v.get('bindings') and ty_.endswith('&') and not ty_.endswith('&&') and v.get('name') and \
                            v['name'] not in ref_locals.setdefault(r.get('qname'), []):
                        ref_locals[r['qname']].append(v['name'])
                    if v.get('bindings') and '&' not in (v.get('type') or ''):
                        nm = ','.join(b['name'] for b in v['bindings'])
                        if nm not in decomps.setdefault(r.get('qname'), []):
                            decomps[r['qname']].append(nm)
    for lf, (q, vn) in inline.closures_called_in_place(raw['functions']).items():
        if vn not in closures.setdefault(q, []):
            closures[q].append(vn)
rev = os.popen('git -C /repo rev-parse HEAD').read().strip()
json.dump({'revision': rev, 'functions': sorted(names), 'closures': {k: sorted(v) for k, v in sorted(closures.items())}, 'decompositions': {k: sorted(v) for k, v in sorted(decomps.items())}, 'ref_locals': {k: sorted(v) for k, v in sorted(ref_locals.items()) if v}}, open(os.path.join(HERE, 'baseline_functions.json'), 'w'), indent=0)
print('%d functions at %s' % (len(names), rev[:7]))
