#!/bin/sh
# usage: tools/seed_prep.sh Cxx [suffix]  - scratch worktree of /repo for a seeding sub-agent (nothing from /verif goes in
# except the text of the one property)
id=$1; sfx=$2
d=/tmp/seed/$id$sfx
git -C /repo worktree add --detach "$d" HEAD >/dev/null 2>&1 || exit 1
cp -r /repo/third_party/googletest/. "$d/third_party/googletest/" 2>/dev/null
python3 - "$id" "$d" <<'PY'
import json,sys
pid,d=sys.argv[1],sys.argv[2]
for l in open('/verif/properties.jsonl'):
    p=json.loads(l)
    if p['id']==pid:
        p={k:p[k] for k in ('id','title','statement','quantifier','why_tests_cant','anchors')}
        json.dump(p,open(d+'/PROPERTY.json','w'),indent=1)
PY
mkdir -p "$d/seed_out"
echo "$d"
