#!/usr/bin/env python3
"""Generates /verif/MANIFEST.json from the table below (kept in one place so it stays valid)."""
import json
import os

HERE = os.path.dirname(os.path.dirname(os.path.abspath(__file__)))

# property -> (technique, level text, level note, design ref)
CHECKS = {
    'C05': ('typestate dataflow over clang CFG (record-border-on-exit, miss report, callback-before-leave, '
            'dirty-before-insert)',
            'Structural obligations decided on every CFG path of scan_border<V>, scan<V>, get<V>, iscan_findnext/'
            'findfirst, insert_lv and border_split: every non-retry exit of a visited border has recorded it; a get '
            'miss reports the validated version; the cursor invokes the callback before leaving a border; an insert '
            'dirties the border before touching it; roll-backs never cut the node set below what enclosing levels '
            'recorded (R-RBK, shared). Necessary conditions of C05, not a proof that the recorded set '
            'suffices for every tree shape.',
            'clang 14 AST/CFG of the instantiated templates; rule code in checks/C05*.py; sufficiency of one border '
            'per visit and counter wrap are not decided',
            'DESIGN.md section 5, C05'),
 'C02': ('finite order abstraction of the comparison sites, abstract evaluation of the key-slicing sites, width rule for '
         'key lengths, lookup / writer re-validation typestates (all shared with C18, C03, C01)',
         'Decides ONLY the key-handling and status clauses whose truth is in the shape of the code: every comparison '
         'of (8-byte slice, length) pairs implements the one bytewise order with a proper prefix first, for zero bytes, '
         'keys differing only in length and every slice boundary (R-CMP, exhaustive over the finite abstraction; '
         'R-USE); every API entry cuts a key into (slice, length) identically for sizes 0..8 and > 8 (R-SLICE); key '
         'lengths up to 30 KiB reach comparisons at full width (R-NARROW); the leaf lookup examines one permutation '
         'snapshot (R-LOOKUP); put / remove act on the entry or absence they re-looked-up under the lock (R-WUL). The '
         'property as a whole - equality with an ordered map over all operation sequences - is input/output '
         'arithmetic and is NOT decided.',
         'clang 14 AST/CFG; zero-padded stored slices; memcmp compares unsigned bytes',
         'DESIGN.md section 5, C02 and section 13.8'),
 'C03': ('guard-dominance dataflow over (key, endpoint) pairs with call-site requirement summaries; validation '
         'typestate; finite abstract execution of check_empty_scan_range against the documented table',
         'Decides on every CFG path of the scan family that the key of an INF endpoint is never used (R-INF), that '
         'argument validation precedes every tree access and rejects with ERR_BAD_USAGE (R-VAL), that the range '
         'decision table equals the documented one over all 45 abstract rows (R-TAB, exhaustive), and that the '
         'name-based overload resolves the storage first (R-STG), that the truncation test dominates every growth of '
         'the result list (R-MAX) and that key lengths are compared at full width (R-NARROW). It does not decide that '
         'the returned set equals the interval.',
         'clang 14 AST/CFG; (string_view, scan_endpoint) pairs recognised by parameter adjacency; interval contents '
         'are runtime data and undecided',
         'DESIGN.md section 5, C03'),
 'C13': ('typestate over the storage lookup result; who-may-reference rule over the call graph; call-site argument rules',
         'Decides that every name-based data API resolves the storage with its own name before any tree access, '
         'maps a miss to WARN_STORAGE_NOT_EXIST without touching the tree pointer and forwards exactly the resolved '
         'tree (R-STG); that only the storage module references the catalogue and nothing reachable from per-tree '
         'operations does (R-ISO); and the unique-insert / checked-delete / full-enumeration shape of the DDL '
         'functions (R-UNQ). Map semantics over DDL sequences and concurrent DDL are not decided.',
         'clang 14 AST/CFG and resolved callees; concurrency of DDL inherits C01 and is undecided here',
         'DESIGN.md section 5, C13'),
 'C16': ('interprocedural typestate (reset-before-start) with inlining, field write-set agreement, ordering typestate, '
         'loop/flag cycle check',
         'Decides that every stop flag a background thread tests and fin() raises is lowered on every path of init() '
         'before that thread is constructed (R-RST), that session-table init resets every field enter/leave write '
         '(R-TBL), that destroy() nulls every root it deletes (R-EMP), the order of fin() (R-FIN) and that every '
         'unbounded loop of a background thread tests its stop flag (R-EXIT). It does not decide that the epoch '
         'actually advances in later cycles (timing).',
         'clang 14 AST/CFG; std::thread runs the function passed to it; timing undecided',
         'DESIGN.md section 5, C16'),
 'C01': ('validate-after-read / writer-revalidation typestates over the CFG; inferred lock/dirty-bit summaries (E-LOCK)',
         'Decides the obligations of the optimistic concurrency protocol on every CFG path: a slot value reaches a '
         'success exit of get / a layer descent of get, put, remove only after a later, valid stable-version check '
         '(R-VAR); the value exit is also validated against a concurrent remove (R-RV); get_lv_of returns only under '
         'two equal stable versions with one permutation snapshot (R-LOOKUP); writers re-validate (and re-look-up) '
         'under the lock before mutating (R-WUL); structural stores happen under a dirty bit (R-DBM); the post-lookup '
         'deleted/root test uses the validated version (R-PLC); every descent step re-validates (R-DESC); the '
         'lock-protects-field and link/parent pairing obligations of C08 (R-MUL, R-LINK) are shared. Necessary '
         'conditions of linearizability, not a proof of it.',
         'clang 14 AST/CFG; hardware atomicity of the version word; sufficiency of the comparisons (ABA) undecided',
         'DESIGN.md section 5, C01'),
 'C04': ('range-reader typestate (loads / version checks / pushes / roll-backs) over the CFG with lambda inlining',
         'Decides for scan_border<V> and the layer scan, on every CFG path: only data covered by a later '
         'scan_check_retry established OK is pushed or followed (R-VAR), one permutation snapshot and validated exits '
         '(R-SNAP, including node accessors that read part of the live word), roll-back before every retry, each '
         'container restored to the size recorded for it (R-RBK), remove-visible validation of pushed values (R-RV). Not a '
         'proof of per-key consistency over all interleavings.',
         'clang 14 AST/CFG; scan_check_retry semantics decided under C06 R-EQ',
         'DESIGN.md section 5, C04'),
 'C06': ('event-ordering typestate at node boundaries; ordering typestate of border_split; return-condition analysis '
         'of scan_check_retry',
         'Decides the order of the four boundary loads of scan_border (neighbour pointer and neighbour version before '
         'the final, OK-established check; exactly those values handed over) (R-ORD), that every visit is validated '
         '(R-CHK), that a split sibling is locked and dirty and linked before it is reachable (R-SPL), the return '
         'conditions of scan_check_retry (R-EQ), dirty-before-insert (R-BUMP) and that the recorded pair is the '
         'validated version of the visited border (R-REC, shared with C05). The interleaving argument itself '
         'is not decided.',
         'clang 14 AST/CFG; acquire/release annotations trusted',
         'DESIGN.md section 5, C06'),
 'C08': ('lock-protects-field over inferred lock summaries (E-LOCK); link/parent pairing typestate',
         'Decides that every store to shared node state happens under the lock that protects it or on an unpublished '
         'node, with helper requirements checked at call sites (R-MUL); raw version stores only on unpublished nodes '
         '(R-RAWV); every child link store is paired with the parent-pointer update on the same path (R-LINK). '
         'Sortedness, separators and cross-API agreement are value-dependent and undecided.',
         'clang 14 AST/CFG; structural tokens denote distinct nodes; mutator table from the @pre comments',
         'DESIGN.md section 5, C08'),
 'C09': ('symbolic lock-set analysis with inferred per-function lock effects (E-LOCK), acquisition-order and '
         'self-wait rules, reader call-graph rule',
         'Decides lock balance on every exit of every writer function (R-BAL), the conditional contract of lock_parent '
         '(R-LP), the documented acquisition order at every blocking acquire (R-ORDL), no spin on an own lock '
         '(R-NSW), lock-free readers (R-RDR) that never park themselves until a version word changes (R-WAIT), the CAS-loop discipline of the lock word (R-CASL, R-MX, shared with C17) '
         'and stores to neighbour / parent links under the guarding lock (R-MUL, shared with C08). Termination of the optimistic retry loops is not decided.',
         'clang 14 AST/CFG; three named unreachable fall-off tails are exempt from balance',
         'DESIGN.md section 5, C09'),
 'C12': ('dirty-set = reported-set typestate over put / insert_lv / border_split; critical-section rule; receiver rule',
         'Decides that on every path the border nodes whose version word is changed are exactly the reported '
         'modified/created nodes (R-REP), that an overwrite shares its critical section with no version-changing '
         'call (R-UPD), that a layer-root replacement never dirties the linking border (R-PQ) and the legacy '
         'overload forwarding (R-LEG).',
         'clang 14 AST/CFG; a version word changes only through the enumerated calls',
         'DESIGN.md section 5, C12'),
 'C07': ('who-may-free table over resolved release sites, unpublished-object typestate, retire/tag rules, guard '
         'dominance and affine slack of the GC epoch, non-zero fold rule, gated epoch advance',
         'Decides that every release site belongs to the frozen who-may-free table and speculative deletes act on '
         'unpublished objects, and whoever overwrites a looked-up entry takes the displaced value and retires it '
         '(R-WMF); unlink implies retire with the session\'s own begin epoch (R-RET); the GC frees '
         'only entries below the GC epoch with at least two epochs of slack (R-GCG); only non-zero begin epochs enter '
         'the minimum (R-MIN); the epoch advances only after all sessions caught up (R-ADV); enter publishes / leave '
         'clears the begin epoch (R-PUB), the published epoch is re-validated after its publication (R-FRESH) and leave '
         'clears it before releasing the slot (R-LVE). Absence of use-after-free over all interleavings is not decided.',
         'clang 14 AST/CFG; begin epoch 0 means not in a session; the non-atomic table scan is undecided',
         'DESIGN.md section 5, C07'),
 'C11': ('allocation-ownership typestate with computed consumption summaries (E-OWN); drain / teardown agreement rules',
         'Decides on every CFG path that each allocation is transferred, retired, returned or freed exactly once '
         '(R-OWN), that a displaced value is retired (R-SWAP) and never dropped by set_value (R-DISP), that fin drains every container the GC fills and every '
         'session (R-DRAIN), and that recursive teardown covers every link with an exactly-once hand-over to the GC '
         '(R-DESTROY), and that a tree root pointer is nulled only when the loaded root is null or destroyed on that '
         'path (R-ROOT), and that the one-element GC caches are written only when empty (R-CACHE1). Allocator balance over histories is not decided.',
         'clang 14 AST/CFG; objects stored into the tree are released by teardown / GC',
         'DESIGN.md section 5, C11'),
 'C10': ('cursor typestates (range reader with iscan_check_retry, validate-after-read, early-abort, '
         'callback-before-leave, resume-state), validation typestate shared with scan',
         'Decides on every CFG path of iscan_open / iscan_findfirst / iscan_findnext: same argument validation as scan '
         'and INF normalisation (R-VAL); only validated data is yielded or descended into and values are validated '
         'against removes (R-VAR, R-RV); boundary load order (R-ORD); no silent retry after a failed check under '
         'early_abort (R-EA); callback before leaving a border, paired between findfirst and findnext (R-CB); resume '
         'state written on every yielding exit (R-RES); resume-stack discipline: a layer is abandoned only when its '
         'enumeration ended or a fresh validated link lookup found it gone (R-POP), copies of the stack top are not '
         'used after the stack changed (R-STALE), a mirror of the saved state diverges only to feed the push of the '
         'child element (R-CACHE), the saved layer root is the root the border was found from (R-LROOT), the '
         'neighbour back link is tested after the neighbour snapshot (R-BACK), the scan end out of the stale-root '
         'handling is reported only for a deleted root (R-END0). That the produced sequence equals the '
         'interval is not decided.',
         'clang 14 AST/CFG; iscan_check_retry OK means version and permutation unchanged',
         'DESIGN.md section 5, C10'),
 'C14': ('CAS-protocol typestate, claim/token pairing, ordering rule, compile-time capacity witnesses',
         'Decides the shape of the slot claim (CAS from false to true, R-CAS), that a token is handed out only for the '
         'slot whose claim succeeded and WARN_MAX_SESSIONS only after the whole table was tried (R-TOK), publication '
         'of the begin epoch before enter returns (R-PUB) and its re-validation after publication (R-FRESH), the store '
         'order of leave (R-LVE) and the table capacity '
         'for several configured capacities (R-CAP). Mutual exclusion over interleavings rests on CAS atomicity.',
         'clang 14 AST/CFG and constant evaluator; atomicity of std::atomic<bool>::compare_exchange',
         'DESIGN.md section 5, C14'),
 'C15': ('layout witnesses, expression-agreement rules over the size/alignment sites, who-writes-field rule, '
         'single-store typestate',
         'Decides that allocation, release, GC triple and GC releases use one (base, len+align, align) formula after the '
         'minimum-alignment clamp (R-SZ), layout facts (R-LAY), immutability of published blocks (R-IMM), that an '
         'overwrite is one release store of one word (R-ONE) and that OK reads are validated (R-VAR/R-RV). '
         'Byte-for-byte equality is not decided.',
         'clang 14 AST/CFG/record layout; allocator honours align_val_t',
         'DESIGN.md section 5, C15'),
 'C17': ('record-layout facts and witnesses, field-effect summaries, CAS-loop typestate with per-path effect tables',
         'Decides the bit-field layout of the version word (R-LAYV), that every accessor touches exactly its field '
         '(R-BODY), that every shared update is a CAS loop on a fresh copy carrying exactly the protocol effect, incl. '
         'the conditional counter bumps of unlock (R-CASL), lock-from-unlocked (R-MX), the stable-version guard '
         '(R-STB) and raw stores only on unpublished nodes (R-RAWV). Mutual exclusion over interleavings rests on CAS '
         'atomicity.',
         'clang 14 AST/CFG/record layout; hardware CAS',
         'DESIGN.md section 5, C17'),
 'C19': ('layout witnesses, single-publication path counting, constant propagation over finite abstract inputs for '
         'shift amounts, call-site agreement',
         'Decides single atomic publication per mutator path (R-PUB1), that no shift amount reaches 64 for any abstract '
         '(rank, count) admitted by the preconditions (R-SHIFT, exhaustive over the finite abstraction), free-slot '
         'discipline (R-SLOT), the word layout (R-LAYP) and, reader side, that lock-free readers consume the word through '
         'one local snapshot (R-RD1) and never use a rank as a slot number (R-IDX). The bit-precise correctness of the shift arithmetic is '
         'not decided.',
         'clang 14 AST/CFG; caller preconditions rank <= count <= 15 assumed',
         'DESIGN.md section 5, C19'),
 'C18': ('finite order abstraction: comparison sites cut out of the CFG and abstractly interpreted over all consistent '
         '(length, length, first differing byte, sign) states against a reference order',
         'Decides, exhaustively over the finite abstraction (about 1300 states per site, zero padding respected), that '
         'each of the 12 hand-written comparison sites (key_tuple operators, three leaf lookups, insert rank, interior '
         'routing and separator position, both split side decisions) implements the one bytewise-lexicographic order '
         'for its role (R-CMP); that the sort and the cursor only use key_tuple operators (R-USE); and the slicing rule '
         '(R-SLICE); and that key lengths reach comparisons at full width, never after an unbounded conversion to the '
         '8-bit key_length_type (R-NARROW). How callers use the results and order across layers are not decided.',
         'clang 14 AST/CFG; memcmp compares unsigned bytes; stored slices are zero padded',
         'DESIGN.md section 5, C18'),
 'C20': ('accumulator-effect patterns over the three mem_usage bodies',
         'Decides (weakly) that each node is counted once at an existing level, reserved grows by sizeof(own class), '
         'used by that size minus a non-negative term, values by their allocated size (R-ACC), and the level / index '
         'sets of the recursion (R-LVL) plus storage resolution (R-STG). Equality with an independent walk is not decided.',
         'clang 14 AST/CFG/record layout; pattern-level rules',
         'DESIGN.md section 5, C20'),
}

NOT_APPLICABLE = {
}

PENDING_REASON = 'not claimed yet: the static rule set for this property (DESIGN.md section 5) is not built/armed ' \
                 'in this revision of /verif'

ALL = ['C%02d' % i for i in range(1, 21)]

# rule bundles of checks/shared.py imported by a property (mechanisms it rests on; see DESIGN.md 13.11)
BUNDLES = {
    'version_word': 'the version-word protocol (C17: R-BODY, R-CASL, R-MX, R-STB)',
    'permutation_word': 'single-word publication and one-snapshot consumption of the leaf ordering (C19: R-PUB1, R-RD1)',
    'key_order': 'one key order, identical slicing, full-width lengths (C18: R-CMP, R-SLICE, R-NARROW)',
    'descent': 'hand-over-hand validation of the descent (C01: R-DESC)',
    'writers_dirty': 'dirty bit before structural stores (C01: R-DBM)',
    'sessions': 'exclusive session slots (C14: R-CAS, R-TOK)',
    'value_words': 'immutable values swapped with one store (C15: R-IMM, R-ONE)',
    'reclamation': 'who may free, unlink implies retire (C07: R-WMF, R-RET)',
    'structure': 'structural stores under the guarding lock, link / parent pairing, split sibling published last, a deleted border retired or left without sibling links (C08: R-MUL, R-LINK, R-SIB; C06: R-SPL)',
    'writers_revalidate': 'writers act on what they re-validated under the lock (C01: R-WUL)',
    'names': 'name-based entry points resolve the storage first (C13: R-STG)',
    'gc_safety': 'epoch-based reclamation: who may free, retire tags, GC slack, epoch gating, session publication (C07: R-WMF, R-RET, R-GCG, R-MIN, R-ADV, R-PUB, R-FRESH, R-LVE)',
}
SHARED = {
    'C01': ['version_word', 'permutation_word', 'key_order', 'value_words', 'names', 'gc_safety'],
    'C03': ['key_order'],
    'C04': ['version_word', 'permutation_word', 'descent', 'writers_dirty', 'structure', 'names', 'gc_safety'],
    'C05': ['version_word', 'descent', 'writers_dirty'],
    'C06': ['version_word', 'descent'],
    'C07': ['sessions', 'value_words'],
    'C10': ['version_word', 'permutation_word', 'descent', 'key_order', 'structure', 'gc_safety'],
    'C13': ['writers_revalidate', 'key_order'],
    'C15': ['gc_safety'],
    'C19': ['key_order'],
    'C11': ['reclamation'],
}


def main():
    checks = []
    for p in ALL:
        if p not in CHECKS:
            continue
        if not os.path.exists(os.path.join(HERE, 'checks', p + '.py')):
            continue
        tech, text, note, ref = CHECKS[p]
        if p in SHARED:
            text += ' Also decided here, because this property rests on them: ' + '; '.join(BUNDLES[b] for b in SHARED[p]) + '.'
        checks.append({
            'property_id': p,
            'quick_cmd': 'python3 run.py %s --tier quick' % p,
            'thorough_cmd': 'python3 run.py %s --tier thorough' % p,
            'evidence_file': 'evidence/%s.json' % p,
            'replay_cmd_template': 'python3 run.py explain {path}',
            'engine': 'ykfacts+python-rules',
            'level_claimed': {'category': 'other', 'text': text, 'design_ref': ref},
            'level_note': note,
            'technique': 'static analysis: ' + tech,
        })
    na = []
    for p in ALL:
        if p in NOT_APPLICABLE:
            na.append({'property_id': p, 'reason': NOT_APPLICABLE[p]})
        elif p not in [c['property_id'] for c in checks]:
            na.append({'property_id': p, 'reason': PENDING_REASON})
    hooks_commits = []
    hc = os.path.join(HERE, 'hooks_commits.txt')
    if os.path.exists(hc):
        hooks_commits = [l.strip() for l in open(hc) if l.strip()]
    m = {
        'version': 1,
        'setup_cmd': 'python3 tools/setup.py',
        'hooks': {
            'guard': 'YAKUSHIMA_VERIF',
            'enable': 'the checks analyse /repo/include with -DYAKUSHIMA_VERIF added to the pinned flags '
                      '(yk/session.py CONFIGS); nothing is executed, the define only selects which source is parsed',
            'baseline_off_cmd': 'cmake -G Ninja -S /repo -B /repo/_build -DCMAKE_BUILD_TYPE=RelWithDebInfo '
                                '-DCMAKE_CXX_FLAGS=-Wno-error > /dev/null && cmake --build /repo/_build -j16 > /dev/null '
                                '&& ctest --test-dir /repo/_build -j8 --timeout 900',
            'source_commits': hooks_commits,
            'add_only': True,
        },
        'engines': [
            {'name': 'ykfacts', 'path': 'tool/ykfacts.cc',
             'serves_properties': [c['property_id'] for c in checks],
             'kind_free_text': 'clang 14 libTooling extractor: AST + source-level CFG (every sub-expression an '
                               'element) + record layouts of the instantiated templates, as JSON'},
            {'name': 'python-rules', 'path': 'yk/ checks/',
             'serves_properties': [c['property_id'] for c in checks],
             'kind_free_text': 'path-sensitive typestate explorer, lock-set / ownership / effect analyses, who-may-'
                               'call rules, finite order abstraction; one rule set per property in checks/Cxx.py'},
        ],
        'checks': checks,
        'not_applicable': na,
        'notes': 'Technique family: static analysis. Exit 0 = all structural obligations discharged; exit 1 + '
                 'VIOLATION line = an obligation is violated at a construct that is not a listed known finding; '
                 'exit 2 = analysis broken (never a pass). See DESIGN.md.',
    }
    with open(os.path.join(HERE, 'MANIFEST.json'), 'w') as fh:
        json.dump(m, fh, indent=1)
    print('MANIFEST.json: %d checks, %d not_applicable' % (len(checks), len(na)))


if __name__ == '__main__':
    main()
