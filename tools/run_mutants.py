#!/usr/bin/env python3
"""usage: tools/run_mutants.py Cxx [mutant-id ...]  - run (part of) the mutant corpus of a property and print outcomes"""
import json, os, sys
HERE = os.path.dirname(os.path.dirname(os.path.abspath(__file__)))
sys.path.insert(0, HERE)
import run
from yk import mutants
prop = sys.argv[1]
res = mutants.run_corpus(prop, run.run_check, only=set(sys.argv[2:]) or None)
for r in res['results']:
    fr = r.get('first_report') or {}
    print('%-34s %-8s fired=%s expected=%s %s' % (r['id'], r['outcome'], r.get('rules_fired'), r.get('expected'),
                                                   r.get('why') or (fr.get('what', '')[:110])))
print('applied %d killed %d' % (res['applied'], res['killed']))
