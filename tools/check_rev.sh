#!/bin/sh
# usage: tools/check_rev.sh <git rev of /repo> <Cxx> [more run.py args]
# Runs a check against the include/ tree of another revision (scratch copy, removed afterwards).
rev=$1; shift
d=$(mktemp -d /var/tmp/ykrev.XXXXXX)
git -C /repo archive "$rev" include | tar -x -C "$d"
python3 /verif/run.py "$@" --include-root "$d/include" --no-write
rc=$?
rm -rf "$d"
exit $rc
