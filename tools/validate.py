#!/usr/bin/env python3-vt
"""Validates MANIFEST.json and every evidence file against the schemas (uses the tooling venv's jsonschema)."""
import glob, json, sys
import jsonschema
ok = True
try:
    jsonschema.validate(json.load(open('/verif/MANIFEST.json')), json.load(open('/root/.vp/MANIFEST.schema.json')))
    print('MANIFEST.json valid')
except Exception as e:
    ok = False; print('MANIFEST.json INVALID:', str(e)[:500])
es = json.load(open('/root/.vp/EVIDENCE.schema.json'))
for p in sorted(glob.glob('/verif/evidence/*.json')):
    try:
        jsonschema.validate(json.load(open(p)), es); print(p, 'valid')
    except Exception as e:
        ok = False; print(p, 'INVALID:', str(e)[:500])
sys.exit(0 if ok else 1)
