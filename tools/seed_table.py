#!/usr/bin/env python3
"""Prints a markdown table of every filed seed (seeded/*/meta.json): property, what detects it, and whether the checks
as they stood when the seed arrived caught it (derived from the `history` text)."""
import glob, json, os
HERE = os.path.dirname(os.path.dirname(os.path.abspath(__file__)))
rows = []
for f in sorted(glob.glob(os.path.join(HERE, 'seeded', '*', 'meta.json'))):
    m = json.load(open(f))
    h = (m.get('history') or '').lower()
    if 'missed' in h:
        st = 'missed by its own property at first' if ('caught by' in h or 'catch' in h and 'missed' in h and 'shared' in h) else 'missed at first'
        if 'missed by' in h and ('caught by c' in h or 'c0' in h.split('missed')[0] or 'caught' in h.split('missed')[0]):
            st = 'caught by another property, missed by its own at first'
    elif 'wrong reason' in h or 'coarse reason' in h or 'shape reason' in h or 'indirectly' in h:
        st = 'reported at first for an imprecise reason'
    else:
        st = 'caught as the checks stood'
    det = '; '.join('%s %s' % (k, (v.split(':')[0] if ':' in v else v)[:40]) for k, v in (m.get('detected_by') or {}).items())
    rows.append((m.get('seed_id'), m.get('property'), det, st))
print('| seed | property | detected by (today) | when it arrived |')
print('|---|---|---|---|')
for r in rows:
    print('| %s | %s | %s | %s |' % r)
n = len(rows)
c = sum(1 for r in rows if r[3] == 'caught as the checks stood')
print()
print('%d seeds; %d caught as the checks stood when they arrived, %d led to a new / shared / corrected rule.' % (n, c, n - c))
