#!/usr/bin/env python3
"""usage: tools/seeds_recheck.py [seed-id ...]

Re-runs, for every filed seed (seeded/<id>/patch.diff + meta.json), the checks named in its `detected_by` (keys of the
form Cxx) against a scratch copy of /repo/include with the patch applied, and reports every seed that a check it is
recorded to catch no longer catches (exit code 1 / VIOLATION line expected).  Scratch copies live under /var/tmp and are
removed.  Regression aid for changes of the engine; never a verdict about /repo."""
import json
import os
import re
import shutil
import subprocess
import sys
import tempfile
from concurrent.futures import ThreadPoolExecutor

HERE = os.path.dirname(os.path.dirname(os.path.abspath(__file__)))


def one(sid):
    d = os.path.join(HERE, 'seeded', sid)
    meta = json.load(open(os.path.join(d, 'meta.json')))
    props = sorted({p for k in meta.get('detected_by', {}) for p in re.findall(r'C\d\d', k)})
    if not props:
        props = [meta['property']]
    if meta.get('recheck_props'):
        props = meta['recheck_props']
    if meta.get('recheck_note') and not meta.get('recheck_props'):
        return sid, {'note': meta['recheck_note']}
    tmp = tempfile.mkdtemp(prefix='seedre_', dir='/var/tmp')
    try:
        shutil.copytree('/repo/include', os.path.join(tmp, 'include'))
        r = subprocess.run(['patch', '-p1', '-s', '-i', os.path.join(d, 'patch.diff')], cwd=tmp,
                           stdout=subprocess.PIPE, stderr=subprocess.STDOUT, text=True)
        if r.returncode != 0:
            return sid, {'patch': 'does not apply: ' + r.stdout[-200:]}
        res = {}
        for p in props:
            r = subprocess.run(['python3', os.path.join(HERE, 'run.py'), p, '--include-root',
                                os.path.join(tmp, 'include'), '--no-write'],
                               stdout=subprocess.PIPE, stderr=subprocess.STDOUT, text=True)
            res[p] = r.returncode
        return sid, res
    finally:
        shutil.rmtree(tmp, ignore_errors=True)


def main():
    ids = sys.argv[1:] or sorted(x for x in os.listdir(os.path.join(HERE, 'seeded'))
                                 if os.path.exists(os.path.join(HERE, 'seeded', x, 'meta.json')))
    bad = 0
    with ThreadPoolExecutor(6) as ex:
        for sid, res in ex.map(one, ids):
            if 'note' in res:
                print('%-58s (not re-run: %s)' % (sid, res['note']), flush=True)
                continue
            miss = {p: rc for p, rc in res.items() if rc != 1}
            if miss:
                bad += 1
            print('%-58s %s%s' % (sid, ' '.join('%s=%s' % kv for kv in sorted(res.items())),
                                  '   <-- NOT CAUGHT: %s' % miss if miss else ''), flush=True)
    print('%d seeds, %d with a check that no longer catches it' % (len(ids), bad))
    return 1 if bad else 0


if __name__ == '__main__':
    sys.exit(main())
