#!/usr/bin/env python3
"""usage: tools/benign_corpus.py [--final-only] [set ...]

The false-alarm regression corpus: benign/<set>/NN.diff are behaviour-preserving refactoring commits written by independent
sub-agents against /repo revision c5fed59 (DESIGN.md 13.13).  Applies them cumulatively to a scratch copy of /repo/include
(under /var/tmp, removed afterwards) and runs every quick check on each state (or on the last one): every check must be
silent.  A patch that no longer applies to the current /repo ends that set (reported, not an error).  Regression aid for
changes of the engine and rules; never a verdict about /repo."""
import os
import shutil
import subprocess
import sys
import tempfile
from concurrent.futures import ThreadPoolExecutor

HERE = os.path.dirname(os.path.dirname(os.path.abspath(__file__)))
PROPS = ['C%02d' % i for i in range(1, 21)]


def run_all(inc):
    bad = []
    for p in PROPS:
        r = subprocess.run(['python3', os.path.join(HERE, 'run.py'), p, '--include-root', inc, '--no-write'],
                           stdout=subprocess.PIPE, stderr=subprocess.STDOUT, text=True)
        if r.returncode != 0:
            lines = [l.strip() for l in r.stdout.splitlines() if l.strip().startswith('rule ') or 'BROKEN' in l]
            bad.append((p, r.returncode, lines[:3]))
    return bad


def catch_up(cur, nxt, diff):
    """A refactoring commit written before finding F13 was repaired can collide with the repair (border_node::delete_of).
    Take the repair out (benign/_catchup_F13.diff reversed), apply the commit, and put the repair's three lines back at
    their anchors (the comment lines next to them).  False when that is not possible."""
    shutil.rmtree(nxt)
    shutil.copytree(cur, nxt)
    cu = os.path.join(HERE, 'benign', '_catchup_F13.diff')
    if subprocess.run(['patch', '-p1', '-s', '-R', '-i', cu], cwd=nxt, stdout=subprocess.PIPE,
                      stderr=subprocess.STDOUT).returncode != 0:
        return False
    if subprocess.run(['patch', '-p1', '-s', '-i', diff], cwd=nxt, stdout=subprocess.PIPE,
                      stderr=subprocess.STDOUT).returncode != 0:
        return False
    fn = os.path.join(nxt, 'include', 'border_node.h')
    lines = open(fn).read().split('\n')
    out = []
    done = {'hook': False, 'fix': False}
    for i, l in enumerate(lines):
        if 'lock order is next to prev and lower to higher' in l and not done['hook']:
            j = len(out) - 1
            while j >= 0 and '/**' not in out[j]:
                j -= 1
            if j >= 0:
                ind = out[j][:len(out[j]) - len(out[j].lstrip())]
                out.insert(j, ind + 'YAKUSHIMA_VERIF_POINT(8);')
                done['hook'] = True
        out.append(l)
        if '// remain empty deleted root node.' in l and not done['fix']:
            ind = l[:len(l) - len(l.lstrip())]
            out.append(ind + 'set_next(nullptr);')
            out.append(ind + 'set_prev(nullptr);')
            done['fix'] = True
    if not all(done.values()):
        return False
    open(fn, 'w').write('\n'.join(out))
    for r_ in ('.orig', '.rej'):
        if os.path.exists(fn + r_):
            os.unlink(fn + r_)
    return True


def main():
    args = [a for a in sys.argv[1:] if not a.startswith('--')]
    final_only = '--final-only' in sys.argv
    sets = args or sorted(x for x in os.listdir(os.path.join(HERE, 'benign'))
                          if os.path.isdir(os.path.join(HERE, 'benign', x)))
    tmp = tempfile.mkdtemp(prefix='benignc_', dir='/var/tmp')
    states = []
    try:
        for s in sets:
            d = os.path.join(HERE, 'benign', s)
            cur = os.path.join(tmp, s, '00')
            os.makedirs(cur)
            shutil.copytree('/repo/include', os.path.join(cur, 'include'))
            diffs = sorted(x for x in os.listdir(d) if x.endswith('.diff'))
            for i, df in enumerate(diffs):
                nxt = os.path.join(tmp, s, df[:-5])
                shutil.copytree(cur, nxt)
                r = subprocess.run(['patch', '-p1', '-s', '-i', os.path.join(d, df)], cwd=nxt,
                                   stdout=subprocess.PIPE, stderr=subprocess.STDOUT, text=True)
                if r.returncode != 0 and catch_up(cur, nxt, os.path.join(d, df)):
                    r = subprocess.CompletedProcess([], 0)
                if r.returncode != 0:
                    print('%s/%s does not apply to the current /repo: set ends here' % (s, df))
                    break
                cur = nxt
                if not final_only or i == len(diffs) - 1:
                    states.append((s + '/' + df, os.path.join(nxt, 'include')))
        nbad = 0
        with ThreadPoolExecutor(6) as ex:
            for (name, _), bad in zip(states, ex.map(lambda st: run_all(st[1]), states)):
                if bad:
                    nbad += 1
                    print('%s: ALARM %s' % (name, bad))
                else:
                    print('%s: silent (20 checks)' % name, flush=True)
        print('%d states, %d with an alarm' % (len(states), nbad))
        return 1 if nbad else 0
    finally:
        shutil.rmtree(tmp, ignore_errors=True)


if __name__ == '__main__':
    sys.exit(main())
