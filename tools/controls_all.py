#!/usr/bin/env python3
"""Runs every negative control (behaviour-preserving mutant) of every corpus against ALL property checks.
A control that makes any check exit non-zero is a false alarm (exit 1) or a brittleness (exit 2) to look at."""
import glob, json, os, shutil, subprocess, sys, tempfile
HERE = os.path.dirname(os.path.dirname(os.path.abspath(__file__)))
sys.path.insert(0, HERE)
from yk import mutants
props = ['C%02d' % i for i in range(1, 21)]
import zlib
SHARD = None
IDS = None
for a_ in sys.argv[1:]:
    if a_.startswith('--ids='):
        IDS = set(a_[6:].split(','))
    if a_.startswith('--shard='):
        i_, n_ = a_[8:].split('/')
        SHARD = (int(i_), int(n_))
bad = 0
seen = set()
for fn in sorted(glob.glob(os.path.join(HERE, 'mutants', 'C*.json'))):
    for m in json.load(open(fn)):
        if not m.get('expect_silent'):
            continue
        if IDS is not None and m['id'] not in IDS:
            continue
        if SHARD is not None and (zlib.crc32(m['id'].encode()) % SHARD[1]) != SHARD[0]:
            continue
        edits = m.get('edits') or [{'file': m['file'], 'old': m['old'], 'new': m['new']}]
        key = json.dumps(edits, sort_keys=True)
        if key in seen:
            continue
        seen.add(key)
        tmp = tempfile.mkdtemp(prefix='ykctl.', dir='/var/tmp')
        try:
            inc = os.path.join(tmp, 'include')
            shutil.copytree('/repo/include', inc)
            if not mutants.apply_edits(inc, edits):
                print('%-50s skipped (does not apply)' % m['id'])
                continue
            res = []
            for p in props:
                r = subprocess.run([sys.executable, os.path.join(HERE, 'run.py'), p, '--include-root', inc, '--no-write'],
                                   stdin=subprocess.DEVNULL, stdout=subprocess.PIPE, stderr=subprocess.STDOUT, text=True)
                if r.returncode != 0:
                    res.append('%s rc=%d %s' % (p, r.returncode, [l for l in r.stdout.splitlines() if 'rule ' in l or 'BROKEN' in l][:1]))
            print('%-50s %s' % (m['id'], 'silent everywhere' if not res else 'ALARM: ' + ' | '.join(res)))
            bad += bool(res)
        finally:
            shutil.rmtree(tmp, ignore_errors=True)
            subprocess.run('rm -f %s/.cache/scratch_*' % HERE, shell=True)
print('controls with an alarm somewhere:', bad)
