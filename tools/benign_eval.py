#!/usr/bin/env python3
"""usage: tools/benign_eval.py <worktree> [base-rev]

False-alarm probe: <worktree> is a scratch worktree of /repo holding a series of behaviour-preserving refactoring commits
on top of base-rev (default: /repo HEAD).  Runs every quick check against the final state; for every check that is not
silent, finds the first commit of the series at which it starts to alarm (cumulative states, exported with git archive
into a scratch directory that is removed afterwards).  Prints one line per (check, first alarming commit).  Nothing is
written to evidence/.  Exploration aid only: the verdict on whether a reported commit really preserves behaviour is made by
reading it."""
import os
import shutil
import subprocess
import sys
import tempfile
from concurrent.futures import ThreadPoolExecutor

HERE = os.path.dirname(os.path.dirname(os.path.abspath(__file__)))
PROPS = ['C%02d' % i for i in range(1, 21)]


def sh(*a, **k):
    return subprocess.run(a, stdout=subprocess.PIPE, stderr=subprocess.STDOUT, text=True, **k)


def run_check(prop, inc):
    r = sh('python3', os.path.join(HERE, 'run.py'), prop, '--tier', 'quick', '--include-root', inc, '--no-write')
    lines = [l for l in r.stdout.splitlines() if l.strip().startswith('rule ') or 'broken' in l.lower() or
             'AnalysisBroken' in l or 'Traceback' in l]
    return r.returncode, lines, r.stdout


def export(wt, rev, dst):
    os.makedirs(dst, exist_ok=True)
    p1 = subprocess.Popen(['git', '-C', wt, 'archive', rev, 'include'], stdout=subprocess.PIPE)
    subprocess.run(['tar', '-x', '-C', dst], stdin=p1.stdout, check=True)
    p1.wait()
    return os.path.join(dst, 'include')


def main():
    wt = sys.argv[1]
    base = sys.argv[2] if len(sys.argv) > 2 else sh('git', '-C', '/repo', 'rev-parse', 'HEAD').stdout.strip()
    revs = sh('git', '-C', wt, 'rev-list', '--reverse', base + '..HEAD').stdout.split()
    print('%d commits on top of %s' % (len(revs), base[:7]))
    scratch = tempfile.mkdtemp(prefix='benign_', dir='/var/tmp')
    try:
        final = export(wt, 'HEAD', os.path.join(scratch, 'final'))
        with ThreadPoolExecutor(6) as ex:
            res = dict(zip(PROPS, ex.map(lambda p: run_check(p, final), PROPS)))
        noisy = [p for p in PROPS if res[p][0] != 0]
        for p in PROPS:
            print('%s rc=%d' % (p, res[p][0]))
        if not noisy:
            print('silent on the final state: all 20 checks')
            return 0
        incs = {}
        for r in revs:
            incs[r] = export(wt, r, os.path.join(scratch, r[:10]))
        for p in noisy:
            first = None
            lo, hi = 0, len(revs) - 1      # alarms are not guaranteed monotone: linear scan, but in parallel
            with ThreadPoolExecutor(6) as ex:
                rs = list(ex.map(lambda r: run_check(p, incs[r]), revs))
            for r, (rc, lines, out) in zip(revs, rs):
                if rc != 0:
                    first = (r, rc, lines, out)
                    break
            if first is None:
                print('%s: alarms on the final state only (interaction of commits)' % p)
                for l in res[p][1][:6]:
                    print('    ' + l.strip()[:300])
                continue
            r, rc, lines, out = first
            subj = sh('git', '-C', wt, 'log', '-1', '--format=%h %s', r).stdout.strip()
            print('%s: first alarm (rc=%d) at %s' % (p, rc, subj))
            for l in (lines or out.splitlines()[-6:])[:6]:
                print('    ' + l.strip()[:300])
        return 1
    finally:
        shutil.rmtree(scratch, ignore_errors=True)


if __name__ == '__main__':
    sys.exit(main())
