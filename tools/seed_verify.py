#!/usr/bin/env python3
"""usage: tools/seed_verify.py <Cxx> <worktree> <seed-id> [--props C03,C05] [--demo-flags "..."] [--skip-ctest]
Independently confirms a seeded change produced by a sub-agent and files it under /verif/seeded/<seed-id>/:
  1. patch.diff applies to a clean /repo checkout and equals the worktree's include/ diff
  2. the demo fails with the change and passes without it (built here, both ways)
  3. the test suite of the worktree build passes with the change (ctest re-run here)
  4. which of our checks report it (patch applied to /repo, undone straight afterwards)
"""
import argparse, json, os, shutil, subprocess, sys, time

ap = argparse.ArgumentParser()
ap.add_argument('prop'); ap.add_argument('worktree'); ap.add_argument('seed_id')
ap.add_argument('--props', default=None)
ap.add_argument('--demo-flags', default='')
ap.add_argument('--skip-ctest', action='store_true')
ap.add_argument('--use-hooks', action='store_true')
ap.add_argument('--hooks-clean', default=None, help='hook diff for the clean tree when it differs from demo_hooks.diff')
ap.add_argument('--demo', default='demo.cpp')
ap.add_argument('--runs', type=int, default=1)
ap.add_argument('--demo-timeout', type=int, default=600)
a = ap.parse_args()
wt = a.worktree
out = os.path.join(wt, 'seed_out')
patch = os.path.join(out, 'patch.diff')
meta = {'property': a.prop, 'seed_id': a.seed_id, 'ran': []}

def sh(cmd, **kw):
    p = subprocess.run(cmd, shell=True, stdout=subprocess.PIPE, stderr=subprocess.STDOUT, text=True, errors='replace', **kw)
    meta['ran'].append({'cmd': cmd, 'rc': p.returncode, 'tail': p.stdout[-600:]})
    return p

# 1. patch applies to clean /repo
p = sh('git -C /repo apply --check %s' % patch)
assert p.returncode == 0, 'patch does not apply to /repo: ' + p.stdout
# 2. demo both ways
demo_src = os.path.join(out, a.demo)
assert os.path.exists(demo_src), 'no demo.cpp'
scratch = '/var/tmp/seedchk.%d' % os.getpid()
os.makedirs(scratch)
try:
    for name in ('clean', 'patched'):
        d = '%s/%s' % (scratch, name)
        os.makedirs(d)
        shutil.copytree('/repo/include', d + '/include')
        sh('cd %s && git init -q .' % d)
        if name == 'patched':
            r = sh('cd %s && git apply %s' % (d, patch))
            assert r.returncode == 0, r.stdout
        hooks = os.path.join(out, 'demo_hooks.diff')
        if name == 'clean' and a.hooks_clean == 'none':
            continue        # the pause point lives in code only the patch has: the clean tree runs without it
        if name == 'clean' and a.hooks_clean:
            hooks = os.path.join(out, a.hooks_clean)
        if os.path.exists(hooks) and a.use_hooks:
            r = sh('cd %s && git apply %s' % (d, hooks))
            assert r.returncode == 0, 'demo hooks do not apply (%s): %s' % (name, r.stdout)
    flags = '-std=c++17 -O1 -g -DNDEBUG -DYAKUSHIMA_EPOCH_TIME=40 -DYAKUSHIMA_MAX_PARALLEL_SESSIONS=16 -DYAKUSHIMA_LINUX ' + a.demo_flags
    for name in ('clean', 'patched'):
        b = sh("g++ %s -I%s/%s/include %s -o %s/demo_%s -lglog -ltbb -lpthread" % (flags, scratch, name, demo_src, scratch, name))
        assert b.returncode == 0, 'demo does not build (%s): %s' % (name, b.stdout[-1500:])
    t0 = time.time()
    for i in range(a.runs):
        rp = sh('cd %s && timeout %d ./demo_patched' % (scratch, a.demo_timeout))
        if rp.returncode != 0:
            break
    rc = sh('cd %s && timeout %d ./demo_clean' % (scratch, a.demo_timeout))
    meta['demo_patched_rc'] = rp.returncode
    meta['demo_clean_rc'] = rc.returncode
    print('demo patched rc=%d, clean rc=%d' % (rp.returncode, rc.returncode))
finally:
    shutil.rmtree(scratch, ignore_errors=True)
# 3. ctest in the worktree build
if not a.skip_ctest and os.path.isdir(os.path.join(wt, '_build')):
    sh('cmake --build %s/_build -j12 -- -k 0' % wt)
    c = sh('ctest --test-dir %s/_build -j8 --timeout 900 2>&1 | tail -8' % wt)
    print(c.stdout)
    meta['ctest_tail'] = c.stdout[-500:]
# 4. our checks
props = (a.props.split(',') if a.props else [a.prop])
sh('git -C /repo apply %s' % patch)
try:
    res = {}
    for pr in props:
        q = subprocess.run('python3 /verif/run.py %s --no-write' % pr, shell=True, stdout=subprocess.PIPE, text=True)
        res[pr] = {'rc': q.returncode, 'lines': [l for l in q.stdout.splitlines() if l.startswith('  rule') or 'BROKEN' in l][:6]}
        print(pr, 'rc', q.returncode, res[pr]['lines'][:3])
    meta['checks'] = res
finally:
    subprocess.run('git -C /repo checkout -- .', shell=True)
dst = os.path.join('/verif/seeded', a.seed_id)
os.makedirs(dst, exist_ok=True)
for n in os.listdir(out):
    if os.path.isfile(os.path.join(out, n)) and os.path.getsize(os.path.join(out, n)) < 400000:
        shutil.copy(os.path.join(out, n), dst)
json.dump(meta, open(os.path.join(dst, 'verify_log.json'), 'w'), indent=1)
print('filed under', dst)
