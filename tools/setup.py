#!/usr/bin/env python3
"""setup_cmd: builds the fact extractor from tool/ykfacts.cc (offline, ~20 s) and warms the fact cache."""
import os
import sys

HERE = os.path.dirname(os.path.dirname(os.path.abspath(__file__)))
sys.path.insert(0, HERE)
from yk import session  # noqa: E402

session.ensure_tool()
print('ykfacts built:', session.TOOL)
try:
    p = session.extract('pinned')
    print('fact base:', p)
except Exception as e:  # the checks report this themselves
    print('warm-up extraction failed:', e)
