#!/usr/bin/env python3
"""Entry point of the static checks.

  run.py <Cxx> [--tier quick|thorough] [--include-root DIR] [--no-write]
  run.py explain <report.json>
  run.py all [--tier ...]            (convenience: every claimed property, sequentially)

Exit status: 0 = every structural obligation of the property is discharged on the current
tree (open known findings are printed as KNOWN-FINDING lines); 1 = at least one obligation is
violated at a site that is not a listed known finding (one `VIOLATION property=<id> replay=<path>`
line each); 2 = analysis broken (anchor vanished, unmodelled construct, tree does not parse).
"""
import argparse
import importlib
import json
import os
import sys
import traceback

HERE = os.path.dirname(os.path.abspath(__file__))
sys.path.insert(0, HERE)

from yk.facts import AnalysisBroken  # noqa: E402
from yk import session  # noqa: E402

CLAIMED = ['C01', 'C02', 'C03', 'C04', 'C05', 'C06', 'C07', 'C08', 'C09', 'C10', 'C11', 'C12', 'C13', 'C14', 'C15',
           'C16', 'C17', 'C18', 'C19', 'C20']

EXPLANATION = ('Static discharge of structural obligations (custom dataflow / typestate / who-may-call rules over '
               'the clang AST+CFG of the instantiated templates of the current /repo tree). It decides the listed '
               'rules on every CFG path; it does NOT prove the behavioural property. Rules: ')


def run_check(prop, tier, include_root=None, write=True, quiet=False):
    mod = importlib.import_module('checks.' + prop)
    S = session.Session(prop, tier, include_root, quiet=quiet)
    try:
        mod.run(S)
        if tier == 'thorough' and hasattr(mod, 'run_thorough'):
            mod.run_thorough(S)
        if tier == 'thorough':
            # the same rules on the other configurations: assertions enabled (-UNDEBUG) with two more value types
            # (uintptr_t inline, 64-byte over-aligned out-of-line), and the tree parsed with the hook guard off
            for cfg in ('debug', 'guard_off'):
                S.config = cfg
                mod.run(S)
            S.config = os.environ.get('YKVERIF_CONFIG', 'pinned')
        if tier == 'thorough' and include_root is None:
            from yk import mutants
            S.mutants = mutants.run_corpus(prop, run_check)
    except AnalysisBroken as e:
        # a rule that cannot be evaluated stops the run; violations other rules have already established on this tree are
        # reported (exit 1) - like a failed instance minimum, the broken rule is then a note, not the verdict
        if any(not o.ok for o in S.obs):
            S.broken.append('a later rule could not be evaluated: %s' % e)
        else:
            if not quiet:
                print('ANALYSIS-BROKEN property=%s: %s' % (prop, e))
            return 2, [], [], S
    except Exception:
        if not quiet:
            print('ANALYSIS-BROKEN property=%s: internal error\n%s' % (prop, traceback.format_exc()))
        return 2, [], [], S
    expl = EXPLANATION + '; '.join('%s: %s' % (k, v) for k, v in S.rules.items())
    if S.broken and not any(not o.ok for o in S.obs):
        if not quiet:
            for b in S.broken:
                print('ANALYSIS-BROKEN property=%s: %s' % (prop, b))
        return 2, [], [], S
    for b in S.broken:
        S.note('instance minimum not met (reported together with the violations of this run): ' + b)
    rc, viol, kfs = session.finish(S, expl, write=write)
    return rc, viol, kfs, S


def explain(path):
    with open(path) as fh:
        r = json.load(fh)
    print('property  : %s' % r.get('property'))
    print('rule      : %s - %s' % (r.get('rule'), r.get('rule_text', '')))
    print('function  : %s' % r.get('function'))
    print('site      : %s' % r.get('site'))
    print('location  : %s' % r.get('loc'))
    print('what      : %s' % r.get('what'))
    if r.get('detail'):
        print('detail    : %s' % r.get('detail'))
    if r.get('path'):
        print('one offending path (source hops from the function entry):')
        for h in r['path']:
            print('    ' + h)
    return 0


def main():
    ap = argparse.ArgumentParser()
    ap.add_argument('what')
    ap.add_argument('arg', nargs='?')
    ap.add_argument('--tier', default=os.environ.get('VERIF_TIER', 'quick'))
    ap.add_argument('--include-root', default=None)
    ap.add_argument('--no-write', action='store_true')
    a = ap.parse_args()
    if a.what == 'explain':
        return explain(a.arg)
    if a.what == 'all':
        worst = 0
        for p in CLAIMED:
            if not os.path.exists(os.path.join(HERE, 'checks', p + '.py')):
                continue
            rc, _, _, _ = run_check(p, a.tier, a.include_root, write=not a.no_write)
            worst = max(worst, rc)
        return worst
    rc, _, _, S = run_check(a.what, a.tier, a.include_root, write=not a.no_write)
    if a.include_root:
        session.drop_scratch()
    if S.mutants is not None:
        m = S.mutants
        print('mutant corpus: %d applied, %d killed, missed=%s broken=%s skipped=%s' %
              (m['applied'], m['killed'], m['missed'], m['broken'], m['skipped']))
    return rc


if __name__ == '__main__':
    sys.exit(main())
