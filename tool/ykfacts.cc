// ykfacts — fact-base extractor for the yakushima static checks.
//
// Walks every non-dependent function body whose location lies under a given
// include root (template instantiations and lambda call operators included),
// builds clang's source-level CFG with every sub-expression as its own element
// (BuildOptions::setAllAlwaysAdd) and writes one JSON document:
//
//   { "include_root": "...",
//     "records":   { qname: {size, align, fields:[{name,type,bit_offset,bit_width?}], bases:[...]} },
//     "globals":   { qname: {type, loc} },
//     "functions": { fid: {qname, name, targs, params:[{id,name,type}], loc, end_line,
//                          cls, virtual, overrides:[fid], lambda, entry, exit,
//                          blocks: { bid: {elems:[id...], succ:[bid|null...], term:{k,cond,goto?}, label?} },
//                          elems: { id: <node> } } } }
//
//   <node> := { "k": StmtClassName, "ty": type, "loc": "file:line:col",
//               "ch": [ <id> | <node> | null ... ],       // children: element ids or inline nodes
//               ...class-specific attributes... }
//
// The python side (yk/facts.py) never looks at source text; locations are only
// used in reports.
//
// Build: clang++ $(llvm-config-14 --cxxflags) -fno-rtti ykfacts.cc -o ykfacts \
//          /usr/lib/llvm-14/lib/libclang-cpp.so.14 /usr/lib/llvm-14/lib/libLLVM-14.so
// Run:   ykfacts --root=/repo/include --out=facts.json tu.cpp -- <flags>

#include "clang/AST/ASTConsumer.h"
#include "clang/AST/ASTContext.h"
#include "clang/AST/ParentMapContext.h"
#include "clang/AST/DeclCXX.h"
#include "clang/AST/DeclTemplate.h"
#include "clang/AST/ExprCXX.h"
#include "clang/AST/RecordLayout.h"
#include "clang/AST/RecursiveASTVisitor.h"
#include "clang/Analysis/CFG.h"
#include "clang/Frontend/CompilerInstance.h"
#include "clang/Frontend/FrontendAction.h"
#include "clang/Tooling/CommonOptionsParser.h"
#include "clang/Tooling/Tooling.h"
#include "llvm/Support/CommandLine.h"
#include "llvm/ADT/SmallString.h"
#include "llvm/Support/JSON.h"
#include "llvm/Support/raw_ostream.h"

#include <map>
#include <set>
#include <string>
#include <vector>

using namespace clang;
using namespace clang::tooling;

static llvm::cl::OptionCategory Cat("ykfacts options");
static llvm::cl::opt<std::string> OptRoot("root", llvm::cl::desc("include root"),
                                          llvm::cl::Required, llvm::cl::cat(Cat));
static llvm::cl::opt<std::string> OptOut("out", llvm::cl::desc("output json"),
                                         llvm::cl::Required, llvm::cl::cat(Cat));

namespace {

class Extractor : public RecursiveASTVisitor<Extractor> {
public:
    explicit Extractor(ASTContext& C)
        : Ctx(C), SM(C.getSourceManager()), PP(C.getLangOpts()) {
        PP.SuppressTagKeyword = true;
        PP.FullyQualifiedName = true;
        PP.Bool = true;
        PP.SuppressUnwrittenScope = false;
    }

    bool shouldVisitTemplateInstantiations() const { return true; }
    bool shouldVisitImplicitCode() const { return false; }

    bool VisitFunctionDecl(FunctionDecl* FD) {
        consider(FD);
        return true;
    }
    bool VisitLambdaExpr(LambdaExpr* LE) {
        if (auto* M = LE->getCallOperator()) consider(M);
        return true;
    }
    bool VisitCXXRecordDecl(CXXRecordDecl* RD) {
        if (!RD->isThisDeclarationADefinition() || RD->isDependentType() ||
            RD->isLambda() || RD->isInvalidDecl())
            return true;
        if (!underRoot(RD->getLocation())) return true;
        Records.insert(RD);
        return true;
    }
    bool VisitVarDecl(VarDecl* VD) {
        if (VD->hasGlobalStorage() && !VD->isStaticLocal() &&
            !VD->getType()->isDependentType() && underRoot(VD->getLocation())) {
            if (auto* DC = VD->getDeclContext())
                if (DC->isDependentContext()) return true;
            Globals.insert(VD->getCanonicalDecl());
        }
        return true;
    }

    void consider(FunctionDecl* FD) {
        if (!FD->doesThisDeclarationHaveABody()) return;
        if (FD->isDependentContext()) return;
        if (FD->isDefaulted() || FD->isImplicit()) {
            // lambda call operators are neither; defaulted special members carry no rules
            return;
        }
        if (!underRoot(FD->getLocation())) return;
        Funcs.insert(FD);
    }

    bool underRoot(SourceLocation L) {
        if (L.isInvalid()) return false;
        SourceLocation E = SM.getExpansionLoc(L);
        StringRef F = SM.getFilename(E);
        if (F.empty()) return false;
        llvm::SmallString<256> P(F);
        SM.getFileManager().makeAbsolutePath(P);
        llvm::sys::path::remove_dots(P, true);
        return StringRef(P).startswith(Root);
    }

    std::string locStr(SourceLocation L) {
        if (L.isInvalid()) return "";
        SourceLocation E = SM.getExpansionLoc(L);
        PresumedLoc PL = SM.getPresumedLoc(E);
        if (PL.isInvalid()) return "";
        StringRef F = PL.getFilename();
        size_t p = F.rfind('/');
        if (p != StringRef::npos) F = F.substr(p + 1);
        return (F + ":" + llvm::Twine(PL.getLine()) + ":" + llvm::Twine(PL.getColumn())).str();
    }

    std::string tyStr(QualType T) {
        if (T.isNull()) return "";
        return T.getCanonicalType().getAsString(PP);
    }

    std::string fid(const FunctionDecl* FD) {
        std::string S;
        llvm::raw_string_ostream OS(S);
        FD->getNameForDiagnostic(OS, PP, true);
        OS << "(";
        bool first = true;
        // parameter types as in the function type (top-level cv-qualifiers dropped), so that a
        // declaration and its definition map to the same id
        if (auto* FPT = FD->getType().getCanonicalType()->getAs<FunctionProtoType>()) {
            for (QualType T : FPT->getParamTypes()) {
                if (!first) OS << ", ";
                first = false;
                OS << tyStr(T);
            }
        }
        OS << ")";
        if (auto* M = dyn_cast<CXXMethodDecl>(FD)) {
            if (M->isConst()) OS << " const";
            if (M->getParent()->isLambda()) OS << " @" << locStr(M->getLocation());
        }
        return OS.str();
    }

    std::string qname(const NamedDecl* D) {
        std::string S;
        llvm::raw_string_ostream OS(S);
        D->printQualifiedName(OS, PP);
        return OS.str();
    }

    std::string varId(const ValueDecl* D) {
        if (auto* VD = dyn_cast<VarDecl>(D)) {
            if (VD->isLocalVarDeclOrParm() || VD->isStaticLocal())
                return (VD->getName() + "@" + locStr(VD->getLocation())).str();
            return qname(VD);
        }
        if (isa<BindingDecl>(D)) return (D->getName() + "@" + locStr(D->getLocation())).str();
        return qname(D);
    }

    static const char* atomicOpName(AtomicExpr::AtomicOp Op) {
        switch (Op) {
#define BUILTIN(ID, TYPE, ATTRS)
#define ATOMIC_BUILTIN(ID, TYPE, ATTRS) \
    case AtomicExpr::AO##ID:            \
        return #ID;
#include "clang/Basic/Builtins.def"
        }
        return "?";
    }

    // ---- statement serialisation -------------------------------------------
    using IdMap = llvm::DenseMap<const Stmt*, unsigned>;

    llvm::json::Value child(const Stmt* C, const IdMap& Ids, unsigned depth) {
        if (C == nullptr) return nullptr;
        auto It = Ids.find(C);
        if (It != Ids.end()) return static_cast<int64_t>(It->second);
        if (depth > 64) return nullptr;
        return node(C, Ids, depth + 1);
    }

    llvm::json::Value node(const Stmt* S, const IdMap& Ids, unsigned depth = 0) {
        llvm::json::Object O;
        O["k"] = S->getStmtClassName();
        O["loc"] = locStr(S->getBeginLoc());
        llvm::json::Array Ch;
        bool customChildren = false;

        if (auto* E = dyn_cast<Expr>(S)) {
            O["ty"] = tyStr(E->getType());
            if (E->isPRValue() && !E->isValueDependent() &&
                E->getType()->isIntegralOrEnumerationType() &&
                !isa<IntegerLiteral>(E) && !isa<CXXBoolLiteralExpr>(E)) {
                Expr::EvalResult R;
                if (E->EvaluateAsInt(R, Ctx, Expr::SE_NoSideEffects) && R.Val.isInt()) {
                    O["cv"] = llvm::toString(R.Val.getInt(), 10);
                }
            }
        }

        if (auto* DR = dyn_cast<DeclRefExpr>(S)) {
            const ValueDecl* D = DR->getDecl();
            O["name"] = D->getNameAsString();
            if (auto* FD = dyn_cast<FunctionDecl>(D)) {
                O["dk"] = "func";
                O["id"] = fid(FD);
                O["q"] = qname(FD);
            } else if (auto* EC = dyn_cast<EnumConstantDecl>(D)) {
                O["dk"] = "enum";
                O["id"] = qname(EC);
                O["val"] = llvm::toString(EC->getInitVal(), 10);
            } else if (auto* BD = dyn_cast<BindingDecl>(D)) {
                O["dk"] = "binding";
                O["id"] = varId(BD);
                if (auto* DD = dyn_cast_or_null<ValueDecl>(BD->getDecomposedDecl()))
                    O["of"] = varId(DD);
            } else if (auto* VD = dyn_cast<VarDecl>(D)) {
                O["dk"] = isa<ParmVarDecl>(VD) ? "parm" : (VD->hasGlobalStorage() ? "global" : "var");
                O["id"] = varId(VD);
            } else {
                O["dk"] = "other";
                O["id"] = qname(D);
            }
        } else if (auto* ME = dyn_cast<MemberExpr>(S)) {
            O["member"] = qname(ME->getMemberDecl());
            O["name"] = ME->getMemberDecl()->getNameAsString();
            O["arrow"] = ME->isArrow();
            if (auto* FD = dyn_cast<FunctionDecl>(ME->getMemberDecl())) O["mfid"] = fid(FD);
        } else if (auto* UO = dyn_cast<UnaryOperator>(S)) {
            O["op"] = UnaryOperator::getOpcodeStr(UO->getOpcode()).str();
            O["postfix"] = UO->isPostfix();
        } else if (auto* BO = dyn_cast<BinaryOperator>(S)) {
            O["op"] = BO->getOpcodeStr().str();
        } else if (auto* IL = dyn_cast<IntegerLiteral>(S)) {
            O["val"] = llvm::toString(IL->getValue(), 10, false);
        } else if (auto* BL = dyn_cast<CXXBoolLiteralExpr>(S)) {
            O["val"] = BL->getValue() ? "1" : "0";
        } else if (auto* SL = dyn_cast<clang::StringLiteral>(S)) {
            if (SL->getCharByteWidth() == 1) O["val"] = SL->getString().str();
        } else if (auto* CL = dyn_cast<CharacterLiteral>(S)) {
            O["val"] = std::to_string(CL->getValue());
        } else if (auto* CE = dyn_cast<CastExpr>(S)) {
            O["ck"] = CE->getCastKindName();
        } else if (auto* NE = dyn_cast<CXXNewExpr>(S)) {
            O["alloc_ty"] = tyStr(NE->getAllocatedType());
            if (auto* ON = NE->getOperatorNew()) O["opnew"] = fid(ON);
            O["placement"] = static_cast<int64_t>(NE->getNumPlacementArgs());
        } else if (auto* DE = dyn_cast<CXXDeleteExpr>(S)) {
            O["del_ty"] = tyStr(DE->getDestroyedType());
            O["array"] = DE->isArrayForm();
        } else if (auto* LE = dyn_cast<LambdaExpr>(S)) {
            if (auto* M = LE->getCallOperator()) O["lambda"] = fid(M);
            llvm::json::Array Caps;
            for (const auto& C : LE->captures()) {
                llvm::json::Object CO;
                if (C.capturesVariable()) {
                    CO["id"] = varId(C.getCapturedVar());
                    CO["byref"] = C.getCaptureKind() == LCK_ByRef;
                } else if (C.capturesThis()) {
                    CO["id"] = "this";
                    CO["byref"] = true;
                }
                Caps.push_back(std::move(CO));
            }
            O["captures"] = std::move(Caps);
        } else if (auto* UE = dyn_cast<UnaryExprOrTypeTraitExpr>(S)) {
            O["trait"] = UE->getKind() == UETT_SizeOf ? "sizeof"
                         : (UE->getKind() == UETT_AlignOf ? "alignof" : "other");
            O["arg_ty"] = tyStr(UE->getTypeOfArgument());
        } else if (auto* AE = dyn_cast<AtomicExpr>(S)) {
            O["aop"] = atomicOpName(AE->getOp());
        } else if (auto* DA = dyn_cast<CXXDefaultArgExpr>(S)) {
            Ch.push_back(child(DA->getExpr(), Ids, depth));
            customChildren = true;
        } else if (auto* DI = dyn_cast<CXXDefaultInitExpr>(S)) {
            Ch.push_back(child(DI->getExpr(), Ids, depth));
            customChildren = true;
        } else if (auto* DS = dyn_cast<DeclStmt>(S)) {
            llvm::json::Array Vars;
            for (auto* D : DS->decls()) {
                if (auto* VD = dyn_cast<VarDecl>(D)) {
                    llvm::json::Object VO;
                    VO["id"] = varId(VD);
                    VO["name"] = VD->getNameAsString();
                    VO["type"] = tyStr(VD->getType());
                    if (VD->hasInit()) VO["init"] = child(VD->getInit(), Ids, depth);
                    // end of the enclosing block: the variable (e.g. a lock guard) lives until there
                    {
                        auto Ps = Ctx.getParents(*DS);
                        int hops = 0;
                        while (!Ps.empty() && hops < 4) {
                            if (const auto* CS = Ps[0].get<CompoundStmt>()) {
                                VO["scope_end"] = locStr(CS->getRBracLoc());
                                break;
                            }
                            if (const auto* PS = Ps[0].get<Stmt>()) { Ps = Ctx.getParents(*PS); } else { break; }
                            ++hops;
                        }
                    }
                    if (auto* DD = dyn_cast<DecompositionDecl>(VD)) {
                        llvm::json::Array Bs;
                        for (auto* B : DD->bindings()) {
                            llvm::json::Object BO2;
                            BO2["id"] = varId(B);
                            BO2["name"] = B->getNameAsString();
                            Bs.push_back(std::move(BO2));
                        }
                        VO["bindings"] = std::move(Bs);
                    }
                    Vars.push_back(std::move(VO));
                }
            }
            O["vars"] = std::move(Vars);
            customChildren = true; // inits are reachable through vars[].init
        } else if (auto* GS = dyn_cast<GotoStmt>(S)) {
            O["label"] = GS->getLabel()->getNameAsString();
        } else if (auto* LS = dyn_cast<LabelStmt>(S)) {
            O["label"] = LS->getDecl()->getNameAsString();
        } else if (auto* TE = dyn_cast<CXXTypeidExpr>(S)) {
            if (TE->isTypeOperand()) {
                O["typeid_ty"] = tyStr(TE->getTypeOperand(Ctx));
                customChildren = true;
            }
        }

        if (auto* CE = dyn_cast<CallExpr>(S)) {
            if (const FunctionDecl* FD = CE->getDirectCallee()) {
                O["callee"] = fid(FD);
                O["cq"] = qname(FD);
                O["cn"] = FD->getNameAsString();
                if (auto* M = dyn_cast<CXXMethodDecl>(FD)) {
                    O["virtual"] = M->isVirtual();
                    O["mcls"] = qname(M->getParent());
                    if (M->getParent()->isLambda()) O["lambda_call"] = true;
                }
                if (FD->getBuiltinID() != 0) O["builtin"] = true;
            }
            if (auto* MC = dyn_cast<CXXMemberCallExpr>(S)) {
                O["recv"] = child(MC->getImplicitObjectArgument(), Ids, depth);
            }
            llvm::json::Array Args;
            for (auto* A : CE->arguments()) Args.push_back(child(A, Ids, depth));
            O["args"] = std::move(Args);
        } else if (auto* CC = dyn_cast<CXXConstructExpr>(S)) {
            O["ctor"] = qname(CC->getConstructor()->getParent());
            O["callee"] = fid(CC->getConstructor());
            llvm::json::Array Args;
            for (auto* A : CC->arguments()) Args.push_back(child(A, Ids, depth));
            O["args"] = std::move(Args);
        }

        if (!customChildren) {
            for (const Stmt* C : S->children()) Ch.push_back(child(C, Ids, depth));
        }
        if (!Ch.empty()) O["ch"] = std::move(Ch);
        return llvm::json::Value(std::move(O));
    }

    // ---- function ----------------------------------------------------------
    llvm::json::Value function(const FunctionDecl* FD) {
        llvm::json::Object F;
        F["qname"] = qname(FD);
        F["name"] = FD->getNameAsString();
        F["loc"] = locStr(FD->getLocation());
        F["end_line"] = static_cast<int64_t>(SM.getExpansionLineNumber(FD->getEndLoc()));
        F["ret"] = tyStr(FD->getReturnType());
        {
            std::string TA;
            if (auto* Args = FD->getTemplateSpecializationArgs()) {
                llvm::raw_string_ostream OS(TA);
                bool first = true;
                for (const auto& A : Args->asArray()) {
                    if (!first) OS << ", ";
                    first = false;
                    A.print(PP, OS, true);
                }
            }
            F["targs"] = TA;
        }
        llvm::json::Array Ps;
        for (auto* P : FD->parameters()) {
            llvm::json::Object PO;
            PO["id"] = varId(P);
            PO["name"] = P->getNameAsString();
            PO["type"] = tyStr(P->getType());
            Ps.push_back(std::move(PO));
        }
        F["params"] = std::move(Ps);
        if (auto* M = dyn_cast<CXXMethodDecl>(FD)) {
            F["cls"] = qname(M->getParent());
            F["virtual"] = M->isVirtual();
            F["static"] = M->isStatic();
            F["const"] = M->isConst();
            F["lambda"] = M->getParent()->isLambda();
            llvm::json::Array Ov;
            for (auto* OM : M->overridden_methods()) Ov.push_back(fid(OM));
            F["overrides"] = std::move(Ov);
            if (M->getParent()->isLambda()) {
                // enclosing function of the lambda
                const DeclContext* DC = M->getParent()->getDeclContext();
                while (DC && !isa<FunctionDecl>(DC)) DC = DC->getParent();
                if (DC) F["enclosing"] = fid(cast<FunctionDecl>(DC));
            }
            if (auto* CD = dyn_cast<CXXConstructorDecl>(FD)) {
                llvm::json::Array Inits;
                for (auto* I : CD->inits()) {
                    if (!I->isWritten()) continue;
                    llvm::json::Object IO;
                    if (I->isMemberInitializer()) IO["member"] = qname(I->getMember());
                    Inits.push_back(std::move(IO));
                }
                F["ctor_inits"] = std::move(Inits);
            }
        }

        CFG::BuildOptions BO;
        BO.setAllAlwaysAdd();
        BO.PruneTriviallyFalseEdges = true;
        BO.AddEHEdges = false;
        BO.AddImplicitDtors = false;
        BO.AddTemporaryDtors = false;
        BO.AddInitializers = true;
        std::unique_ptr<CFG> G = CFG::buildCFG(FD, FD->getBody(), &Ctx, BO);
        if (!G) {
            F["cfg_error"] = true;
            return llvm::json::Value(std::move(F));
        }
        IdMap Ids;
        unsigned Next = 1;
        std::vector<std::pair<unsigned, const Stmt*>> Order;
        for (const CFGBlock* B : *G) {
            for (const CFGElement& E : *B) {
                if (auto SE = E.getAs<CFGStmt>()) {
                    const Stmt* S = SE->getStmt();
                    if (Ids.find(S) == Ids.end()) {
                        Ids[S] = Next;
                        Order.emplace_back(Next, S);
                        ++Next;
                    }
                }
            }
        }
        llvm::json::Object Elems;
        for (auto& P : Order) Elems[std::to_string(P.first)] = node(P.second, Ids);
        F["elems"] = std::move(Elems);

        llvm::json::Object Blocks;
        for (const CFGBlock* B : *G) {
            llvm::json::Object BOj;
            llvm::json::Array Es;
            for (const CFGElement& E : *B) {
                if (auto SE = E.getAs<CFGStmt>()) {
                    Es.push_back(static_cast<int64_t>(Ids[SE->getStmt()]));
                } else if (auto IE = E.getAs<CFGInitializer>()) {
                    // member initialiser: encode as negative marker object inline
                    llvm::json::Object IO;
                    IO["k"] = "CtorInit";
                    if (IE->getInitializer()->isMemberInitializer())
                        IO["member"] = qname(IE->getInitializer()->getMember());
                    IO["ch"] = llvm::json::Array{child(IE->getInitializer()->getInit(), Ids, 0)};
                    Es.push_back(std::move(IO));
                }
            }
            BOj["elems"] = std::move(Es);
            llvm::json::Array Su;
            for (auto I = B->succ_begin(); I != B->succ_end(); ++I) {
                if (const CFGBlock* R = I->getReachableBlock())
                    Su.push_back(static_cast<int64_t>(R->getBlockID()));
                else
                    Su.push_back(nullptr);
            }
            BOj["succ"] = std::move(Su);
            if (const Stmt* T = B->getTerminatorStmt()) {
                llvm::json::Object TO;
                TO["k"] = T->getStmtClassName();
                TO["loc"] = locStr(T->getBeginLoc());
                if (auto* BOp = dyn_cast<BinaryOperator>(T)) TO["op"] = BOp->getOpcodeStr().str();
                if (auto* GS = dyn_cast<GotoStmt>(T)) TO["label"] = GS->getLabel()->getNameAsString();
                // the value that decides the branch is the last element of the block
                // (for `a && b` in an if: block 1 ends in `a`, block 2 ends in `b`)
                if (const Expr* LC = B->getLastCondition()) {
                    const Stmt* LS = nullptr;
                    if (!B->empty())
                        if (auto SE = B->rbegin()->getAs<CFGStmt>()) LS = SE->getStmt();
                    TO["cond"] = child(LS ? LS : LC, Ids, 0);
                } else if (B->succ_size() >= 2) {
                    if (const Stmt* C = B->getTerminatorCondition(false)) TO["cond"] = child(C, Ids, 0);
                }
                BOj["term"] = std::move(TO);
            }
            if (const Stmt* L = B->getLabel()) {
                if (auto* LS = dyn_cast<LabelStmt>(L)) BOj["label"] = LS->getDecl()->getNameAsString();
                // switch arms: the constant of the case label (lowered to comparisons by yk/inline.py)
                if (auto* CS = dyn_cast<CaseStmt>(L)) {
                    llvm::json::Object CO;
                    const Expr* LHS = CS->getLHS();
                    Expr::EvalResult ER;
                    if (LHS && !LHS->isValueDependent() && LHS->EvaluateAsInt(ER, Ctx)) {
                        llvm::SmallString<32> Str;
                        ER.Val.getInt().toString(Str, 10);
                        CO["cv"] = Str.str().str();
                    }
                    if (LHS) {
                        const Expr* E = LHS->IgnoreParenImpCasts();
                        if (auto* CE = dyn_cast<ConstantExpr>(E)) E = CE->getSubExpr()->IgnoreParenImpCasts();
                        if (auto* DR = dyn_cast<DeclRefExpr>(E))
                            if (auto* EC = dyn_cast<EnumConstantDecl>(DR->getDecl()))
                                CO["enum"] = EC->getQualifiedNameAsString();
                        CO["ty"] = tyStr(LHS->getType());
                    }
                    CO["range"] = CS->caseStmtIsGNURange();
                    CO["loc"] = locStr(CS->getBeginLoc());
                    BOj["case"] = std::move(CO);
                }
                if (isa<DefaultStmt>(L)) BOj["default"] = true;
            }
            Blocks[std::to_string(B->getBlockID())] = std::move(BOj);
        }
        F["blocks"] = std::move(Blocks);
        F["entry"] = static_cast<int64_t>(G->getEntry().getBlockID());
        F["exit"] = static_cast<int64_t>(G->getExit().getBlockID());
        return llvm::json::Value(std::move(F));
    }

    llvm::json::Value record(const CXXRecordDecl* RD) {
        llvm::json::Object R;
        R["loc"] = locStr(RD->getLocation());
        const ASTRecordLayout& L = Ctx.getASTRecordLayout(RD);
        R["size"] = static_cast<int64_t>(L.getSize().getQuantity());
        R["align"] = static_cast<int64_t>(L.getAlignment().getQuantity());
        llvm::json::Array Fs;
        unsigned i = 0;
        for (auto* FDl : RD->fields()) {
            llvm::json::Object FO;
            FO["name"] = FDl->getNameAsString();
            FO["type"] = tyStr(FDl->getType());
            FO["bit_offset"] = static_cast<int64_t>(L.getFieldOffset(i));
            if (FDl->isBitField()) FO["bit_width"] = static_cast<int64_t>(FDl->getBitWidthValue(Ctx));
            FO["unsigned"] = FDl->getType()->isUnsignedIntegerOrEnumerationType();
            Fs.push_back(std::move(FO));
            ++i;
        }
        R["fields"] = std::move(Fs);
        llvm::json::Array Bs;
        for (const auto& B : RD->bases()) Bs.push_back(tyStr(B.getType()));
        R["bases"] = std::move(Bs);
        R["polymorphic"] = RD->isPolymorphic();
        R["trivially_destructible"] = RD->hasTrivialDestructor();
        llvm::json::Array Ms;
        for (auto* M : RD->methods()) {
            if (M->isImplicit()) continue;
            llvm::json::Object MO;
            MO["fid"] = fid(M);
            MO["name"] = M->getNameAsString();
            MO["virtual"] = M->isVirtual();
            MO["pure"] = M->isPure();
            MO["access"] = M->getAccess() == AS_public ? "public" : (M->getAccess() == AS_private ? "private" : "protected");
            Ms.push_back(std::move(MO));
        }
        R["methods"] = std::move(Ms);
        return llvm::json::Value(std::move(R));
    }

    void write(llvm::raw_ostream& OS) {
        llvm::json::Object Top;
        Top["include_root"] = Root;
        llvm::json::Object Rs;
        for (auto* RD : Records) Rs[qname(RD)] = record(RD);
        Top["records"] = std::move(Rs);
        llvm::json::Object Gs;
        for (auto* VD : Globals) {
            llvm::json::Object GO;
            GO["type"] = tyStr(VD->getType());
            GO["loc"] = locStr(VD->getLocation());
            // constant initialiser, looking through std::atomic<T>{c} / T{c}
            {
                const VarDecl* Def = nullptr;
                if (const Expr* In = VD->getAnyInitializer(Def)) {
                    const Expr* E = In->IgnoreImplicit();
                    for (int hop = 0; hop < 4 && E; ++hop) {
                        if (auto* CE = dyn_cast<CXXConstructExpr>(E)) {
                            if (CE->getNumArgs() != 1) break;
                            E = CE->getArg(0)->IgnoreImplicit();
                        } else if (auto* IL = dyn_cast<InitListExpr>(E)) {
                            if (IL->getNumInits() != 1) break;
                            E = IL->getInit(0)->IgnoreImplicit();
                        } else if (auto* FC = dyn_cast<CXXFunctionalCastExpr>(E)) {
                            E = FC->getSubExpr()->IgnoreImplicit();
                        } else break;
                    }
                    Expr::EvalResult R;
                    if (E && !E->isValueDependent() && E->EvaluateAsInt(R, Ctx)) {
                        llvm::SmallString<32> Str;
                        R.Val.getInt().toString(Str, 10);
                        GO["init_cv"] = std::string(Str.str());
                    }
                }
            }
            Gs[qname(VD)] = std::move(GO);
        }
        Top["globals"] = std::move(Gs);
        llvm::json::Object Fs;
        for (auto* FD : Funcs) {
            std::string Id = fid(FD);
            if (Fs.find(Id) != Fs.end()) continue;
            Fs[Id] = function(FD);
        }
        Top["functions"] = std::move(Fs);
        OS << llvm::json::Value(std::move(Top));
    }

    std::string Root;

private:
    ASTContext& Ctx;
    SourceManager& SM;
    PrintingPolicy PP;
    std::set<const FunctionDecl*> Funcs;
    std::set<const CXXRecordDecl*> Records;
    std::set<const VarDecl*> Globals;
};

class Consumer : public ASTConsumer {
public:
    void HandleTranslationUnit(ASTContext& Ctx) override {
        if (Ctx.getDiagnostics().hasErrorOccurred()) {
            llvm::errs() << "ykfacts: translation unit has errors; no facts written\n";
            Failed = true;
            return;
        }
        Extractor X(Ctx);
        llvm::SmallString<256> P(OptRoot.getValue());
        llvm::sys::fs::make_absolute(P);
        llvm::sys::path::remove_dots(P, true);
        X.Root = std::string(P);
        if (X.Root.empty() || X.Root.back() != '/') X.Root += '/';
        X.TraverseDecl(Ctx.getTranslationUnitDecl());
        std::error_code EC;
        llvm::raw_fd_ostream OS(OptOut.getValue(), EC);
        if (EC) {
            llvm::errs() << "ykfacts: cannot open output: " << EC.message() << "\n";
            Failed = true;
            return;
        }
        X.write(OS);
    }
    static bool Failed;
};
bool Consumer::Failed = false;

class Action : public ASTFrontendAction {
public:
    std::unique_ptr<ASTConsumer> CreateASTConsumer(CompilerInstance&, StringRef) override {
        return std::make_unique<Consumer>();
    }
};

} // namespace

int main(int argc, const char** argv) {
    auto Exp = CommonOptionsParser::create(argc, argv, Cat);
    if (!Exp) {
        llvm::errs() << llvm::toString(Exp.takeError());
        return 2;
    }
    ClangTool Tool(Exp->getCompilations(), Exp->getSourcePathList());
    int rc = Tool.run(newFrontendActionFactory<Action>().get());
    if (rc != 0 || Consumer::Failed) return 2;
    return 0;
}
