// Type-level witnesses (E-WIT): compiled with -fsyntax-only -ferror-limit=0 against the real headers and the
// pinned flags.  Each WITNESS(id, expr) is one obligation; a failing one makes the compiler print
// "witness <id> failed".  Nothing here is executed.
#include "kvs.h"

#include <atomic>
#include <cstddef>
#include <cstdint>
#include <type_traits>

#define WITNESS(id, ...) static_assert((__VA_ARGS__), "witness " #id " failed")

namespace ykw {
using namespace yakushima;

// ---- C17: node version word -------------------------------------------------------------------
WITNESS(C17_body_size, sizeof(node_version64_body) == 8);
WITNESS(C17_body_align, alignof(node_version64_body) == 8);
WITNESS(C17_body_unique_repr, std::has_unique_object_representations_v<node_version64_body>);
WITNESS(C17_body_trivially_copyable, std::is_trivially_copyable_v<node_version64_body>);
WITNESS(C17_atomic_lock_free, std::atomic<node_version64_body>::is_always_lock_free);
WITNESS(C17_version_size, sizeof(node_version64) == 8);
WITNESS(C17_counter_types_unsigned, std::is_unsigned_v<node_version64_body::vinsert_delete_type> &&
                                     std::is_unsigned_v<node_version64_body::vsplit_type>);

// ---- C19: permutation word ---------------------------------------------------------------------
WITNESS(C19_perm_size, sizeof(permutation) == 8);
WITNESS(C19_perm_bits, permutation::cnk_bit_size + permutation::pkey_bit_size * key_slice_length == 64);
WITNESS(C19_perm_mask, permutation::cnk_mask == (1U << permutation::cnk_bit_size) - 1);
WITNESS(C19_slots_fit, key_slice_length <= (1U << permutation::pkey_bit_size) - 1);
WITNESS(C19_atomic_lock_free, std::atomic<std::uint64_t>::is_always_lock_free);

// ---- C15: value layout -------------------------------------------------------------------------
WITNESS(C15_value_header_fits_min_alignment, sizeof(value) <= 8);
WITNESS(C15_value_trivially_destructible, std::is_trivially_destructible_v<value>);
WITNESS(C15_lv_one_word, sizeof(link_or_value) == sizeof(std::uintptr_t));
WITNESS(C15_inline_ptr, is_inlinable<char*>());
WITNESS(C15_inline_uintptr, is_inlinable<std::uintptr_t>());
WITNESS(C15_not_inline_char, !is_inlinable<char>());
WITNESS(C15_not_inline_tree_instance, !is_inlinable<tree_instance>());
WITNESS(C15_value_length_type, sizeof(value_length_type) >= 4);
WITNESS(C15_align_type, std::is_same_v<value_align_type, std::align_val_t>);

// ---- C14: session table ------------------------------------------------------------------------
WITNESS(C14_table_capacity,
        std::tuple_size_v<std::remove_reference_t<decltype(thread_info_table::get_thread_info_table())>> ==
                YAKUSHIMA_MAX_PARALLEL_SESSIONS);
WITNESS(C14_running_lock_free, std::atomic<bool>::is_always_lock_free);
WITNESS(C14_epoch_lock_free, std::atomic<Epoch>::is_always_lock_free);
WITNESS(C14_token_is_pointer, std::is_same_v<Token, void*>);

// ---- C18: key tuple layout assumed by operator< ---------------------------------------------------
WITNESS(C18_slice_is_8_bytes, sizeof(key_slice_type) == 8);
WITNESS(C18_length_is_1_byte, sizeof(key_length_type) == 1 && std::is_unsigned_v<key_length_type>);
WITNESS(C18_fanout, key_slice_length == 15);

} // namespace ykw
