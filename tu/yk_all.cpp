// Driver translation unit for the static analysis: includes the one documented
// entry header of yakushima and forces instantiation of every public template
// for a fixed set of value types.  Nothing here is ever executed or linked.
#include "kvs.h"

#include <cstdint>
#include <functional>
#include <string>
#include <string_view>
#include <tuple>
#include <utility>
#include <vector>

namespace ykverif_driver {

struct alignas(64) big64 {
    char b[64];
};

template<class V>
void drive_value_type() {
    using namespace yakushima;
    Token token{};
    tree_instance* ti{};
    std::string_view sv{};
    V* vp{};
    V** cvp{};
    inserted_node_info ini{};
    node_version64* nvp{};
    // put: primary, by-name, legacy, nullptr-dispatch
    (void) put<V>(token, ti, sv, vp, false, sizeof(V), cvp,
                  static_cast<value_align_type>(alignof(V)), &ini);
    (void) put<V>(token, sv, sv, vp, sizeof(V), cvp,
                  static_cast<value_align_type>(alignof(V)), false, &ini);
    (void) put<V>(token, sv, sv, vp, sizeof(V), cvp,
                  static_cast<value_align_type>(alignof(V)), false, &nvp);
    (void) put<V>(token, sv, sv, vp, sizeof(V), cvp,
                  static_cast<value_align_type>(alignof(V)), false, nullptr);
    // get
    std::pair<V*, std::size_t> out{};
    std::pair<node_version64_body, node_version64*> cv{};
    (void) get<V>(ti, sv, out, &cv);
    (void) get<V>(sv, sv, out, &cv);
    // scan
    std::vector<std::tuple<std::string, V*, std::size_t>> tl;
    std::vector<std::pair<node_version64_body, node_version64*>> nv;
    (void) scan<V>(ti, sv, scan_endpoint::INF, sv, scan_endpoint::INF, tl, &nv,
                   0, false);
    (void) scan<V>(sv, sv, scan_endpoint::INF, sv, scan_endpoint::INF, tl, &nv,
                   0, false);
}

inline void drive_all() {
    using namespace yakushima;
    drive_value_type<char>();          // out-of-line value
    drive_value_type<char*>();         // inline value
#ifdef YKVERIF_THOROUGH
    drive_value_type<std::uintptr_t>(); // inline value
    drive_value_type<big64>();          // over-aligned out-of-line value
#endif
    Token token{};
    std::string_view sv{};
    tree_instance* ti{};
    (void) init;
    init();
    (void) enter(token);
    (void) remove(token, sv, sv);
    (void) remove(token, ti, sv);
    (void) create_storage(sv);
    (void) delete_storage(sv);
    (void) find_storage(sv, &ti);
    std::vector<std::pair<std::string, tree_instance*>> ls;
    (void) list_storages(ls);
    (void) mem_usage(sv);
    iscan_context* ctx{};
    void* val{};
    (void) iscan_open(sv, sv, scan_endpoint::INF, sv, scan_endpoint::INF, false,
                      false, ctx, val);
    (void) iscan_next(ctx, val);
    (void) iscan_close(ctx);
    (void) leave(token);
    (void) destroy();
    fin();
}

} // namespace ykverif_driver

void ykverif_driver_entry() { ykverif_driver::drive_all(); }
