#include "kvs.h"
#include <iostream>
#include <set>
using namespace yakushima;
// cursor opened with a start key inside layer 1: findfirst pushes the layer-0 element with layer_root = layer-1 root.
// After layer 1 is finished the cursor is back in layer 0; a split of the layer-0 border forces retry_from_root there.
int main() {
  init(); create_storage("s"); Token t{}; enter(t);
  std::string v{"v"};
  std::set<std::string> present;
  auto P = [&](const std::string& k){ put(t,"s",k,v.data(),v.size()); present.insert(k); };
  for (int i = 0; i < 3; ++i) { std::string k = "PPPPPPPP"; k += char('a'+i); P(k); }   // layer 1
  for (int i = 0; i < 13; ++i) { std::string k = "Q"; k += char('a'+i); P(k); }            // layer 0: 14 entries with the link
  std::set<std::string> stable = present;
  iscan_context* ctx{}; void* val{};
  std::vector<std::string> got;
  auto rc = iscan_open("s", "PPPPPPPPa", scan_endpoint::INCLUSIVE, "", scan_endpoint::INF, false, false, ctx, val);
  int n = 0;
  while (rc == status::OK && n < 100) {
    got.push_back(ctx->full_key());
    if (++n == 4) { // a b c of layer 1 and Qa delivered: now split the layer-0 border
      put(t,"s","A0",v.data(),v.size()); put(t,"s","A1",v.data(),v.size());
    }
    rc = iscan_next(ctx, val);
  }
  iscan_close(ctx);
  int bad = 0;
  std::set<std::string> gs(got.begin(), got.end());
  for (auto& k : got) if (!present.count(k)) { std::cout << "  delivered a key that was never stored: '" << k << "'\n"; bad++; }
  for (auto& k : stable) if (!gs.count(k)) { std::cout << "  stable key skipped: " << k << "\n"; bad++; }
  for (size_t i = 1; i < got.size(); ++i) if (!(got[i-1] < got[i])) { std::cout << "  not monotone at " << got[i] << "\n"; bad++; }
  std::cout << "delivered=" << got.size() << " stable=" << stable.size() << " rc=" << rc << " bad=" << bad << "\n";
  leave(t); fin();
  return bad ? 1 : 0;
}
