#include "kvs.h"
#include <iostream>
#include <random>
#include <set>
#include <map>
using namespace yakushima;
// single-threaded differential fuzz of the cursor: random puts/removes between iscan_next calls
static std::string pfx(int d) { std::string s; for (int i = 0; i < d; ++i) s += std::string(8, char('P' + i)); return s; }
static std::string rkey(std::mt19937& rng) {
  int d = rng() % 3;
  std::string k = pfx(d);
  int len = rng() % 3; // suffix length 0..2 (0 allowed: exact 8*d key)
  for (int i = 0; i < len; ++i) k += char(0x61 + rng() % 9);
  if (rng() % 8 == 0) k += std::string(8, 'P'); // sometimes continue into the deeper prefix path
  return k;
}
int main(int argc, char** argv) {
  unsigned seed0 = argc > 1 ? atoi(argv[1]) : 1; int iters = argc > 2 ? atoi(argv[2]) : 2000;
  long bad = 0;
  for (int it = 0; it < iters && bad < 5; ++it) {
    std::mt19937 rng(seed0 * 1000003u + it);
    init(); create_storage("s"); Token t{}; enter(t);
    std::string v{"v"};
    std::set<std::string> cur;
    int n0 = rng() % 150;
    for (int i = 0; i < n0; ++i) { auto k = rkey(rng); put(t, "s", k, v.data(), v.size()); cur.insert(k); }
    std::set<std::string> ever = cur, touched;
    bool rtl = rng() % 2;
    std::string lk = rkey(rng), rk = rkey(rng); if (rk < lk) std::swap(lk, rk);
    scan_endpoint le = scan_endpoint(rng() % 3), re = scan_endpoint(rng() % 3);
    iscan_context* ctx{}; void* val{};
    std::vector<std::string> got;
    auto rc = iscan_open("s", lk, le, rk, re, rtl, false, ctx, val);
    if (rc == status::ERR_BAD_USAGE) { if (ctx) iscan_close(ctx); leave(t); fin(); continue; }
    while (rc == status::OK) {
      got.push_back(ctx->full_key());
      int m = rng() % 4 == 0 ? rng() % 12 : 0;
      for (int i = 0; i < m; ++i) { auto k = rkey(rng); touched.insert(k);
        if (rng() % 2) { put(t, "s", k, v.data(), v.size()); cur.insert(k); ever.insert(k); } else { remove(t, "s", k); cur.erase(k); } }
      rc = iscan_next(ctx, val);
      if (got.size() > 1000) break;
    }
    if (ctx) iscan_close(ctx);
    auto inr = [&](const std::string& k) {
      if (le != scan_endpoint::INF) { if (k < lk || (k == lk && le == scan_endpoint::EXCLUSIVE)) return false; }
      if (re != scan_endpoint::INF) { if (k > rk || (k == rk && re == scan_endpoint::EXCLUSIVE)) return false; }
      return true; };
    std::set<std::string> gs(got.begin(), got.end());
    std::string why;
    if (rc != status::OK_SCAN_END) why = "rc";
    for (auto& k : got) { if (!ever.count(k)) why = "never stored: " + k; else if (!inr(k)) why = "out of range: " + k; }
    for (size_t i = 1; i < got.size(); ++i) if (rtl ? !(got[i] < got[i-1]) : !(got[i-1] < got[i])) why = "not monotone at " + got[i];
    for (auto& k : cur) if (!touched.count(k) && inr(k) && !gs.count(k)) why = "stable key skipped: " + k;
    if (!why.empty()) { bad++; std::cout << "seed=" << seed0 << " it=" << it << " rtl=" << rtl << " l=" << lk << "/" << int(le) << " r=" << rk << "/" << int(re) << " rc=" << rc << " : " << why << "\n"; }
    leave(t); fin();
  }
  std::cout << "bad=" << bad << "\n";
  return bad ? 1 : 0;
}
