#include "kvs.h"
#include <iostream>
#include <cstring>
using namespace yakushima;
// C07: a value pointer obtained inside a session stays valid until that session leaves.
// put<inline type> over a key that holds an out-of-line value frees the old block at once (no epoch protection).
int main() {
  init(); create_storage("s");
  Token a{}, b{}; enter(a); enter(b);
  std::string big(64, 'x');
  put<char>(a, "s", "k", big.data(), big.size());          // out-of-line value
  std::pair<char*, std::size_t> out{};
  if (get<char>("s", "k", out) != status::OK) return 2;     // session b reads (get needs no token; b is open)
  char* p = out.first;
  void* inl = reinterpret_cast<void*>(0x1234);
  put<void*>(a, "s", "k", &inl, sizeof(inl));                // overwrite with an inlinable type
  // session b is still open: p must still be readable and unchanged
  volatile char c = p[0];                                    // ASan: heap-use-after-free on the unrepaired tree
  int bad = std::memcmp(p, big.data(), big.size()) != 0;
  std::cout << "first byte after overwrite: " << c << (bad ? "  (contents changed)" : "  (contents intact)") << "\n";
  leave(b); leave(a); fin();
  return bad;
}
