#include "kvs.h"
#include <iostream>
#include <random>
#include <set>
using namespace yakushima;
// single-threaded exploration for C05: after a read that collected node versions, a put of a NEW key inside the covered
// interval must make at least one collected (version, node) pair stale; the set is never empty for an existing storage
static std::string pfx(int d) { std::string s; for (int i = 0; i < d; ++i) s += std::string(8, char('P' + i)); return s; }
static std::string rkey(std::mt19937& rng) {
  int d = rng() % 3; std::string k = pfx(d);
  int len = rng() % 3; for (int i = 0; i < len; ++i) k += char('a' + rng() % 9);
  if (rng() % 8 == 0) k += std::string(8, 'P');
  return k;
}
int main(int argc, char** argv) {
  unsigned seed0 = argc > 1 ? atoi(argv[1]) : 1; int iters = argc > 2 ? atoi(argv[2]) : 2000;
  long bad = 0, checked = 0;
  for (int it = 0; it < iters && bad < 8; ++it) {
    std::mt19937 rng(seed0 * 1000003u + it);
    init(); create_storage("s"); Token t{}; enter(t);
    std::string v{"v"};
    std::set<std::string> cur;
    int n0 = rng() % 150;
    for (int i = 0; i < n0; ++i) { auto k = rkey(rng); put(t, "s", k, v.data(), v.size()); cur.insert(k); }
    for (int i = 0, m = rng() % 40; i < m; ++i) { auto k = rkey(rng); remove(t, "s", k); cur.erase(k); }
    for (int q = 0; q < 6; ++q) {
      int mode = rng() % 3; // 0 scan, 1 iscan, 2 get miss
      std::string lk = rkey(rng), rk = rkey(rng); if (rk < lk) std::swap(lk, rk);
      scan_endpoint le = scan_endpoint(rng() % 3), re = scan_endpoint(rng() % 3);
      std::vector<std::pair<node_version64_body, node_version64*>> nvv;
      std::string lo, hi; bool lo_inf = false, hi_inf = false, lo_ex = false, hi_ex = false; // covered interval
      std::string what;
      if (mode == 0) {
        std::vector<std::tuple<std::string, char*, std::size_t>> tl;
        std::size_t mx = rng() % 3 == 0 ? 1 + rng() % 5 : 0;
        auto rc = scan<char>("s", lk, le, rk, re, tl, &nvv, mx);
        if (rc != status::OK) continue;
        lo = lk; lo_inf = le == scan_endpoint::INF; lo_ex = le == scan_endpoint::EXCLUSIVE;
        hi = rk; hi_inf = re == scan_endpoint::INF; hi_ex = re == scan_endpoint::EXCLUSIVE;
        if (mx != 0 && tl.size() >= mx) { hi = std::get<0>(tl.back()); hi_inf = false; hi_ex = true; }
        what = "scan max=" + std::to_string(mx);
      } else if (mode == 1) {
        bool rtl = rng() % 2; iscan_context* ctx{}; void* val{};
        auto cb = [&](node_version64* p, node_version64_body b) { nvv.emplace_back(b, p); return false; };
        auto rc = iscan_open("s", lk, le, rk, re, rtl, false, ctx, val, cb);
        if (rc == status::ERR_BAD_USAGE) { if (ctx) iscan_close(ctx); continue; }
        std::size_t stop = rng() % 3 == 0 ? 1 + rng() % 5 : 100000, n = 0; std::string last;
        while (rc == status::OK) { last = ctx->full_key(); if (++n >= stop) break; rc = iscan_next(ctx, val, cb); }
        lo = lk; lo_inf = le == scan_endpoint::INF; lo_ex = le == scan_endpoint::EXCLUSIVE;
        hi = rk; hi_inf = re == scan_endpoint::INF; hi_ex = re == scan_endpoint::EXCLUSIVE;
        if (rc == status::OK) { if (!rtl) { hi = last; hi_inf = false; hi_ex = true; } else { lo = last; lo_inf = false; lo_ex = true; } }
        if (ctx) iscan_close(ctx);
        what = std::string("iscan rtl=") + (rtl ? "1" : "0") + " stop=" + std::to_string(stop);
      } else {
        std::pair<char*, std::size_t> out{}; std::pair<node_version64_body, node_version64*> cv{};
        auto rc = get<char>("s", lk, out, &cv);
        if (rc != status::WARN_NOT_EXIST) continue;
        if (cv.second == nullptr) { bad++; std::cout << "seed=" << seed0 << " it=" << it << " get miss without checked version key=" << lk << "\n"; continue; }
        nvv.emplace_back(cv); lo = hi = lk; what = "get miss";
      }
      bool single_existing = false;
      if (mode == 1) { // covered interval degenerates to one existing key: nothing can be inserted into it
        std::string a = lo, b = hi; (void)a; (void)b;
      }
      if (nvv.empty() && mode == 1 && !lo_inf && !hi_inf && ((lo == hi) || false)) single_existing = cur.count(lo) != 0;
      if (nvv.empty() && mode == 1 && !single_existing) {
        // partially consumed cursor whose only produced entry is the INCLUSIVE start key itself
        single_existing = true; // decided below: is there any insertable key in the covered interval?
        for (int tr = 0; tr < 200 && single_existing; ++tr) { std::string c = rkey(rng); if (cur.count(c)) continue;
          if (!lo_inf && (c < lo || (c == lo && lo_ex))) continue; if (!hi_inf && (c > hi || (c == hi && hi_ex))) continue; single_existing = false; }
      }
      if (nvv.empty() && single_existing) continue;
      if (nvv.empty()) { bad++; std::cout << "seed=" << seed0 << " it=" << it << " EMPTY node-version set: " << what << " l=" << lk << "/" << int(le) << " r=" << rk << "/" << int(re) << "\n"; continue; }
      // pick a new key inside the covered interval
      std::string nk; bool found = false;
      for (int tr = 0; tr < 30 && !found; ++tr) {
        nk = mode == 2 ? lk : rkey(rng);
        if (cur.count(nk)) continue;
        if (!lo_inf && (nk < lo || (nk == lo && lo_ex))) continue;
        if (!hi_inf && (nk > hi || (nk == hi && hi_ex))) continue;
        found = true;
      }
      if (!found) continue;
      put(t, "s", nk, v.data(), v.size()); cur.insert(nk); checked++;
      bool stale = false;
      for (auto& pr : nvv) if (pr.second->get_stable_version() != pr.first) stale = true;
      if (!stale) { bad++; std::cout << "seed=" << seed0 << " it=" << it << " q=" << q << " PHANTOM MISSED: " << what << " l=" << lk << "/" << int(le) << " r=" << rk << "/" << int(re) << " covered=[" << lo << "," << hi << "] new key=" << nk << " nvv=" << nvv.size() << "\n"; }
    }
    leave(t); fin();
  }
  std::cout << "checked=" << checked << " bad=" << bad << "\n";
  return bad ? 1 : 0;
}
