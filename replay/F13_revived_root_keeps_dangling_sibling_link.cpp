// F13 (C08: "prev/next links are mutually consistent ... no unlinked node is still reachable"; C09/C10: a backward
// cursor never completes). Found as an intermittent hang (about 1 run in 300) of the pinned test
// multi_thread_put_delete_iscan_many_interior_test: every worker spins in iscan_findnext on a quiescent tree whose
// leftmost border has prev_ pointing to a deleted border.
// Two borders N - D under one root interior. Session A removes the last key of D: D is marked deleted and unlinked from
// N (N.next = nullptr; D keeps D.prev = N) and A pauses before locking the parent. Session B removes the last key of N:
// N has no neighbour left to update, the interior collapses and D - deleted, still locked by A - is promoted to root.
// A resumes, finds no parent and leaves D as the "empty deleted root". The next put revives D, with D.prev still
// pointing to the retired N: a right-to-left cursor steps from D to N, sees "deleted", retries from the root, for ever;
// after two epochs N is freed and the same step reads freed memory.
// Build: g++ -std=c++17 -O1 -g -DNDEBUG -DYAKUSHIMA_VERIF -DYAKUSHIMA_EPOCH_TIME=40 -DYAKUSHIMA_MAX_PARALLEL_SESSIONS=16
//        -DYAKUSHIMA_LINUX -I/repo/include F13_revived_root_keeps_dangling_sibling_link.cpp -lglog -ltbb -lpthread
// exit 1 + "DANGLING" on the unrepaired tree, exit 0 on the repaired one.
#include "kvs.h"
#include <atomic>
#include <chrono>
#include <iostream>
#include <thread>
using namespace yakushima;

static std::atomic<int> stage{0};     // 0: run, 1: A parked after the unlink, 2: B done
static thread_local bool is_a = false;

static void hook(int id) {
    if (id != 8 || !is_a) return;
    stage.store(1);
    while (stage.load() != 2) { std::this_thread::yield(); }
}

static std::string key(int i) { char b[8]; snprintf(b, sizeof b, "k%02d", i); return b; }

int main() {
    init();
    create_storage("s");
    Token b{};
    enter(b);
    char v = 'v';
    for (int i = 0; i < 16; ++i) { put<char>(b, "s", key(i), &v, 1); }   // one split: borders N {0..7} D {8..15}
    for (int i = 1; i < 8; ++i) { remove(b, "s", key(i)); }              // N keeps k00
    for (int i = 9; i < 16; ++i) { remove(b, "s", key(i)); }             // D keeps k08
    verif::point_hook = hook;
    std::thread a([&] {
        is_a = true;
        Token t{};
        enter(t);
        remove(t, "s", key(8));                                          // empties D, parks after the unlink
        leave(t);
    });
    while (stage.load() != 1) { std::this_thread::yield(); }
    remove(b, "s", key(0));                                              // empties N: the interior collapses, D becomes root
    stage.store(2);
    a.join();
    verif::point_hook = nullptr;
    put<char>(b, "s", key(20), &v, 1);                                   // revives the empty deleted root D
    // structure: the root border is the only border of the tree
    tree_instance* ti{};
    storage::find_storage("s", &ti);
    auto* root = dynamic_cast<border_node*>(ti->load_root_ptr());
    int bad = 0;
    if (root == nullptr) { std::cout << "unexpected shape: the root is not a border\n"; return 2; }
    if (root->get_prev() != nullptr || root->get_next() != nullptr) {
        std::cout << "DANGLING: the revived root border has prev=" << root->get_prev() << " next=" << root->get_next()
                  << "; prev is " << (root->get_prev() && root->get_prev()->get_version_deleted() ? "a deleted" : "a")
                  << " node\n";
        bad = 1;
    }
    // behaviour: a backward cursor over the storage must end
    std::atomic<bool> done{false};
    std::thread c([&] {
        Token t{};
        enter(t);
        iscan_context* ctx{};
        void* val{};
        auto rc = iscan_open("s", "", scan_endpoint::INF, "", scan_endpoint::INF, true, false, ctx, val);
        while (rc == status::OK) { rc = iscan_next(ctx, val); }
        if (ctx) { iscan_close(ctx); }
        leave(t);
        done.store(true);
    });
    for (int i = 0; i < 200 && !done.load(); ++i) { std::this_thread::sleep_for(std::chrono::milliseconds(10)); }
    if (!done.load()) {
        std::cout << "HANG: a right-to-left cursor over one key does not end within 2 s\n";
        std::cout.flush();
        _exit(1);
    }
    c.join();
    if (!bad) std::cout << "links consistent, backward cursor ends\n";
    leave(b);
    fin();
    return bad;
}
