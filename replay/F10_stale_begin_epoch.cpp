// Replay for C07 / C14 ("a session is counted by the reclamation protocol from the moment enter returns"):
// enter() reads the global epoch and publishes it as the session's begin epoch in two steps.  While the slot is
// claimed but its begin epoch is still 0 the epoch thread does not wait for it, so a thread descheduled between the
// two steps publishes a begin epoch that is arbitrarily old.  Everything that session retires is tagged with the
// stale epoch and is freed as soon as the session leaves, although sessions that were already open hold pointers.
//
// Staged schedule (pause point 6 of the guarded hooks, -DYAKUSHIMA_VERIF):
//   S: enter() paused after reading the epoch E, before publishing it
//   main: waits until the global epoch is >= E + 3; session Y enters (begin epoch >= E + 3), get(k) -> p
//   S resumes: begin epoch = E (stale); S overwrites k (retire tag E) and leaves
//   main: waits two epochs (gc epoch = Y.begin - 1 > E, GC pass) and reads p while Y is still open
// Exit 1 = defect reproduced (contents changed; with -fsanitize=address: heap-use-after-free), 0 = not reproduced.
// build: g++ -std=c++17 -O1 -g -DNDEBUG -DYAKUSHIMA_VERIF -DYAKUSHIMA_EPOCH_TIME=40 -DYAKUSHIMA_MAX_PARALLEL_SESSIONS=16 \
//            -DYAKUSHIMA_LINUX -I/repo/include F10_stale_begin_epoch.cpp -lglog -ltbb -lpthread
#include "kvs.h"
#include <atomic>
#include <chrono>
#include <cstring>
#include <iostream>
#include <thread>
using namespace yakushima;
static std::atomic<int> stage{0}; // 0 idle, 1 S paused at point 6, 2 S may go on
static thread_local bool is_s = false;
static void hook(int id) {
  if (id == 6 && is_s && stage.load() == 0) { stage.store(1); while (stage.load() != 2) std::this_thread::sleep_for(std::chrono::milliseconds(1)); }
}
int main() {
  init(); create_storage("s");
  std::string big(64, 'x'), big2(64, 'y');
  { Token t{}; enter(t); put<char>(t, "s", "k", big.data(), big.size()); leave(t); }
  verif::point_hook = hook;
  Epoch e0 = epoch_management::get_epoch();
  std::atomic<bool> s_done{false};
  std::thread s([&] { is_s = true; Token t{}; enter(t);            // paused inside enter
                      put<char>(t, "s", "k", big2.data(), big2.size()); // retires the old value with the session's begin epoch
                      leave(t); s_done = true; });
  while (stage.load() != 1) std::this_thread::sleep_for(std::chrono::milliseconds(1));
  while (epoch_management::get_epoch() < e0 + 3) std::this_thread::sleep_for(std::chrono::milliseconds(5));
  Token y{}; enter(y);
  std::pair<char*, std::size_t> out{};
  if (get<char>("s", "k", out) != status::OK) return 2;
  char* p = out.first;
  stage.store(2);
  while (!s_done) std::this_thread::sleep_for(std::chrono::milliseconds(1));
  std::this_thread::sleep_for(std::chrono::milliseconds(400)); // several epochs and GC passes; Y is still open
  volatile char c = p[0];
  int bad = std::memcmp(p, big.data(), big.size()) != 0;
  std::cout << "epoch at S's read: " << e0 << ", now: " << epoch_management::get_epoch() << "; first byte of Y's value: " << c << (bad ? " (changed)" : " (intact)") << "\n";
  leave(y); s.join(); fin();
  return bad;
}
