#include "kvs.h"
#include <iostream>
using namespace yakushima;
static int run(const char* l, scan_endpoint le, const char* r, scan_endpoint re, bool rtl) {
  std::vector<std::pair<node_version64*,node_version64_body>> nv;
  iscan_context* ctx{}; void* val{};
  auto rc = iscan_open("s", l, le, r, re, rtl, false, ctx, val,
     [&](node_version64* p,node_version64_body b){nv.emplace_back(p,b);return false;});
  std::cout << "iscan_open(" << l << "," << r << ",rtl=" << rtl << ") rc=" << rc << " callbacks=" << nv.size() << "\n";
  iscan_close(ctx);
  return nv.size();
}
int main(){
  init(); create_storage("s"); Token t{}; enter(t);
  std::string v{"v"};
  put(t,"s","A",v.data(),v.size());
  put(t,"s","C",v.data(),v.size());
  int bad = 0;
  if (run("BBBBBBBBa", scan_endpoint::INCLUSIVE, "BBBBBBBBxyz", scan_endpoint::INCLUSIVE, false) == 0) bad++;
  if (run("BBBBBBBBa", scan_endpoint::INCLUSIVE, "BBBBBBBBxyz", scan_endpoint::INCLUSIVE, true) == 0) bad++;
  if (run("BBBBBBBBa", scan_endpoint::EXCLUSIVE, "BBBBBBBBxyz", scan_endpoint::INCLUSIVE, false) == 0) bad++;
  // control: the same interval seen through scan()
  std::vector<std::tuple<std::string, char*, std::size_t>> tl;
  std::vector<std::pair<node_version64_body, node_version64*>> nvv;
  auto rc = scan<char>("s", "BBBBBBBBa", scan_endpoint::INCLUSIVE, "BBBBBBBBxyz", scan_endpoint::INCLUSIVE, tl, &nvv);
  std::cout << "scan rc=" << rc << " tuples=" << tl.size() << " node_version_vec=" << nvv.size() << "\n";
  leave(t); fin();
  return bad ? 1 : 0;
}
