// F12 (C04: "the result of a concurrent scan is strictly ascending"; upstream known issue tcn#8, the intermittent
// "it found duplicate" of multi_thread_put_delete_scan_many_interior_test).
// A scan that has finished border B1 and stands on its right sibling B2 while another session removes every key of B1
// (B1 is deleted, its key range is absorbed by B2 because B1 was the leftmost child) and re-inserts one of them: the key
// lands in B2, the scan's validation of B2 fails, B2 is read again and the key the scan already delivered from B1 is
// delivered a second time, behind greater keys.
// Build: g++ -std=c++17 -O1 -g -DNDEBUG -DYAKUSHIMA_VERIF -DYAKUSHIMA_EPOCH_TIME=40 -DYAKUSHIMA_MAX_PARALLEL_SESSIONS=16
//        -DYAKUSHIMA_LINUX -I/repo/include F12_scan_duplicate_after_border_absorbed.cpp -lglog -ltbb -lpthread
// exit 1 + "NOT ASCENDING" on the unrepaired tree, exit 0 on the repaired one.
#include "kvs.h"
#include <atomic>
#include <iostream>
#include <thread>
using namespace yakushima;

static std::atomic<int> hits{0};
static std::atomic<int> stage{0};     // 0: run, 1: scanner parked, 2: writer done
static thread_local bool is_scanner = false;

static void hook(int id) {
    if (id != 3 || !is_scanner) return;
    // pause point 3 fires once per visited entry of scan_border: the 9th hit is the first entry of the second border
    if (hits.fetch_add(1) + 1 == 9) {
        stage.store(1);
        while (stage.load() != 2) { std::this_thread::yield(); }
    }
}

static std::string key(int i) { char b[8]; snprintf(b, sizeof b, "k%02d", i); return b; }

int main() {
    init();
    create_storage("s");
    Token w{};
    enter(w);
    char v = 'v';
    for (int i = 0; i < 31; ++i) { put<char>(w, "s", key(i), &v, 1); }   // borders {0..7} {8..15} {16..30}
    verif::point_hook = hook;
    std::vector<std::tuple<std::string, char*, std::size_t>> res;
    std::thread scanner([&] {
        is_scanner = true;
        Token t{};
        enter(t);
        scan<char>("s", "", scan_endpoint::INF, "", scan_endpoint::INF, res);
        leave(t);
    });
    while (stage.load() != 1) { std::this_thread::yield(); }
    for (int i = 0; i < 8; ++i) { remove(w, "s", key(i)); }               // the first border is emptied and unlinked
    put<char>(w, "s", key(3), &v, 1);                                      // lands in the border the scanner stands on
    stage.store(2);
    scanner.join();
    verif::point_hook = nullptr;
    int bad = 0;
    for (std::size_t i = 1; i < res.size(); ++i) {
        if (!(std::get<0>(res[i - 1]) < std::get<0>(res[i]))) {
            std::cout << "NOT ASCENDING: \"" << std::get<0>(res[i - 1]) << "\" is followed by \"" << std::get<0>(res[i])
                      << "\" (position " << i << " of " << res.size() << ")\n";
            bad = 1;
        }
    }
    if (!bad) std::cout << "ascending, " << res.size() << " entries\n";
    leave(w);
    fin();
    return bad;
}
