#include "kvs.h"
#include <atomic>
using namespace yakushima;
std::atomic<int> rs{0}, ws{0};
thread_local bool is_reader=false, is_writer=false;
void hook_w(){ if(!is_writer) return; ws.store(1); while(ws.load()!=2) _mm_pause(); }
void hook_r(){ if(!is_reader) return; if(rs.load()!=0) return; rs.store(1); while(rs.load()!=2) _mm_pause(); }
template<class F> void stage(tree_instance* ti, Token t1, const char* what, F reader){
  rs=0; ws=0;
  std::string v="value"; put(t1,ti,"a",v.data(),false,v.size());
  std::thread rd([&]{ is_reader=true; reader(); });
  while(rs.load()!=1) _mm_pause();
  std::thread rem([&]{ is_writer=true; auto rc=remove(t1,ti,"a"); printf("[%s] remove rc=%s\n", what, std::string(to_string_view(rc)).c_str()); });
  while(ws.load()!=1) _mm_pause();
  rs.store(2);
  std::this_thread::sleep_for(std::chrono::milliseconds(50));
  ws.store(2);
  rem.join(); rd.join();
}
int main(int, char** argv){
  google::InitGoogleLogging(argv[0]);
  init(); create_storage("s");
  Token t1{},t2{}; enter(t1); enter(t2);
  std::string v="value"; put(t1,"s","b",v.data(),v.size());
  tree_instance* ti{}; find_storage("s",&ti);
  ykx_hook = hook_w; ykx_hook2 = hook_r;
  stage(ti,t1,"scan",[&]{
    std::vector<std::tuple<std::string,char*,std::size_t>> tl;
    auto rc = scan<char>(ti,"",scan_endpoint::INF,"",scan_endpoint::INF,tl,nullptr,0);
    printf("[scan] rc=%s n=%zu", std::string(to_string_view(rc)).c_str(), tl.size());
    for(auto&e:tl) printf("  (%s,%p,%zu)", std::get<0>(e).c_str(), (void*)std::get<1>(e), std::get<2>(e));
    printf("\n");
  });
  stage(ti,t1,"iscan_open",[&]{
    iscan_context* ctx{}; void* val=(void*)0x1;
    auto rc = iscan_open(ti,"a",scan_endpoint::INCLUSIVE,"",scan_endpoint::INF,ctx,val,dummycallback,false,false);
    printf("[iscan_open] rc=%s val=%p key=%s\n", std::string(to_string_view(rc)).c_str(), val, rc==status::OK?ctx->full_key().c_str():"-");
    iscan_close(ctx);
  });
  ykx_hook=nullptr; ykx_hook2=nullptr; leave(t1); leave(t2); fin();
}
