#include "kvs.h"
#include <atomic>
using namespace yakushima;
std::atomic<int> rs{0}, ws{0};
thread_local bool is_reader=false, is_writer=false;
void hook_w(){ if(!is_writer) return; ws.store(1); while(ws.load()!=2) _mm_pause(); }
void hook_r(){ if(!is_reader) return; if(rs.load()!=0) return; rs.store(1); while(rs.load()!=2) _mm_pause(); }
int main(int, char** argv){
  google::InitGoogleLogging(argv[0]);
  init(); create_storage("s");
  Token t1{},t2{}; enter(t1); enter(t2);
  std::string v="value"; put(t1,"s","a",v.data(),v.size()); put(t1,"s","b",v.data(),v.size());
  tree_instance* ti{}; find_storage("s",&ti);
  ykx_hook = hook_w; ykx_hook2 = hook_r;
  std::thread rd([&]{ is_reader=true;
    std::pair<char*,std::size_t> out{(char*)0x1,0};
    auto rc = get<char>(ti,"a",out);
    printf("get rc=%s ptr=%p len=%zu\n", std::string(to_string_view(rc)).c_str(), (void*)out.first, out.second);
  });
  while(rs.load()!=1) _mm_pause();           // reader fetched lv (validated), about to load the slot
  std::thread rem([&]{ is_writer=true; auto rc=remove(t1,ti,"a"); printf("remove rc=%s\n", std::string(to_string_view(rc)).c_str()); });
  while(ws.load()!=1) _mm_pause();           // remover: slot cleared, permutation not yet shrunk, lock held
  rs.store(2);                               // reader loads slot -> cleared; then waits for stable version
  std::this_thread::sleep_for(std::chrono::milliseconds(50));
  ws.store(2);                               // remover shrinks permutation, unlocks (no version bump)
  rem.join(); rd.join();
  ykx_hook=nullptr; ykx_hook2=nullptr; leave(t1); leave(t2); fin();
}
