#include "kvs.h"
#include <cassert>
using namespace yakushima;
int main(int, char** argv){
  google::InitGoogleLogging(argv[0]);
  init();
  create_storage("s");
  Token t{}; enter(t);
  // Exp1: many keys -> multiple borders; scan with INF + non-empty l_key
  for (int i=0;i<100;i++){ char k[8]; snprintf(k,8,"k%03d",i); std::string v="v"; put(t,"s",k,v.data(),v.size()); }
  std::vector<std::tuple<std::string,char*,std::size_t>> tl;
  scan<char>("s","",scan_endpoint::INF,"",scan_endpoint::INF,tl,nullptr,0);
  printf("full scan INF/'' : %zu\n", tl.size());
  scan<char>("s","k050",scan_endpoint::INF,"",scan_endpoint::INF,tl,nullptr,0);
  printf("scan INF with l_key='k050' : %zu (expected 100 if key ignored)\n", tl.size());
  // Exp2
  create_storage("p");
  { std::string v="v"; put(t,"p","A",v.data(),v.size()); put(t,"p","BBBBBBBBxyz",v.data(),v.size()); }
  std::vector<std::pair<node_version64_body,node_version64*>> nv;
  auto rc = scan<char>("p","AB",scan_endpoint::INCLUSIVE,"BBBBBBBB",scan_endpoint::EXCLUSIVE,tl,&nv,0);
  printf("Exp2 rc=%d tuples=%zu nvec=%zu (expected nvec>=1)\n",(int)rc,tl.size(),nv.size());
  // Exp2b: max_size reached inside layer: border has only links
  create_storage("q");
  { std::string v="v"; put(t,"q","AAAAAAAA1",v.data(),v.size()); put(t,"q","AAAAAAAA2",v.data(),v.size()); put(t,"q","CCCCCCCC1",v.data(),v.size());}
  rc = scan<char>("q","",scan_endpoint::INF,"",scan_endpoint::INF,tl,&nv,1);
  tree_instance* ti{}; find_storage("q",&ti);
  auto* rootb = dynamic_cast<border_node*>(ti->load_root_ptr());
  bool has_root=false; for(auto&e:nv) if(e.second==rootb->get_version_ptr()) has_root=true;
  printf("Exp2b rc=%d tuples=%zu nvec=%zu root-border-recorded=%d\n",(int)rc,tl.size(),nv.size(),has_root);
  // one-entry scan stopping at AAAAAAAA1: covered interval = [-inf, AAAAAAAA1]; inserting "A" (< AAAAAAAA1) lands in root border
  leave(t);
  fin();
  // Exp3
  init();
  auto e0 = epoch_management::get_epoch();
  sleepMs(300);
  auto e1 = epoch_management::get_epoch();
  printf("Exp3 second cycle epoch advance over 300ms: %lu -> %lu\n", e0, e1);
  fin();
  return 0;
}
