// Replay for report C10/R-VAR "descent into next layer: node data loaded after the last version check"
// (iscan_findnext loads the next-layer link of an entry *after* the per-entry iscan_check_retry and descends
// without re-validating; the source carries "TODO: implement check and retry").
//
// Staged schedule (pause point 5 of the guarded hooks, -DYAKUSHIMA_VERIF):
//   T1 cursor: iscan_open over everything; paused after the per-entry check of the link entry "AAAAAAAA".
//   T2 writer: remove("AAAAAAAAx1")  -> the link entry disappears, its slot keeps the stale word
//              put("BBBBBBBBy2")     -> the freed slot is reused for a link to a *different* layer
//   T1 resumes: loads the slot again -> descends into the layer of "BBBBBBBB" believing the prefix is "AAAAAAAA".
// A correct cursor yields "AAAAAAAAx1" (current at some instant) or "BBBBBBBBy2"; it must never report a key that
// was never stored.  Exit 1 = defect reproduced, 0 = not reproduced.
//
// build: g++ -std=c++17 -O1 -g -DNDEBUG -DYAKUSHIMA_VERIF -DYAKUSHIMA_EPOCH_TIME=40 -DYAKUSHIMA_MAX_PARALLEL_SESSIONS=16 \
//            -DYAKUSHIMA_LINUX -I/repo/include F6_iscan_link_load_after_check.cpp -lglog -ltbb -lpthread
#include "kvs.h"

#include <atomic>
#include <chrono>
#include <iostream>
#include <string>
#include <thread>

using namespace yakushima;

static std::atomic<int> stage{0}; // 0: cursor may run, 1: cursor paused at point 5, 2: writer done
static thread_local bool is_cursor = false;

static void hook(int id) {
    if (id == 5 && is_cursor && stage.load() == 0) {
        stage.store(1);
        while (stage.load() != 2) { std::this_thread::sleep_for(std::chrono::milliseconds(1)); }
    }
}

int main() {
    init();
    create_storage("s");
    verif::point_hook = hook;
    std::string v1{"value-x1"};
    std::string v2{"value-y2"};
    Token tw{};
    enter(tw);
    put(tw, "s", "AAAAAAAAx1", v1.data(), v1.size());

    std::string got_key;
    std::string got_val;
    status got_rc{};
    std::thread cursor([&] {
        is_cursor = true;
        Token t{};
        enter(t);
        iscan_context* ctx{};
        void* val{};
        got_rc = iscan_open("s", "", scan_endpoint::INF, "", scan_endpoint::INF, false, false, ctx, val);
        if (got_rc == status::OK) {
            got_key = ctx->full_key();
            got_val = std::string(static_cast<char*>(val), 8);
        }
        iscan_close(ctx);
        leave(t);
    });
    while (stage.load() != 1) { std::this_thread::sleep_for(std::chrono::milliseconds(1)); }
    auto r1 = remove(tw, "s", "AAAAAAAAx1");
    auto r2 = put(tw, "s", "BBBBBBBBy2", v2.data(), v2.size());
    stage.store(2);
    cursor.join();
    leave(tw);
    std::cout << "remove=" << r1 << " put=" << r2 << " iscan_open=" << got_rc << " key=\"" << got_key << "\" value=\""
              << got_val << "\"\n";
    int rc = 0;
    if (got_rc == status::OK && got_key != "AAAAAAAAx1" && got_key != "BBBBBBBBy2") {
        std::cout << "DEFECT: the cursor reported a key that was never stored\n";
        rc = 1;
    }
    fin();
    return rc;
}
