#include "kvs.h"
#include <atomic>
#include <iostream>
#include <random>
#include <set>
#include <thread>
using namespace yakushima;
static std::atomic<bool> stop{false};
static std::atomic<long> bad{0}, rounds{0};
static std::string pfx(int d) { std::string s; for (int i = 0; i < d; ++i) s += std::string(8, char('A' + i)); return s; }
int main(int argc, char** argv) {
  int secs = argc > 1 ? atoi(argv[1]) : 10;
  init(); create_storage("s");
  std::set<std::string> stable;
  { Token t{}; enter(t); std::string v{"stable"};
    for (int d = 0; d <= 3; ++d) for (int i = 0; i < 6; ++i) { std::string k = pfx(d) + "s" + char('a' + i * 4); put(t, "s", k, v.data(), v.size()); stable.insert(k); }
    leave(t); }
  std::vector<std::thread> th;
  for (int w = 0; w < 3; ++w) th.emplace_back([w] {
    std::mt19937 rng(w + 1); std::string v{"vol"};
    while (!stop) {
      Token t{}; while (enter(t) != status::OK) {}
      for (int n = 0; n < 200; ++n) {
        int d = rng() % 5; // d == 4: a region with only volatile keys below prefix "ZZZZZZZZ" / deeper
        std::string k = d < 4 ? pfx(d) : std::string(8, 'Z') + std::string(8 * (rng() % 2), 'Y');
        k += (rng() % 2) ? "v" : "a"; k += char(0x61 + rng() % 7);
        if (rng() % 2) put(t, "s", k, v.data(), v.size()); else remove(t, "s", k);
      }
      leave(t);
    }
  });
  for (int c = 0; c < 2; ++c) th.emplace_back([c, &stable] {
    bool rtl = c == 1;
    while (!stop) {
      Token t{}; while (enter(t) != status::OK) {}
      iscan_context* ctx{}; void* val{};
      std::vector<std::string> got;
      auto rc = iscan_open("s", "", scan_endpoint::INF, "", scan_endpoint::INF, rtl, false, ctx, val);
      int n = 0;
      while (rc == status::OK) {
        if (val == nullptr) { bad++; std::cout << "null value\n"; }
        got.push_back(ctx->full_key());
        if (++n % 3 == 0) std::this_thread::sleep_for(std::chrono::microseconds(30));
        rc = iscan_next(ctx, val);
      }
      iscan_close(ctx);
      if (rc != status::OK_SCAN_END) { bad++; std::cout << "rc=" << rc << "\n"; }
      std::set<std::string> gs(got.begin(), got.end());
      for (auto& k : stable) if (!gs.count(k)) { bad++; std::cout << "rtl=" << rtl << " stable key skipped: " << k << "\n"; }
      for (size_t i = 1; i < got.size(); ++i) if (rtl ? !(got[i] < got[i - 1]) : !(got[i - 1] < got[i])) { bad++; std::cout << "rtl=" << rtl << " not monotone: " << got[i - 1] << " then " << got[i] << "\n"; }
      leave(t); rounds++;
      if (bad > 20) stop = true;
    }
  });
  for (int s = 0; s < secs * 10 && !stop; ++s) std::this_thread::sleep_for(std::chrono::milliseconds(100));
  stop = true; for (auto& x : th) x.join();
  fin();
  std::cout << "rounds=" << rounds << " bad=" << bad << "\n";
  return bad ? 1 : 0;
}
