// Replay for C11 / C13: delete_storage looks the entry up and removes the name in two steps.
// Schedule (pause point 7, -DYAKUSHIMA_VERIF):
//   A: delete_storage("orders") parked after its lookup (entry E1)
//   B: delete_storage("orders") -> OK (E1 unlinked, its tree destroyed, E1's root pointer nulled)
//      create_storage("orders") -> OK (entry E2 with a fresh tree), put a key
//   A resumes: remove("orders") unlinks E2 and returns OK; A then reads the root from E1 (null) and destroys nothing:
//      the tree of E2 is unreachable and is never released, not even by fin()  (LeakSanitizer: exit code != 0)
// On a tree where create/delete are serialised, B cannot run while A is parked: the replay releases A after 300 ms
// and nothing leaks.
// build: g++ -std=c++17 -O1 -g -fsanitize=address -DNDEBUG -DYAKUSHIMA_VERIF -DYAKUSHIMA_EPOCH_TIME=40 \
//        -DYAKUSHIMA_MAX_PARALLEL_SESSIONS=16 -DYAKUSHIMA_LINUX -I/repo/include F11_delete_create_delete_leak.cpp -lglog -ltbb -lpthread
#include "kvs.h"
#include <atomic>
#include <chrono>
#include <cstdio>
#include <thread>
using namespace yakushima;
extern "C" const char* __asan_default_options() { return "detect_leaks=1:exitcode=1"; }
static thread_local bool stage_me = false;
static std::atomic<bool> parked{false}, release_a{false};
static void hook(int id) { if (id != 7 || !stage_me) return; stage_me = false; parked = true; while (!release_a) std::this_thread::yield(); }
int main() {
  verif::point_hook = hook;
  init();
  Token t{}; enter(t);
  create_storage("orders");
  std::string v{"v1-out-of-line-value"};
  for (int i = 0; i < 20; ++i) { std::string k = "k" + std::to_string(i); put<char>(t, "orders", k, v.data(), v.size()); }
  leave(t);
  status rc_a{status::ERR_FATAL};
  std::thread a([&] { stage_me = true; rc_a = delete_storage("orders"); });
  while (!parked) std::this_thread::yield();
  std::atomic<bool> b_done{false};
  std::thread b([&] { delete_storage("orders"); create_storage("orders"); Token tb{}; enter(tb); std::string v2{"v2-out-of-line-value"}; put<char>(tb, "orders", "fresh", v2.data(), v2.size()); leave(tb); b_done = true; });
  for (int i = 0; i < 300 && !b_done; ++i) std::this_thread::sleep_for(std::chrono::milliseconds(1));
  std::printf("B %s while A was parked between lookup and remove\n", b_done ? "ran to completion" : "could not run");
  release_a = true; a.join(); b.join();
  std::printf("A returned %d\n", static_cast<int>(rc_a));
  fin();
  return 0; // LeakSanitizer turns a leak into exit code 1
}
