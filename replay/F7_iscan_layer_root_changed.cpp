#include "kvs.h"
#include <iostream>
#include <set>
using namespace yakushima;
// cursor paused inside layer 1 while the layer-1 root border splits (case A) / the layer-1 interior root collapses (case B)
static int caseA(bool rtl) {
  init(); create_storage("s"); Token t{}; enter(t);
  std::string v{"v"};
  std::set<std::string> present;
  auto P = [&](const std::string& k){ put(t,"s",k,v.data(),v.size()); present.insert(k); };
  P("A");
  for (int i = 0; i < 15; ++i) { std::string k = "PPPPPPPP"; k += char('a'+i); P(k); }
  P("Z");
  std::set<std::string> stable = present;
  iscan_context* ctx{}; void* val{};
  std::vector<std::string> got;
  auto rc = iscan_open("s", "", scan_endpoint::INF, "", scan_endpoint::INF, rtl, false, ctx, val);
  int n = 0;
  while (rc == status::OK) {
    got.push_back(ctx->full_key());
    if (++n == 4) { // A + three keys of the layer (or Z + three)
      std::string k = "PPPPPPPP"; k += rtl ? '0' : 'z'; // 16th key of the layer, beyond/before the cursor: splits the layer-1 root border
      put(t,"s",k,v.data(),v.size());
    }
    rc = iscan_next(ctx, val);
  }
  iscan_close(ctx);
  int bad = 0;
  std::set<std::string> gs(got.begin(), got.end());
  for (auto& k : stable) if (!gs.count(k)) { std::cout << "  caseA rtl=" << rtl << ": stable key skipped: " << k << "\n"; bad++; }
  for (size_t i = 1; i < got.size(); ++i) if (rtl ? !(got[i] < got[i-1]) : !(got[i-1] < got[i])) { std::cout << "  caseA rtl=" << rtl << ": not monotone at " << got[i] << "\n"; bad++; }
  std::cout << "caseA rtl=" << rtl << " delivered=" << got.size() << " stable=" << stable.size() << " rc=" << rc << " bad=" << bad << "\n";
  leave(t); fin();
  return bad;
}

static int caseB() {
  init(); create_storage("s"); Token t{}; enter(t);
  std::string v{"v"};
  std::set<std::string> present;
  auto P = [&](const std::string& k){ put(t,"s",k,v.data(),v.size()); present.insert(k); };
  P("A");
  for (int i = 0; i < 16; ++i) { std::string k = "PPPPPPPP"; k += char('a'+i); P(k); } // layer 1: interior root over two borders
  P("Z");
  iscan_context* ctx{}; void* val{};
  std::vector<std::string> got;
  auto rc = iscan_open("s", "", scan_endpoint::INF, "", scan_endpoint::INF, false, false, ctx, val);
  int n = 0;
  std::set<std::string> stable = present;
  while (rc == status::OK) {
    got.push_back(ctx->full_key());
    if (++n == 4) { // A + a b c delivered; now empty the left border of layer 1 (keys a..i): it is deleted and the interior root collapses
      for (int i = 0; i < 9; ++i) { std::string k = "PPPPPPPP"; k += char('a'+i); if (remove(t,"s",k) == status::OK) stable.erase(k); }
    }
    rc = iscan_next(ctx, val);
  }
  iscan_close(ctx);
  int bad = 0;
  std::set<std::string> gs(got.begin(), got.end());
  for (auto& k : stable) if (!gs.count(k)) { std::cout << "  caseB: stable key skipped: " << k << "\n"; bad++; }
  for (size_t i = 1; i < got.size(); ++i) if (!(got[i-1] < got[i])) { std::cout << "  caseB: not monotone at " << got[i] << "\n"; bad++; }
  std::cout << "caseB delivered=" << got.size() << " stable=" << stable.size() << " rc=" << rc << " bad=" << bad << "\n";
  leave(t); fin();
  return bad;
}
int main(){ int bad = caseA(false); bad += caseA(true); bad += caseB(); return bad ? 1 : 0; }
