"""Optimistic-concurrency typestates shared by C01 / C04 / C10.

validate-after-read (point readers: get, the descents of put / remove, iscan_findfirst):
  F  = get_lv_of on border B with out-version VF          -> new lookup
  S  = load of the slot word (link_or_value::get_value / get_next_layer)
  V  = X := B->get_stable_version()  after the last S
  atoms established on branch edges about X:
       vsplit_eq  (X.get_vsplit() ==/!= <version>.get_vsplit())
       deleted, root (X.get_deleted(), X.get_root())
       vins_eq    (X.get_vinsert_delete() ==/!= VF.get_vinsert_delete())
  valid(X) = vsplit_eq & (not deleted | root) & vins_eq
  A slot value may reach a success exit (return OK / descent into the loaded layer root) only if a V after the
  last S is valid on that path.  R-RV additionally demands, for out-of-line value types, that the path has
  established `value pointer != nullptr` or re-compared the permutation word (removes publish no version change).

writer-revalidates-under-lock (put, remove):
  after B->lock() the same atoms (read from the locked node directly or through a version loaded after the
  lock) must be valid before insert_lv / set_value / delete_of; update and remove re-look the entry up under
  the lock.
"""
from yk.facts import (AnalysisBroken, CALL_KINDS, call_args, call_recv, is_call, root_var, short_loc, term, term_str,
                      vname)
from yk.flow import Explorer
from yk import rules as R

Y = 'yakushima::'
VB = Y + 'node_version64_body::'
BN = Y + 'base_node::'
SLOT_LOADS = {Y + 'link_or_value::get_value': 'value', Y + 'link_or_value::get_next_layer': 'link'}
STABLE = BN + 'get_stable_version'


def version_getter(t):
    """('vsplit'|'vins'|'deleted'|'root', receiver term, locked_direct) for a term that reads a version field."""
    if t[0] != 'call' or not t[1]:
        return None
    m = {VB + 'get_vsplit': 'vsplit', VB + 'get_vinsert_delete': 'vins', VB + 'get_deleted': 'deleted',
         VB + 'get_root': 'root'}
    if t[1] in m:
        return m[t[1]], t[2], False
    d = {BN + 'get_version_vsplit': 'vsplit', BN + 'get_version_vinsert_delete': 'vins',
         BN + 'get_version_deleted': 'deleted', BN + 'get_version_root': 'root'}
    if t[1] in d:
        return d[t[1]], t[2], True
    return None


def atoms_from_branch(f, blk, idx, subject_ok):
    """Atoms an edge establishes: list of (atom, value, subject term, other term)."""
    if not blk.term or 'cond' not in blk.term or len(blk.succ) != 2:
        return []
    t = term(f, blk.term['cond'])
    neg = False
    while t[0] == 'un' and t[1] == '!':
        neg = not neg
        t = t[2]
    truth = (idx == 0) != neg
    out = []
    if t[0] == 'bin' and t[1] in ('==', '!='):
        a, b = version_getter(t[2]), version_getter(t[3])
        if a and b and a[0] == b[0] and a[0] in ('vsplit', 'vins'):
            eq = truth == (t[1] == '==')
            out.append((a[0] + '_eq', eq, a[1], b[1], a[2]))
            out.append((b[0] + '_eq', eq, b[1], a[1], b[2]))
        return out
    g = version_getter(t)
    if g and g[0] in ('deleted', 'root'):
        out.append((g[0], truth, g[1], None, g[2]))
    return out


def valid(atoms):
    d = dict(atoms)
    return d.get('vsplit_eq') is True and d.get('vins_eq') is True and \
        (d.get('deleted') is False or d.get('root') is True)


def missing(atoms):
    d = dict(atoms)
    m = []
    if d.get('vsplit_eq') is not True:
        m.append('vsplit unchanged')
    if d.get('vins_eq') is not True:
        m.append('vinsert_delete unchanged')
    if not (d.get('deleted') is False or d.get('root') is True):
        m.append('not deleted (or still a root)')
    return m


def inline_instantiation(facts, targs):
    """Is `targs` an inline value type? Read off the create_value<kIsInline> call of put<targs>."""
    for p in facts.by_qname(Y + 'put'):
        if p.targs == targs:
            for n in p.all_nodes():
                if is_call(n, cq=Y + 'value::create_value'):
                    tg = facts.get(n.get('callee'))
                    if tg is not None:
                        return tg.targs.strip() == 'true'
                    return 'create_value<true>' in (n.get('callee') or '')
    return None


def point_reader(S, f, rule_var='R-VAR', rule_rv='R-RV', fname=None, check_rv=None, success_status=None,
                 only_plc=False):
    """Run the validate-after-read typestate on one function; records obligations on S."""
    facts = S.facts()
    fname = fname or (f.qname + ('<%s>' % f.targs if f.targs else ''))
    success_status = success_status or {Y + 'status::OK'}
    exits = {}
    descents = {}
    rv_sites = {}
    plc = {}
    nF = [0]

    def vf_valid(vfa):
        d = dict(vfa)
        return d.get('vsplit_eq') is True and (d.get('deleted') is False or d.get('root') is True)

    def plc_site(ctx, n, what, vfa):
        e = plc.setdefault(what, {'ok': True, 'loc': short_loc(n), 'path': None, 'why': ''})
        if not vf_valid(vfa):
            d = dict(vfa)
            miss = []
            if d.get('vsplit_eq') is not True:
                miss.append('vsplit equal to the version of the descent')
            if not (d.get('deleted') is False or d.get('root') is True):
                miss.append('not deleted (or still a root)')
            e['ok'] = False
            e['why'] = 'not established for the version the lookup validated: ' + ', '.join(miss)
            e['path'] = e['path'] or ctx.witness()

    # variables initialised from B.get_permutation().get_body()
    perm_vars = {}
    for n in f.all_nodes():
        if n['k'] == 'DeclStmt':
            for v in n.get('vars', []):
                if 'init' in v:
                    for x in f.walk(v['init']):
                        if is_call(x, cq=Y + 'permutation::get_body'):
                            perm_vars[v['id']] = root_var(f, call_recv(f, x))

    # state: (B, VF, slot, X, atoms, vp, rvok)
    def step(ctx, n, st):
        B, VF, slot, X, atoms, vp, rvok, fs, vfa = st
        r = step0(ctx, n, (B, VF, slot, X, atoms, vp, rvok, fs), vfa)
        if r is None:
            return None
        if len(r) == 9:
            return r
        return r + (vfa,)

    def step0(ctx, n, st, vfa):
        B, VF, slot, X, atoms, vp, rvok, fs = st
        fs = R.track_assign(f, n, fs, facts)
        k = n['k']
        if is_call(n, cq=Y + 'border_node::get_lv_of'):
            a = call_args(f, n)
            nF[0] += 1
            return (root_var(f, call_recv(f, n)), root_var(f, a[2]) if len(a) > 2 else None, None, None,
                    frozenset(), None, False, fs, frozenset())
        if k in CALL_KINDS and n.get('cq') in SLOT_LOADS and VF is not None:
            plc_site(ctx, n, 'slot load at ' + short_loc(n), vfa)
        if k == 'ReturnStmt' and VF is not None and slot is None:
            rc0 = R.ret_const(f, n, fs)
            if rc0 and (rc0.endswith('WARN_NOT_EXIST') or rc0.endswith('OK_NOT_FOUND')):
                plc_site(ctx, n, R.ret_desc(f, n) + ' (miss report)', vfa)
        if is_call(n, cq=Y + 'tree_instance::load_root_ptr') or is_call(n, cq=Y + 'find_border'):
            if is_call(n, cq=Y + 'find_border') and slot == 'link':
                site = 'descent into the loaded next layer'
                e = descents.setdefault(site, {'ok': True, 'loc': short_loc(n), 'path': None, 'why': ''})
                if not (X is not None and valid(atoms)):
                    e['ok'] = False
                    e['path'] = e['path'] or ctx.witness()
                    e['why'] = 'no stable-version re-check after the slot load' if X is None else \
                        'not established on this path: ' + ', '.join(missing(atoms))
            return (None, None, None, None, frozenset(), None, False, fs)
        if k in CALL_KINDS and n.get('cq') in SLOT_LOADS:
            p = f.parent(n)
            var = None
            if p is not None and p['k'] == 'DeclStmt':
                var = p['vars'][0]['id']
            elif p is not None and p['k'] == 'BinaryOperator' and p.get('op') == '=':
                var = root_var(f, f.ch(p)[0])
            kind = SLOT_LOADS[n['cq']]
            return (B, VF, kind, None, frozenset(), var if kind == 'value' else vp, False, fs)
        if is_call(n, cq=STABLE) and B is not None and root_var(f, call_recv(f, n)) == B:
            p = f.parent(n)
            var = None
            if p is not None and p['k'] == 'DeclStmt':
                var = p['vars'][0]['id']
            elif p is not None and p['k'] == 'BinaryOperator' and p.get('op') == '=':
                var = root_var(f, f.ch(p)[0])
            if var is not None:
                return (B, VF, slot, var, frozenset(), vp, rvok, fs)
        if k == 'ReturnStmt':
            rc = R.ret_const(f, n, fs)
            if rc in success_status and slot is not None:
                trail = R.branch_trail(ctx.ex, ctx.key, f, 1)
                site = '%s after [%s]' % (R.ret_desc(f, n), '; '.join(trail))
                e = exits.setdefault(site, {'ok': True, 'loc': short_loc(n), 'path': None, 'why': ''})
                if not (X is not None and valid(atoms)):
                    e['ok'] = False
                    e['path'] = e['path'] or ctx.witness()
                    e['why'] = 'no stable-version re-check after the slot load' if X is None else \
                        'not established on this path: ' + ', '.join(missing(atoms))
                if slot == 'value':
                    r = rv_sites.setdefault(site, {'ok': True, 'loc': short_loc(n), 'path': None})
                    if not rvok:
                        r['ok'] = False
                        r['path'] = r['path'] or ctx.witness()
            return None
        return (B, VF, slot, X, atoms, vp, rvok, fs)

    def branch(ctx, blk, idx, st):
        B, VF, slot, X, atoms, vp, rvok, fs, vfa = st
        r = branch0(ctx, blk, idx, (B, VF, slot, X, atoms, vp, rvok, fs))
        if r is None:
            return None
        if VF is not None:
            d = dict(vfa)
            for (atom, val, subj, other, direct) in atoms_from_branch(f, blk, idx, None):
                if subj == ('var', vname(VF)):
                    d[atom] = val
            vfa = frozenset(d.items())
        return r + (vfa,)

    def branch0(ctx, blk, idx, st):
        B, VF, slot, X, atoms, vp, rvok, fs = st
        fs2 = R.refine(f, blk, idx, fs)
        if fs2 is None:
            return None
        if X is not None:
            d = dict(atoms)
            for (atom, val, subj, other, direct) in atoms_from_branch(f, blk, idx, None):
                if subj == ('var', vname(X)):
                    if atom == 'vins_eq' and other != ('var', vname(VF)):
                        continue  # must be compared with the version get_lv_of validated
                    d[atom] = val
            atoms = frozenset(d.items())
        if blk.term and 'cond' in blk.term and slot == 'value':
            flip, shape = R.cond_shape(f, blk.term['cond'])
            if shape[0] == 'nonnull' and shape[1] == vp:
                if ((idx == 0) != flip):
                    rvok = True
            t = term(f, blk.term['cond'])
            if t[0] == 'bin' and t[1] in ('==', '!='):
                for a, b in ((t[2], t[3]), (t[3], t[2])):
                    if a[0] == 'call' and a[1] == Y + 'permutation::get_body' and b[0] == 'var':
                        pv = [v for v in perm_vars if vname(v) == b[1] and perm_vars[v] == B]
                        if pv and ((idx == 0) == (t[1] == '==')) and X is not None:
                            rvok = True
        return (B, VF, slot, X, atoms, vp, rvok, fs2)

    ex = Explorer(f, step, branch)
    ex.run((None, None, None, None, frozenset(), None, False, frozenset(), frozenset()))
    for site, e in sorted(plc.items()):
        S.ob('R-PLC', fname, site, e['ok'],
             'the version the lookup validated was checked against the descent (vsplit, deleted) before its result is used'
             if e['ok'] else 'the lookup result is used although ' + e['why'], loc=e['loc'], path=e['path'])
    if only_plc:
        return len(plc), 0, 0, nF[0]
    for site, e in sorted(exits.items()):
        S.ob(rule_var, fname, site, e['ok'],
             'the slot value is validated by a stable version loaded after it' if e['ok'] else
             'a slot value reaches a success exit: ' + e['why'], loc=e['loc'], path=e['path'])
    for site, e in sorted(descents.items()):
        S.ob(rule_var, fname, site, e['ok'],
             'the next-layer link is validated before the descent' if e['ok'] else
             'descends into a next-layer root loaded from the slot: ' + e['why'], loc=e['loc'], path=e['path'])
    if check_rv:
        for site, e in sorted(rv_sites.items()):
            S.ob(rule_rv, fname, site, e['ok'],
                 'the value exit is validated against a concurrent remove (null test of the loaded word / '
                 'permutation re-compare)' if e['ok'] else
                 'a value read from the slot is returned after a version-only check: a concurrent remove clears the '
                 'slot without changing the version, so OK can be returned with a null value',
                 loc=e['loc'], path=e['path'])
    S.count('%s: CFG visits' % rule_var, ex.visits)
    return len(exits), len(descents), len(rv_sites), nF[0]


# ---------------------------------------------------------------------------
# writer re-validation under the lock
# ---------------------------------------------------------------------------

MUTATIONS = {Y + 'insert_lv': ('insert', 1), Y + 'link_or_value::set_value': ('update', None),
             Y + 'border_node::delete_of': ('remove', None)}


def writer_revalidate(S, f, rule='R-WUL', fname=None):
    facts = S.facts()
    fname = fname or (f.qname + ('<%s>' % f.targs if f.targs else ''))
    sites = {}
    lv_vars = {}

    def step(ctx, n, st):
        B, VF, locked, X, atoms, relook, fs = st
        fs = R.track_assign(f, n, fs, facts)
        k = n['k']
        if is_call(n, cq=Y + 'border_node::get_lv_of'):
            a = call_args(f, n)
            return (root_var(f, call_recv(f, n)), root_var(f, a[2]) if len(a) > 2 else None, False, None,
                    frozenset(), None, fs)
        if is_call(n, cq=BN + 'lock'):
            return (B, VF, root_var(f, call_recv(f, n)), 'LOCKED', frozenset(), None, fs)
        if is_call(n, cq=BN + 'version_unlock'):
            return (B, VF, False, None, frozenset(), None, fs)
        if is_call(n, cq=BN + 'get_version') and locked and root_var(f, call_recv(f, n)) == locked:
            p = f.parent(n)
            if p is not None and p['k'] == 'DeclStmt':
                return (B, VF, locked, p['vars'][0]['id'], atoms, relook, fs)
        if is_call(n, cq=Y + 'border_node::get_lv_of_without_lock') and locked and \
                root_var(f, call_recv(f, n)) == locked:
            p = f.parent(n)
            var = None
            if p is not None and p['k'] == 'DeclStmt':
                var = p['vars'][0]['id']
            elif p is not None and p['k'] == 'BinaryOperator' and p.get('op') == '=':
                var = root_var(f, f.ch(p)[0])
            return (B, VF, locked, X, atoms, ('pending', var), fs)
        if k in CALL_KINDS and n.get('cq') in MUTATIONS:
            kind, argi = MUTATIONS[n['cq']]
            if kind == 'remove' and len(call_args(f, n)) != 4:
                return st[:6] + (fs,)
            tgt = root_var(f, call_args(f, n)[argi]) if argi is not None else None
            trail = R.branch_trail(ctx.ex, ctx.key, f, 1)
            site = '%s at %s' % (kind, short_loc(n))
            e = sites.setdefault(site, {'ok': True, 'loc': short_loc(n), 'path': None, 'why': '', 'kind': kind})
            why = None
            if not locked:
                why = 'the border is not locked on this path'
            elif not valid(atoms):
                why = 'under the lock, not established on this path: ' + ', '.join(missing(atoms))
            elif kind in ('update', 'remove') and not (relook and relook[0] == 'found'):
                why = 'the entry is not re-looked-up under the lock (removes are not counted in the version)'
            if why:
                e['ok'] = False
                e['why'] = why
                e['path'] = e['path'] or ctx.witness()
            return st[:6] + (fs,)
        if k == 'ReturnStmt':
            return None
        return (B, VF, locked, X, atoms, relook, fs)

    def branch(ctx, blk, idx, st):
        B, VF, locked, X, atoms, relook, fs = st
        fs2 = R.refine(f, blk, idx, fs)
        if fs2 is None:
            return None
        if locked:
            d = dict(atoms)
            for (atom, val, subj, other, direct) in atoms_from_branch(f, blk, idx, None):
                ok_subj = (direct and subj == ('var', vname(locked))) or \
                          (not direct and X not in (None, 'LOCKED') and subj == ('var', vname(X))) or \
                          (direct and subj[0] == 'var' and _alias_of(f, subj[1], locked))
                if ok_subj:
                    if atom == 'vins_eq' and other != ('var', vname(VF)):
                        continue
                    d[atom] = val
            atoms = frozenset(d.items())
            if relook and relook[0] == 'pending' and blk.term and 'cond' in blk.term:
                flip, shape = R.cond_shape(f, blk.term['cond'])
                if shape[0] == 'nonnull' and shape[1] == relook[1]:
                    relook = ('found' if ((idx == 0) != flip) else 'missing', relook[1])
        return (B, VF, locked, X, atoms, relook, fs2)

    ex = Explorer(f, step, branch)
    ex.run((None, None, False, None, frozenset(), None, frozenset()))
    for site, e in sorted(sites.items()):
        S.ob(rule, fname, site, e['ok'],
             'reached only with the border locked and re-validated' if e['ok'] else
             'mutation reached: ' + e['why'], loc=e['loc'], path=e['path'])
    S.count('%s: CFG visits' % rule, ex.visits)
    return sites


def _alias_of(f, name, var_id):
    return vname(var_id) == name
