"""C03 - range scan returns exactly the keys of the requested interval.

Decided (structural, necessary conditions; DESIGN.md section 5 / C03):
  R-INF   an INF endpoint ignores the key passed with it: every use of the contents of an endpoint key K of a
          (string_view K, scan_endpoint E) pair happens with E known != INF or after K was normalised to empty;
          callees that trust a normalised pair shift the obligation to their call sites; the API roots have none
  R-VAL   argument validation precedes every tree access and rejects with ERR_BAD_USAGE
  R-TAB   decision table of check_empty_scan_range == the documented table of kvs.h (finite enumeration)
  R-STG   (shared with C13) name-based overload resolves the storage first
  R-NARROW (checks/keylen.py, shared with C18) endpoint / key lengths are compared at full width, never after an
          unbounded conversion to the 8-bit key_length_type
  R-SLICE (C18, shared) the scan descents slice the left key like get/put and never hand find_border a length above
          the key's own (an 8-byte endpoint must not be routed like the link that sorts after it)
  R-MAX   truncation: after every growth of the result list (a push, or a nested scan that received the list) the test
          `max_size != 0 && list.size() >= max_size` is evaluated before the list can grow again or the visit
          reports OK_SCAN_CONTINUE (a necessary condition of "truncated to the first max_size entries")
"""
from yk.facts import (AnalysisBroken, CALL_KINDS, call_args, call_recv, is_call, root, root_var, short_loc, term,
                      term_str, vname)
from yk.flow import Explorer
from yk import rules as R

INF = 'yakushima::scan_endpoint::INF'
INCL = 'yakushima::scan_endpoint::INCLUSIVE'
EXCL = 'yakushima::scan_endpoint::EXCLUSIVE'
OK = 'yakushima::status::OK'
BAD = 'yakushima::status::ERR_BAD_USAGE'


def is_sv(t):
    return t.replace('const ', '').strip() == 'std::basic_string_view<char>'


def is_ep(t):
    return t.replace('const ', '').strip() == 'yakushima::scan_endpoint'


def pairs_of(f):
    """[(index of K in params, K id, E id)] for adjacent (string_view, scan_endpoint) parameters."""
    out = []
    ps = f.params
    for i in range(len(ps) - 1):
        if is_sv(ps[i]['type']) and is_ep(ps[i + 1]['type']):
            out.append((i, ps[i]['id'], ps[i + 1]['id']))
    return out


def excludes_inf(fs, e):
    v = R.facts_get(fs, e)
    if v is None:
        return False
    if v.startswith('in:'):
        return INF not in v[3:].split('|')
    if v.startswith('!'):
        return INF in v[1:].split('|')
    return False


def is_empty_sv(f, n):
    """Is the expression an empty string_view (\"\" or string_view{})?"""
    has_ref = False
    empty_lit = False
    empty_ctor = False
    for x in f.walk(n):
        if x['k'] == 'DeclRefExpr' and x.get('dk') in ('var', 'parm', 'global'):
            has_ref = True
        if x['k'] == 'StringLiteral' and x.get('val') == '':
            empty_lit = True
        if x['k'] in ('CXXConstructExpr', 'CXXTemporaryObjectExpr') and x.get('ctor') == 'std::basic_string_view' \
                and not x.get('args'):
            empty_ctor = True
    return (not has_ref) and (empty_lit or empty_ctor)


class PairAnalysis:
    """Computes, per function with (K,E) pairs, the uses of K that are not guarded by E != INF."""

    def __init__(self, S, facts):
        self.S = S
        self.facts = facts
        self.req = {}      # fid -> {pair index: [use dict]}
        self.local_sites = {}
        self.visits = 0

    def family(self):
        fam = []
        for f in self.facts.functions.values():
            if f.is_lambda:
                continue
            if pairs_of(f) and (f.file in ('interface_scan.h', 'scan_helper.h')):
                fam.append(f)
        return fam

    def fixpoint(self):
        fam = self.family()
        for f in fam:
            self.req[f.fid] = {}
        for _ in range(6):
            changed = False
            for f in fam:
                r = self.analyse(f)
                if {k: len(v) for k, v in r.items()} != {k: len(v) for k, v in self.req[f.fid].items()}:
                    changed = True
                self.req[f.fid] = r
            if not changed:
                break
        return fam

    def analyse(self, f):
        facts = self.facts
        for key in [k for k in self.local_sites if k[0] == f.fid]:
            del self.local_sites[key]
        prs = pairs_of(f)
        kset = {}   # var id -> pair index (K params and their init-aliases)
        eof = {}    # pair index -> E id
        for (i, k, e) in prs:
            kset[k] = i
            eof[i] = e
        # aliases: string_view locals initialised as a copy of K (or of an alias)
        changed = True
        alias_decl = {}
        while changed:
            changed = False
            for n in f.all_nodes():
                if n['k'] == 'DeclStmt':
                    for v in n.get('vars', []):
                        if is_sv(v['type']) and 'init' in v and v['id'] not in kset:
                            src = f.strip(v['init'], casts=True)
                            if src is not None and src['k'] == 'DeclRefExpr' and src.get('id') in kset:
                                kset[v['id']] = kset[src['id']]
                                alias_decl[v['id']] = src['id']
                                changed = True
        # blocks that are the true-successor of a `K.data() == nullptr` test (null-data prohibition)
        nd_true_succ = set()
        for b, blk in f.blocks.items():
            if blk.term and len(blk.succ) == 2 and 'cond' in blk.term:
                t = term(f, blk.term['cond'])
                if t[0] == 'bin' and t[1] == '==' and t[3] == ('null',) and t[2][0] == 'call' and \
                        (t[2][1] or '').endswith('basic_string_view<char>::data'):
                    if blk.succ[0] is not None:
                        nd_true_succ.add((blk.succ[0], t[2][2]))
        uses = {}
        pos = f.positions()

        def classify(n, ctx_block):
            """How the DeclRefExpr n (to a K / alias) is used: returns (kind, payload)."""
            p = f.parent(n)
            if p is None:
                return ('use', 'bare reference')
            if p['k'] == 'DeclStmt':
                return ('alias', None)
            if p['k'] == 'CXXOperatorCallExpr' and p.get('cn') == 'operator=':
                a0 = f.strip(f.node(p['args'][0]), casts=True)
                if a0 is n:
                    return ('assign', p)
                return ('copy', p)
            if p['k'] in CALL_KINDS and p.get('cq', '').startswith('yakushima::') and \
                    p['k'] != 'CXXMemberCallExpr':
                args = [f.strip(f.node(a), casts=True) for a in p.get('args', [])]
                for j, a in enumerate(args):
                    if a is n and j + 1 < len(args):
                        e = args[j + 1]
                        if e is not None and e['k'] == 'DeclRefExpr' and is_ep(e.get('ty', '')):
                            return ('pairpass', (p, j, e['id']))
                return ('use', 'passed to %s without its endpoint' % p.get('cq'))
            if p['k'] == 'CXXMemberCallExpr' and (p.get('mcls') == 'std::basic_string_view'):
                cn = p.get('cn')
                if cn == 'data':
                    pp = f.parent(p)
                    if pp is not None and pp['k'] == 'BinaryOperator' and pp.get('op') in ('==', '!='):
                        other = [c for c in f.ch(pp) if f.strip(c, casts=True) is not p]
                        if other and R.const_of(f, other[0]) == 'null':
                            return ('exempt', 'null-data prohibition')
                if cn in ('empty', 'size', 'length'):
                    me = term(f, n)
                    if any(b == ctx_block and t == me for (b, t) in nd_true_succ):
                        return ('exempt', 'null-data prohibition')
                return ('use', 'K.%s()' % cn)
            return ('use', p['k'] + (' ' + p.get('cq', '') if p.get('cq') else ''))

        eparams = set(eof.values())

        def step(ctx, n, st):
            fs, norm, cp = st
            r = step0(ctx, n, (fs, norm), cp)
            return r

        def step0(ctx, n, st, cp):
            fs, norm = st
            fs = R.track_assign(f, n, fs, facts, tracked_types=(is_ep,))
            k = n['k']
            if k == 'BinaryOperator' and n.get('op') == '=':
                c = f.ch(n)
                lhs, rhs = f.strip(c[0]), f.strip(c[1], casts=True)
                if lhs is not None and lhs['k'] == 'DeclRefExpr' and is_ep(lhs.get('ty', '')):
                    cp = frozenset(x for x in cp if x[0] != lhs['id'])
                    if rhs is not None and rhs['k'] == 'DeclRefExpr' and is_ep(rhs.get('ty', '')):
                        fs = R.facts_set(fs, lhs['id'], R.facts_get(fs, rhs['id']))
                        src = rhs['id'] if rhs['id'] in eparams else next((y for (x, y) in cp if x == rhs['id']), None)
                        if src:
                            cp = cp | {(lhs['id'], src)}
                return (fs, norm, cp)
            if k == 'DeclStmt':
                for v in n.get('vars', []):
                    if is_ep(v['type']):
                        cp = frozenset(x for x in cp if x[0] != v['id'])
                        if 'init' in v:
                            rhs = f.strip(v['init'], casts=True)
                            if rhs is not None and rhs['k'] == 'DeclRefExpr' and is_ep(rhs.get('ty', '')):
                                fs = R.facts_set(fs, v['id'], R.facts_get(fs, rhs['id']))
                                src = rhs['id'] if rhs['id'] in eparams else next((y for (x, y) in cp if x == rhs['id']), None)
                                if src:
                                    cp = cp | {(v['id'], src)}
                for v in n.get('vars', []):
                    if v['id'] in alias_decl:
                        if alias_decl[v['id']] in norm:
                            norm = norm | {v['id']}
                        else:
                            norm = norm - {v['id']}
                    elif is_sv(v['type']):
                        if 'init' not in v or is_empty_sv(f, v['init']):
                            norm = norm | {v['id']}
                        else:
                            norm = norm - {v['id']}
                return (fs, norm, cp)
            if k == 'CXXOperatorCallExpr' and n.get('cn') == 'operator=' and n.get('mcls') == 'std::basic_string_view':
                a = [f.node(x) for x in n['args']]
                lhs = f.strip(a[0], casts=True)
                if lhs is not None and lhs['k'] == 'DeclRefExpr':
                    src = f.strip(a[1], casts=True)
                    if is_empty_sv(f, a[1]):
                        norm = norm | {lhs['id']}
                    elif src is not None and src['k'] == 'DeclRefExpr' and src.get('id') in norm:
                        norm = norm | {lhs['id']}
                    else:
                        norm = norm - {lhs['id']}
                return (fs, norm, cp)
            if k == 'CXXMemberCallExpr' and n.get('cn') in ('remove_prefix', 'remove_suffix', 'swap'):
                return (fs, norm, cp)  # shrinking an empty view keeps it empty; non-empty handled by use rule
            if k == 'DeclRefExpr' and n.get('id') in kset:
                i = kset[n['id']]
                e = eof[i]
                safe = excludes_inf(fs, e) or (n['id'] in norm)
                kind, payload = classify(n, ctx.block)
                if kind in ('alias', 'assign', 'exempt'):
                    return (fs, norm, cp)
                if kind == 'pairpass':
                    call, j, e2 = payload
                    # find callee pair index
                    tg = facts.get(call.get('callee'))
                    creq = self.req.get(call.get('callee'), {}) if tg is not None else {}
                    cpairs = {pi for (pi, _, _) in pairs_of(tg)} if tg is not None else set()
                    if tg is None or j not in cpairs:
                        kind, payload = 'use', 'passed to %s (not a key/endpoint pair there)' % call.get('cq')
                    else:
                        if creq.get(j):
                            ok = excludes_inf(fs, e2) or (n['id'] in norm)
                            if not ok and (e2 == e or (e2, e) in cp):
                                # the requirement propagates to our own callers
                                uses.setdefault(i, {}).setdefault(
                                    'passes %s to %s which requires a normalised pair' % (n['name'], call.get('cq')),
                                    {'loc': short_loc(n), 'path': ctx.witness(), 'var': n['name']})
                            elif not ok:
                                # the endpoint is not the caller's: it was set locally and may be INF while the
                                # key still has content - nothing a caller could normalise
                                site = 'call %s pair #%d (%s, %s)' % (call.get('cq'), j, n['name'], vname(e2))
                                ent = self.local_sites.setdefault((f.fid, site),
                                                                  {'ok': True, 'loc': short_loc(n), 'path': None})
                                ent['ok'] = False
                                ent['path'] = ent['path'] or ctx.witness()
                            else:
                                site = 'call %s pair #%d (%s, %s)' % (call.get('cq'), j, n['name'], vname(e2))
                                self.local_sites.setdefault((f.fid, site),
                                                            {'ok': True, 'loc': short_loc(n), 'path': None})
                        return (fs, norm, cp)
                if kind == 'copy':
                    return (fs, norm, cp)  # value flows into another view; handled at that view's call sites
                if not safe:
                    uses.setdefault(i, {}).setdefault(
                        '%s of %s' % (payload, n['name']),
                        {'loc': short_loc(n), 'path': ctx.witness(), 'var': n['name']})
                return (fs, norm, cp)
            # local (K', E') pairs passed to a trusting callee
            if k in CALL_KINDS and (n.get('cq') or '').startswith('yakushima::') and k != 'CXXMemberCallExpr':
                tg = facts.get(n.get('callee'))
                if tg is not None:
                    creq = self.req.get(tg.fid, {})
                    args = [f.strip(f.node(a), casts=True) for a in n.get('args', [])]
                    for (pi, _, _) in pairs_of(tg):
                        if not creq.get(pi) or pi + 1 >= len(args):
                            continue
                        a, e = args[pi], args[pi + 1]
                        if a is None or e is None:
                            continue
                        if a['k'] == 'DeclRefExpr' and a.get('id') in kset:
                            continue  # handled at the DeclRefExpr above
                        ok = False
                        if is_empty_sv(f, a):
                            ok = True
                        elif a['k'] == 'DeclRefExpr' and a.get('id') in norm:
                            ok = True
                        elif e['k'] == 'DeclRefExpr' and excludes_inf(fs, e.get('id')):
                            ok = True
                        elif R.const_of(f, e) in (INCL, EXCL):
                            ok = True
                        site = 'call %s pair #%d' % (n.get('cq'), pi)
                        ent = self.local_sites.setdefault((f.fid, site), {'ok': True, 'loc': short_loc(n), 'path': None})
                        if not ok:
                            ent['ok'] = False
                            ent['path'] = ent['path'] or ctx.witness()
            return (fs, norm, cp)

        def branch(ctx, blk, idx, st):
            fs2 = R.refine(f, blk, idx, st[0], tracked=is_ep)
            return None if fs2 is None else (fs2, st[1], st[2])

        ex = Explorer(f, step, branch)
        ex.run((frozenset(), frozenset(), frozenset()))
        self.visits += ex.visits
        return {i: list(u.items()) for i, u in uses.items()}


def rule_inf(S):
    facts = S.facts()
    S.rule('R-INF', 'scan family: every use of the contents of an endpoint key K of a (K, E) parameter pair is reached '
                    'only with E != INF established on the path, or after K was normalised to empty, or passes K '
                    'together with E to a callee that obeys the rule; callees that trust a normalised pair are '
                    'checked at their call sites; the public scan overloads trust nothing')
    pa = PairAnalysis(S, facts)
    fam = pa.fixpoint()
    S.require('R-INF', 'functions with (key, endpoint) pairs in the scan family', len(fam), 8)
    roots = 0
    for f in fam:
        is_root = f.qname == 'yakushima::scan' and f.file == 'interface_scan.h'
        fname = f.qname + ('<%s>' % f.targs if f.targs else '')
        for (i, k, e) in pairs_of(f):
            us = pa.req[f.fid].get(i, [])
            if is_root:
                roots += 1
                if not us:
                    S.ob('R-INF', fname, 'pair (%s, %s)' % (vname(k), vname(e)), True,
                         'no use of %s is reachable with %s == INF and the key not normalised' % (vname(k), vname(e)),
                         loc=f.loc)
                for what, d in us:
                    S.ob('R-INF', fname, 'pair (%s, %s): %s' % (vname(k), vname(e), what), False,
                         'the key passed with an INF endpoint is used: %s' % what, loc=d['loc'], path=d['path'])
            else:
                S.ob('R-INF', fname, 'pair (%s, %s)' % (vname(k), vname(e)), True,
                     ('trusts a normalised pair (%d unguarded uses): obligation shifted to its call sites' % len(us))
                     if us else 'guards every use of the key by its endpoint', loc=f.loc)
    for (fid, site), ent in sorted(pa.local_sites.items()):
        g = facts.get(fid)
        fname = g.qname + ('<%s>' % g.targs if g.targs else '')
        S.ob('R-INF', fname, site, ent['ok'],
             'pair passed to a trusting callee is %snormalised / bounded on every path' % ('' if ent['ok'] else 'NOT '),
             loc=ent['loc'], path=ent['path'])
    S.require('R-INF', 'pairs of the public scan overloads', roots, 4)
    S.count('R-INF: CFG visits', pa.visits)


# ---------------------------------------------------------------------------
# R-VAL
# ---------------------------------------------------------------------------

TREE_ACCESS = {'yakushima::tree_instance::load_root_ptr', 'yakushima::find_border', 'yakushima::scan_border',
               'yakushima::storage::find_storage', 'yakushima::iscan_findfirst', 'yakushima::iscan_findnext'}


def validate_function(S, f, fname, rule='R-VAL', need_rtl=True, prop_note=''):
    """Argument validation typestate shared by scan (C03) and iscan_open (C10)."""
    facts = S.facts()
    prs = pairs_of(f)
    if len(prs) != 2:
        raise AnalysisBroken('%s: %s does not take two (key, endpoint) pairs' % (rule, fname))
    (_, lk, le), (_, rk, re_) = prs
    bools = [p['id'] for p in f.params if p['type'].replace('const ', '') == 'bool']
    rtl = [p['id'] for p in f.params if p['name'] == 'right_to_left'] or (bools if len(bools) == 1 else [])
    accesses = {}
    rejects = {}

    # state: (fs, seen: frozenset of check names, bad: frozenset of reasons, nd: frozenset of keys whose data()==nullptr is known)
    def step(ctx, n, st):
        fs, seen, bad, nd = st
        fs = R.track_assign(f, n, fs, facts)
        if is_call(n, cq='yakushima::check_empty_scan_range'):
            a = [root_var(f, x) for x in call_args(f, n)]
            if a == [lk, le, rk, re_]:
                seen = seen | {'range'}
            else:
                seen = seen | {'range-misordered'}
            return (fs, seen, bad, nd)
        if n['k'] in CALL_KINDS and n.get('cq') in TREE_ACCESS or \
                (n['k'] in CALL_KINDS and n.get('cq') == f.qname and n.get('callee') != f.fid):
            site = 'first tree access ' + (n.get('cq') or '').replace('yakushima::', '')
            e = accesses.setdefault(site, {'ok': True, 'loc': short_loc(n), 'path': None, 'why': ''})
            missing = [c for c in ('range', 'nd:' + vname(lk), 'nd:' + vname(rk)) if c not in seen]
            if bad or missing:
                e['ok'] = False
                e['path'] = e['path'] or ctx.witness()
                e['why'] = ('reached although a rejecting condition holds: %s' % ', '.join(sorted(bad))) if bad else \
                    ('reached without evaluating: %s' % ', '.join(missing))
            return None  # only the first access on a path matters
        if n['k'] == 'ReturnStmt' and bad:
            rc = R.ret_const(f, n, fs)
            site = 'reject [%s]' % ', '.join(sorted(bad))
            e = rejects.setdefault(site, {'ok': True, 'loc': short_loc(n), 'path': None})
            if rc != BAD:
                e['ok'] = False
                e['path'] = e['path'] or ctx.witness()
                e['rc'] = rc
            return None
        return (fs, seen, bad, nd)

    def branch(ctx, blk, idx, st):
        fs, seen, bad, nd = st
        fs2 = R.refine(f, blk, idx, fs)
        if fs2 is None:
            return None
        t = term(f, blk.term['cond']) if blk.term and 'cond' in blk.term else None
        if t is not None:
            # K.data() == nullptr
            if t[0] == 'bin' and t[1] in ('==', '!=') and t[3] == ('null',) and t[2][0] == 'call' and \
                    (t[2][1] or '').endswith('::data') and t[2][2] and t[2][2][0] == 'var':
                kname = t[2][2][1]
                seen = seen | {'nd:' + kname}
                is_null = (idx == 0) == (t[1] == '==')
                nd = (nd | {kname}) if is_null else (nd - {kname})
            # !K.empty()  /  K.empty()
            neg = False
            u = t
            while u[0] == 'un' and u[1] == '!':
                neg = not neg
                u = u[2]
            if u[0] == 'call' and (u[1] or '').endswith('basic_string_view<char>::empty') and u[2] and u[2][0] == 'var':
                kname = u[2][1]
                empty = (idx == 0) != neg
                if kname in nd and not empty:
                    bad = bad | {'null data with non-zero size (%s)' % kname}
            # range check result
            v = R.facts_get(fs2, _range_rc(f)) if _range_rc(f) else None
            # right_to_left restriction
            if rtl and R.facts_get(fs2, rtl[0]) == 'T':
                if t[0] == 'bin' and t[1] == '!=' and t[2] == ('var', 'max_size') and t[3] == ('const', 1) and idx == 0:
                    bad = bad | {'right_to_left with max_size != 1'}
                if t[0] == 'bin' and t[1] == '==' and t[2] == ('var', 'max_size') and t[3] == ('const', 1) and idx == 1:
                    bad = bad | {'right_to_left with max_size != 1'}
                if excludes_inf(fs2, re_):
                    bad = bad | {'right_to_left with bounded right endpoint'}
        rcv = _range_rc(f)
        if rcv:
            v = R.facts_get(fs2, rcv)
            if v and v.startswith('in:') and OK not in v[3:].split('|'):
                bad = bad | {'check_empty_scan_range != OK'}
        return (fs2, seen, bad, nd)

    ex = Explorer(f, step, branch)
    ex.run((frozenset(), frozenset(), frozenset(), frozenset()))
    if not accesses:
        raise AnalysisBroken('%s: no tree access found in %s' % (rule, fname))
    for site, e in sorted(accesses.items()):
        S.ob(rule, fname, site, e['ok'], 'validated before access' if e['ok'] else e['why'], loc=e['loc'], path=e['path'])
    want = ['check_empty_scan_range != OK', 'null data with non-zero size (%s)' % vname(lk),
            'null data with non-zero size (%s)' % vname(rk)]
    if need_rtl:
        want += ['right_to_left with max_size != 1', 'right_to_left with bounded right endpoint']
    for w in want:
        hits = [(s, e) for s, e in rejects.items() if w in s]
        if not hits:
            S.ob(rule, fname, 'reject ' + w, False,
                 'no path rejects `%s` (the test is missing or does not lead to a return)' % w, loc=f.loc)
        else:
            ok = all(e['ok'] for _, e in hits)
            bad_e = [e for _, e in hits if not e['ok']]
            S.ob(rule, fname, 'reject ' + w, ok,
                 'returns ERR_BAD_USAGE' if ok else 'a rejecting path returns %s instead of ERR_BAD_USAGE' %
                 (bad_e[0].get('rc')), loc=hits[0][1]['loc'], path=bad_e[0]['path'] if bad_e else None)
    return ex.visits


_RC_MEMO = {}


def _range_rc(f):
    """The local that receives the result of check_empty_scan_range (if any)."""
    if '_range_rc' in f.__dict__:
        return f.__dict__['_range_rc']
    res = None
    for n in f.all_nodes():
        if n['k'] == 'DeclStmt':
            for v in n.get('vars', []):
                if 'init' in v:
                    i = f.strip(v['init'], casts=True)
                    if i is not None and is_call(i, cq='yakushima::check_empty_scan_range'):
                        res = v['id']
    f.__dict__['_range_rc'] = res
    return res


def rule_val(S):
    facts = S.facts()
    S.rule('R-VAL', 'scan<V>(tree_instance*,...): every path to the first tree access has evaluated the null-data '
                    'tests of both keys and check_empty_scan_range(l_key,l_end,r_key,r_end) in declaration order; once '
                    'a rejecting condition holds (null data with size, range check != OK, right_to_left with '
                    'max_size != 1 or bounded right end) no tree access follows and the return is ERR_BAD_USAGE')
    fns = facts.some('yakushima::scan', lambda f: f.params and f.params[0]['type'] == 'yakushima::tree_instance *')
    for f in fns:
        S.count('R-VAL: CFG visits', validate_function(S, f, 'yakushima::scan<%s>' % f.targs))


# ---------------------------------------------------------------------------
# R-TAB: decision table of check_empty_scan_range
# ---------------------------------------------------------------------------

def rule_tab(S):
    facts = S.facts()
    S.rule('R-TAB', 'check_empty_scan_range evaluated over the finite abstraction {INF,INCL,EXCL}^2 x sign(l_key vs '
                    'r_key) x r_key.empty() (45 consistent rows) returns ERR_BAD_USAGE exactly for the invalid ranges '
                    'documented in kvs.h and OK otherwise')
    f = facts.one('yakushima::check_empty_scan_range')
    (_, lk, le), (_, rk, re_) = pairs_of(f)

    def spec(l, r, rel, rempty):
        if r == EXCL and rempty:
            return BAD
        if l != INF and r != INF:
            if rel == 'gt':
                return BAD
            if rel == 'eq' and (l == EXCL or r == EXCL):
                return BAD
        return OK

    rows = 0
    badrows = []
    for l in (INF, INCL, EXCL):
        for r in (INF, INCL, EXCL):
            for rel in ('lt', 'eq', 'gt'):
                for rempty in (True, False):
                    if rempty and rel == 'lt':
                        continue  # nothing sorts before the empty key
                    rows += 1
                    got = interp_range(f, lk, le, rk, re_, l, r, rel, rempty)
                    if got != spec(l, r, rel, rempty):
                        badrows.append((l, r, rel, rempty, got, spec(l, r, rel, rempty)))
    S.count('R-TAB: rows', rows)
    S.ob('R-TAB', f.qname, 'decision table (%d rows)' % rows, not badrows,
         'agrees with the documented table' if not badrows else
         'disagrees on %d rows, e.g. l_end=%s r_end=%s l_key %s r_key r_key.empty=%s: returns %s, documented %s' %
         ((len(badrows),) + tuple(str(x).replace('yakushima::', '') for x in badrows[0])), loc=f.loc,
         detail=[[str(x).replace('yakushima::', '') for x in b] for b in badrows[:10]] or None)


def interp_range(f, lk, le, rk, re_, l, r, rel, rempty):
    """Abstractly execute check_empty_scan_range on one abstract input; returns the enum constant returned."""
    env = {le: l, re_: r}
    sign = {'lt': -1, 'eq': 0, 'gt': 1}[rel]
    lempty = rempty and rel == 'eq'
    ints = {}

    def ev(n):
        n = f.strip(n, casts=True)
        k = n['k']
        if k == 'DeclRefExpr':
            if n.get('dk') == 'enum':
                return n['id']
            if n['id'] in env:
                return env[n['id']]
            if n['id'] in ints:
                return ints[n['id']]
            raise AnalysisBroken('R-TAB: unmodelled variable %s' % n['name'])
        if k in ('IntegerLiteral', 'CXXBoolLiteralExpr'):
            return int(n['val'])
        if k == 'BinaryOperator':
            a, b = f.ch(n)
            op = n['op']
            if op == '&&':
                return ev(a) and ev(b)
            if op == '||':
                return ev(a) or ev(b)
            x, y = ev(a), ev(b)
            return {'==': x == y, '!=': x != y, '<': x < y, '>': x > y, '<=': x <= y, '>=': x >= y}[op]
        if k == 'UnaryOperator' and n['op'] == '!':
            return not ev(f.ch(n)[0])
        if k == 'UnaryOperator' and n['op'] == '-':
            return -ev(f.ch(n)[0])
        if k == 'CXXMemberCallExpr' and n.get('mcls') == 'std::basic_string_view':
            rv = root_var(f, call_recv(f, n))
            if n['cn'] == 'empty':
                return rempty if rv == rk else lempty
            if n['cn'] == 'compare':
                a = root_var(f, call_args(f, n)[0])
                if rv == lk and a == rk:
                    return sign
                if rv == rk and a == lk:
                    return -sign
        if k == 'CXXOperatorCallExpr' and n.get('cn') in ('operator==', 'operator!=', 'operator<', 'operator>',
                                                          'operator<=', 'operator>='):
            a = [root_var(f, x) for x in n['args']]
            s = sign if a == [lk, rk] else (-sign if a == [rk, lk] else None)
            if s is not None:
                return {'operator==': s == 0, 'operator!=': s != 0, 'operator<': s < 0, 'operator>': s > 0,
                        'operator<=': s <= 0, 'operator>=': s >= 0}[n['cn']]
        if k == 'ConditionalOperator':
            c, a, b = f.ch(n)
            return ev(a) if ev(c) else ev(b)
        if 'cv' in n:
            return int(n['cv'])
        raise AnalysisBroken('R-TAB: unmodelled expression %s at %s in check_empty_scan_range' % (k, n.get('loc')))

    b = f.entry
    steps = 0
    while True:
        steps += 1
        if steps > 500:
            raise AnalysisBroken('R-TAB: check_empty_scan_range does not terminate abstractly')
        blk = f.blocks[b]
        for e in blk.elems:
            n = f.node(e)
            if n['k'] == 'ReturnStmt':
                return ev(f.ch(n)[0])
            if n['k'] == 'DeclStmt':
                for v in n.get('vars', []):
                    if 'init' in v and v['type'] in ('int', 'const int', 'bool', 'const bool'):
                        ints[v['id']] = ev(v['init'])
        if b == f.exit or not blk.succ:
            raise AnalysisBroken('R-TAB: fell off check_empty_scan_range')
        if len(blk.succ) == 1:
            b = blk.succ[0]
        else:
            if blk.term.get('k') == 'ConditionalOperator' or 'cond' in blk.term:
                c = ev(blk.term['cond'])
                b = blk.succ[0] if c else blk.succ[1]
            else:
                raise AnalysisBroken('R-TAB: unmodelled terminator')
        if b is None:
            raise AnalysisBroken('R-TAB: pruned edge taken')


# ---------------------------------------------------------------------------
# R-FLT: the endpoint filter of a value entry, as a decision table
# ---------------------------------------------------------------------------

def rule_flt(S):
    facts = S.facts()
    S.rule('R-FLT', 'scan_border<V>, entry that fits its slice (the value path): abstract execution from the definition of '
                    'the pushing closure to its call (deliver), the loop latch (skip) or `return OK_SCAN_END` (the range '
                    'ended), over every combination of {INF, INCLUSIVE, EXCLUSIVE}^2 x sign of the left slice comparison x '
                    'l_key.size() vs the entry length x sign of the right key comparison x r_key.size() vs the entry\'s key '
                    'size (the consistent rows; an INF left endpoint comes with an empty key): the outcome equals the bytewise-lexicographic reference (zero-padded '
                    'slices equal: the shorter key sorts first): left: deliver iff key > l (EXCLUSIVE) / key >= l '
                    '(INCLUSIVE); right: deliver iff key < r / key <= r, end otherwise')
    from yk.flow import dominators
    agg = {}
    for f in sorted([g for g in facts.by_qname('yakushima::scan_border') if not g.is_lambda], key=lambda x: x.fid):
        prs = pairs_of(f)
        if len(prs) != 2:
            raise AnalysisBroken('R-FLT: scan_border does not take two (key, endpoint) pairs')
        (_, lk, le), (_, rk, re_) = prs
        res = [p['id'] for p in f.params if 'std::vector<std::tuple<' in p['type']]
        if len(res) != 1:
            raise AnalysisBroken('R-FLT: result list of scan_border not identified')
        res = res[0]
        # the pushing closure and the block that defines it
        push_lams = set()
        for g in facts.lambdas_of(f):
            if any(n['k'] in CALL_KINDS and n.get('cn') in ('emplace_back', 'push_back') and
                   root_var(g, call_recv(g, n)) == res for n in g.all_nodes()):
                push_lams.add(g.fid)
        start = None
        for b, blk in f.blocks.items():
            for e in blk.elems:
                n = f.node(e)
                if n['k'] == 'DeclStmt' and any('init' in v and any(x['k'] == 'LambdaExpr' and x.get('lambda') in push_lams
                                                                    for x in f.walk(v['init'])) for v in n.get('vars', [])):
                    start = (b, blk.elems.index(e))
        if start is None:
            raise AnalysisBroken('R-FLT: the closure that pushes a value entry was not found in scan_border')
        # the loop over the ranks: the innermost natural loop around the start block; its header = next entry
        dom = dominators(f)
        preds = f.preds()
        heads = []
        for u in dom:
            for h in f.blocks[u].succ:
                if h is not None and h in dom.get(u, ()):
                    body = {h, u}
                    work = [u] if u != h else []
                    while work:
                        x = work.pop()
                        for (pb, _) in preds.get(x, []):
                            if pb not in body and pb in dom:
                                body.add(pb)
                                work.append(pb)
                    if start[0] in body:
                        heads.append((len(body), h, body))
        if not heads:
            raise AnalysisBroken('R-FLT: the value path of scan_border is not inside a loop')
        _, header, body = min(heads)
        # slices built from an endpoint key (memcpy(&v, K.data(), ..)): flow-insensitive taint
        taint = {}
        for n in f.all_nodes():
            if is_call(n, cq='memcpy'):
                a = call_args(f, n)
                srcs = {x.get('id') for x in f.walk(a[1]) if x['k'] == 'DeclRefExpr'} if len(a) > 1 else set()
                src = lk if lk in srcs else (rk if rk in srcs else None)
                if src is not None:
                    tv = root_var(f, a[0])
                    if tv:
                        taint[tv] = 'L' if src == lk else 'R'
        bad = []
        rows = 0
        for l in (INF, INCL, EXCL):
            for r in (INF, INCL, EXCL):
                for lc in (-1, 0, 1):
                    for lsz in (3, 4, 5):
                        for rc in (-1, 0, 1):
                            for rsz in (3, 4, 5):
                                if l == INF and (lc > 0 or lsz != 3):
                                    continue    # an INF left endpoint comes with an empty key (normalised pair, R-INF)
                                keep_l = l == INF or lc < 0 or (lc == 0 and (lsz < 4 or (lsz == 4 and l == INCL)))
                                right = 'keep' if (r == INF or rc > 0 or
                                                   (rc == 0 and (rsz > 4 or (rsz == 4 and r == INCL)))) else 'end'
                                if not keep_l and right == 'end':
                                    continue        # key < l and key > r: no such key for l <= r
                                want = 'skip' if not keep_l else right
                                rows += 1
                                got = _interp_filter(facts, f, start, header, body, push_lams,
                                                     {le: l, re_: r}, lk, rk, res, taint, lc, lsz, rc, rsz)
                                if got != want:
                                    bad.append((l, r, lc, lsz, rc, rsz, got, want))
        key = 'yakushima::scan_border [every instantiation]'
        e = agg.setdefault(key, {'rows': rows, 'bad': bad, 'loc': f.loc})
        if bad and not e['bad']:
            e['bad'] = bad
    for key, e in sorted(agg.items()):
        b0 = e['bad'][0] if e['bad'] else None
        S.ob('R-FLT', key, 'endpoint filter of a value entry (%d rows)' % e['rows'], not e['bad'],
             'agrees with the reference order on every row' if not e['bad'] else
             'disagrees on %d rows, e.g. l_end=%s r_end=%s: left slice comparison %+d with l_key.size() %s the entry '
             'length, right comparison %+d with r_key.size() %s the key size: the entry is %s, the reference says %s' % (
                 len(e['bad']), str(b0[0]).split('::')[-1], str(b0[1]).split('::')[-1], b0[2],
                 {3: '<', 4: '==', 5: '>'}[b0[3]], b0[4], {3: '<', 4: '==', 5: '>'}[b0[5]],
                 {'keep': 'delivered', 'skip': 'skipped', 'end': 'taken as the end of the range'}.get(b0[6], b0[6]),
                 {'keep': 'deliver', 'skip': 'skip', 'end': 'end of the range'}[b0[7]]), loc=e['loc'],
             detail=[str(x) for x in e['bad'][:8]] or None)
    S.require('R-FLT', 'scan_border instantiations evaluated', len(agg), 1)


def _interp_filter(facts, f, start, header, body, push_lams, enums, lk, rk, res, taint, lc, lsz, rc, rsz):
    """Abstractly execute the value path for one abstract entry; 'keep' | 'skip' | 'end' | other."""
    env = dict(enums)
    K = 4       # entry length / size of the entry's full key (the sizes 3, 4, 5 stand for <, ==, > it)

    class Unknown(Exception):
        pass

    def side_of(n):
        for x in f.walk(n):
            if x['k'] == 'DeclRefExpr':
                if x.get('id') == lk or taint.get(x.get('id')) == 'L':
                    return 'L'
                if x.get('id') == rk or taint.get(x.get('id')) == 'R':
                    return 'R'
        return None

    def ev(n):
        n = f.strip(n, casts=True)
        if n is None:
            raise Unknown()
        k = n['k']
        if 'cv' in n and k != 'DeclRefExpr':
            return int(n['cv'])
        if k == 'DeclRefExpr':
            if n.get('dk') == 'enum':
                return n['id']
            if n['id'] in env:
                v = env[n['id']]
                if isinstance(v, Unknown):
                    raise Unknown()
                return v
            ty = (n.get('ty') or '').replace('const ', '')
            if ty == 'bool':
                return 0                      # direction flag / "pushed" flag: forward scan, nothing pushed
            if ty in ('unsigned char',):
                return K                      # the entry's key length
            if ty in ('unsigned long', 'std::size_t') and n.get('dk') == 'parm':
                return 0                      # max_size: unlimited
            t2 = ty.rstrip()
            if t2.endswith('const'):
                t2 = t2[:-5].rstrip()
            if t2.endswith('*'):
                return 0                      # optional out-parameters: absent
            raise Unknown()
        if k in ('IntegerLiteral', 'CXXBoolLiteralExpr'):
            return int(n['val'])
        if k in ('CXXNullPtrLiteralExpr', 'GNUNullExpr'):
            return 0
        if k == 'BinaryOperator':
            a, b = f.ch(n)
            op = n['op']
            if op == '&&':
                return 1 if (ev(a) and ev(b)) else 0
            if op == '||':
                return 1 if (ev(a) or ev(b)) else 0
            if op == '=':
                v = ev(b)
                x = f.strip(a)
                if x is not None and x['k'] == 'DeclRefExpr':
                    env[x['id']] = v
                return v
            x, y = ev(a), ev(b)
            return {'==': int(x == y), '!=': int(x != y), '<': int(x < y), '>': int(x > y), '<=': int(x <= y),
                    '>=': int(x >= y), '+': x + y if isinstance(x, int) else None,
                    '-': x - y if isinstance(x, int) else None}[op]
        if k == 'UnaryOperator' and n['op'] == '!':
            return 0 if ev(f.ch(n)[0]) else 1
        if k == 'UnaryOperator' and n['op'] == '-':
            return -ev(f.ch(n)[0])
        if k == 'ConditionalOperator':
            c, a, b = f.ch(n)
            return ev(a) if ev(c) else ev(b)
        if k in CALL_KINDS:
            cq = n.get('cq') or ''
            cn = n.get('cn')
            if cq == 'memcmp':
                a = call_args(f, n)
                s0, s1 = side_of(a[0]), side_of(a[1])
                if s0 in ('L', 'R') and s1 is None:
                    return lc if s0 == 'L' else rc
                if s1 in ('L', 'R') and s0 is None:
                    return -(lc if s1 == 'L' else rc)
                raise AnalysisBroken('R-FLT: memcmp at %s does not compare an endpoint key with the entry' % n.get('loc'))
            if cn == 'size':
                rv = root_var(f, call_recv(f, n))
                if rv == lk:
                    return lsz
                if rv == rk:
                    return rsz
                if rv == res:
                    return 0
                return K                       # the entry's own key
            if cn == 'empty':
                rv = root_var(f, call_recv(f, n))
                if rv == res:
                    return 1
                return 0
            if cq.startswith('std::min') or cq.startswith('std::max'):
                vals = [ev(a) for a in call_args(f, n)]
                return min(vals) if cq.startswith('std::min') else max(vals)
            if n['k'] == 'CXXOperatorCallExpr' and n.get('callee') in push_lams:
                raise _Outcome('keep')
            raise Unknown()
        raise Unknown()

    b, idx = start
    steps = 0
    first = True
    loop_exits = {x for x in f.blocks[header].succ if x is not None and x not in body}
    while True:
        steps += 1
        if steps > 400:
            raise AnalysisBroken('R-FLT: the value path of scan_border does not terminate abstractly')
        if not first and b == header:
            return 'skip'
        if not first and b not in body and b in loop_exits:
            return 'left-the-loop'
        blk = f.blocks[b]
        try:
            for e in blk.elems[idx if first else 0:]:
                n = f.node(e)
                if n['k'] == 'ReturnStmt':
                    rc_ = R.const_of(f, f.ch(n)[0]) if f.ch(n) else None
                    return 'end' if rc_ == 'yakushima::status::OK_SCAN_END' else 'return %s' % rc_
                if n['k'] == 'CXXOperatorCallExpr' and n.get('callee') in push_lams:
                    return 'keep'
                if n['k'] == 'DeclStmt':
                    for v in n.get('vars', []):
                        if 'init' in v:
                            try:
                                env[v['id']] = ev(v['init'])
                            except Unknown:
                                env[v['id']] = Unknown()
                elif n['k'] == 'BinaryOperator' and n.get('op') == '=':
                    try:
                        ev(n)
                    except Unknown:
                        x = f.strip(f.ch(n)[0])
                        if x is not None and x['k'] == 'DeclRefExpr':
                            env[x['id']] = Unknown()
        except _Outcome as o:
            return o.what
        first = False
        if not blk.succ:
            return 'fell-off'
        if len(blk.succ) == 1:
            b = blk.succ[0]
        else:
            if not blk.term or 'cond' not in blk.term:
                raise AnalysisBroken('R-FLT: unmodelled terminator at %s' % (blk.term or {}).get('loc'))
            try:
                c = ev(blk.term['cond'])
            except _Outcome as o:
                return o.what
            except Unknown:
                raise AnalysisBroken('R-FLT: the filter branches on a value outside the abstraction at %s' %
                                     (blk.term.get('loc'),))
            b = blk.succ[0] if c else blk.succ[1]
        if b is None:
            raise AnalysisBroken('R-FLT: pruned edge taken')


class _Outcome(Exception):
    def __init__(self, what):
        self.what = what


# ---------------------------------------------------------------------------
# R-DSC: the endpoint translation when a link entry is followed into the next layer
# ---------------------------------------------------------------------------

def rule_dsc(S):
    facts = S.facts()
    S.rule('R-DSC', 'scan_border<V>, entry that continues in the next layer (the link path): abstract execution from the '
                    'test of the entry length to the nested scan call (descend), the loop latch (skip) or `return '
                    'OK_SCAN_END`, over {INF, INCL, EXCL}^2 x sign of the left slice comparison x l_key.size() vs 8 x sign '
                    'of the right key comparison x r_key.size() vs the size of the link\'s key prefix: the outcome and the '
                    'endpoints handed to the nested scan equal the reference: left: INF if l is below the link\'s slice, '
                    'the rest of l (l without its first slice) with l_end if l continues below this link, anything '
                    'that excludes nothing if l ends with this slice, skip if l is above; right (r is compared as a '
                    'whole key): end if r is below or equal to the link\'s prefix, r with r_end if r continues below this '
                    'link, INF if r is above')
    from yk.flow import dominators
    agg = {}
    for f in sorted([g for g in facts.by_qname('yakushima::scan_border') if not g.is_lambda], key=lambda x: x.fid):
        (_, lk, le), (_, rk, re_) = pairs_of(f)
        res = [p['id'] for p in f.params if 'std::vector<std::tuple<' in p['type']][0]
        nested = [n for n in f.all_nodes() if is_call(n, cq='yakushima::scan')]
        if len(nested) != 1:
            raise AnalysisBroken('R-DSC: expected one nested scan call in scan_border, found %d' % len(nested))
        # start: the branch on `<entry length> > sizeof(slice)`
        start = None
        cands = []
        for b, blk in f.blocks.items():
            if blk.term and 'cond' in blk.term and len(blk.succ) == 2:
                c = f.strip(blk.term['cond'], casts=True)
                if c is not None and c['k'] == 'BinaryOperator' and c.get('op') in ('>', '<=', '>=', '<'):
                    l, r = [f.strip(x, casts=True) for x in f.ch(c)]
                    tys = [(x.get('ty') or '').replace('const ', '') for x in (l, r)]
                    if 'unsigned char' in tys and any(cv_of(f, x) == 8 for x in f.ch(c)):
                        if _reaches(f, b, nested[0]):
                            cands.append(b)
        dom = dominators(f)
        nb = [bb for bb, blk_ in f.blocks.items() if any(f.node(e) is nested[0] for e in blk_.elems)]
        # the test that decides "this entry is a link": the last of the candidates on the way to the nested scan
        cands = [c for c in cands if nb and c in dom.get(nb[0], ())]
        for c in cands:
            if all(o in dom.get(c, ()) for o in cands):
                start = c
        if start is None:
            raise AnalysisBroken('R-DSC: the test of the entry length against the slice size was not found')
        preds = f.preds()
        heads = []
        for u in dom:
            for h in f.blocks[u].succ:
                if h is not None and h in dom.get(u, ()):
                    body = {h, u}
                    work = [u] if u != h else []
                    while work:
                        x = work.pop()
                        for (pb, _) in preds.get(x, []):
                            if pb not in body and pb in dom:
                                body.add(pb)
                                work.append(pb)
                    if start in body:
                        heads.append((len(body), h, body))
        if not heads:
            raise AnalysisBroken('R-DSC: the link path of scan_border is not inside a loop')
        _, header, body = min(heads)
        taint = {}
        for n in f.all_nodes():
            if is_call(n, cq='memcpy'):
                a = call_args(f, n)
                srcs = {x.get('id') for x in f.walk(a[1]) if x['k'] == 'DeclRefExpr'} if len(a) > 1 else set()
                src = lk if lk in srcs else (rk if rk in srcs else None)
                if src is not None:
                    tv = root_var(f, a[0])
                    if tv:
                        taint[tv] = 'L' if src == lk else 'R'
        tg = facts.get(nested[0].get('callee'))
        pnames = [p['name'] for p in tg.params] if tg else []
        # positions of the (key, endpoint) pairs of the callee
        cp = pairs_of(tg) if tg else []
        if len(cp) != 2:
            raise AnalysisBroken('R-DSC: the nested scan does not take two (key, endpoint) pairs')
        bad = []
        rows = 0
        Fk = 10
        for l in (INF, INCL, EXCL):
            for r in (INF, INCL, EXCL):
                for lc in (-1, 0, 1):
                    for lsz in (4, 8, 12):
                        for rc in (-1, 0, 1):
                            for rsz in (Fk - 1, Fk, Fk + 1):
                                # reference
                                if l == INF and (lc > 0 or lsz != 4):
                                    continue    # an INF left endpoint comes with an empty key (normalised pair, R-INF)
                                nothing = {('inf',), ('empty', INCL), ('empty', EXCL)}   # left bounds that exclude nothing
                                if l == INF or lc < 0:
                                    wl = nothing
                                elif lc == 0:
                                    wl = {('rest', l)} if lsz > 8 else nothing
                                else:
                                    wl = None
                                # right: r is compared as a whole key, so handing it on unchanged is always right (if
                                # wasteful); INF is right only above the link, ending only at or below its prefix
                                if r == INF:
                                    wr = {('inf',)}
                                elif rc > 0:
                                    wr = {('inf',), ('whole', r)}
                                elif rc == 0 and rsz > Fk:
                                    wr = {('whole', r)}
                                else:
                                    wr = None
                                if wl is None and wr is None:
                                    continue
                                rows += 1
                                got = _interp_link(facts, f, start, header, body, nested[0], cp, {le: l, re_: r},
                                                   lk, rk, res, taint, lc, lsz, rc, rsz, Fk)
                                if wl is None:
                                    ok = got == 'skip'
                                    want = 'skip'
                                elif wr is None:
                                    ok = got == 'end' or (isinstance(got, tuple) and got[0] == 'descend' and
                                                          got[1] in wl and got[2] == ('whole', r))
                                    want = 'end of the range'
                                else:
                                    ok = isinstance(got, tuple) and got[0] == 'descend' and got[1] in wl and got[2] in wr
                                    want = 'descend with left %s, right %s' % (sorted(wl)[0], sorted(wr)[0])
                                if not ok:
                                    bad.append((l, r, lc, lsz, rc, rsz, got, want))
        key = 'yakushima::scan_border [every instantiation]'
        e = agg.setdefault(key, {'rows': rows, 'bad': bad, 'loc': f.loc})
        if bad and not e['bad']:
            e['bad'] = bad
    for key, e in sorted(agg.items()):
        b0 = e['bad'][0] if e['bad'] else None
        S.ob('R-DSC', key, 'endpoint translation at a link entry (%d rows)' % e['rows'], not e['bad'],
             'agrees with the reference on every row' if not e['bad'] else
             'disagrees on %d rows, e.g. l_end=%s r_end=%s, left slice comparison %+d with l_key.size() %s 8, right '
             'comparison %+d with r_key.size() %s the prefix size: the code does `%s`, the reference says `%s`' % (
                 len(e['bad']), str(b0[0]).split('::')[-1], str(b0[1]).split('::')[-1], b0[2],
                 {4: '<', 8: '==', 12: '>'}[b0[3]], b0[4], {9: '<', 10: '==', 11: '>'}[b0[5]],
                 _show(b0[6]), b0[7]), loc=e['loc'], detail=[str(x) for x in e['bad'][:8]] or None)
    S.require('R-DSC', 'scan_border instantiations evaluated', len(agg), 1)


def _show(x):
    return str(x).replace('yakushima::scan_endpoint::', '')


def cv_of(f, n):
    from yk.facts import cv_through
    try:
        return cv_through(f, n)
    except Exception:   # noqa: BLE001
        return None


def _reaches(f, b, node):
    pos = f.positions()
    tgt = None
    for bb, blk in f.blocks.items():
        for e in blk.elems:
            if f.node(e) is node:
                tgt = bb
    seen = {b}
    st = [b]
    while st:
        x = st.pop()
        if x == tgt:
            return True
        for s_ in f.blocks[x].succ:
            if s_ is not None and s_ not in seen:
                seen.add(s_)
                st.append(s_)
    return False


def _interp_link(facts, f, start, header, body, nested, cp, enums, lk, rk, res, taint, lc, lsz, rc, rsz, Fk):
    env = dict(enums)

    class Unknown(Exception):
        pass

    def side_of(n):
        for x in f.walk(n):
            if x['k'] == 'DeclRefExpr':
                if x.get('id') == lk or taint.get(x.get('id')) == 'L':
                    return 'L'
                if x.get('id') == rk or taint.get(x.get('id')) == 'R':
                    return 'R'
        return None

    def sv(n):
        """abstract string_view value of expression n: ('empty',) | ('L', off) | ('R', off)"""
        x = f.strip(n, casts=True)
        hops = 0
        while x is not None and x['k'] in ('CXXConstructExpr', 'MaterializeTemporaryExpr', 'CXXBindTemporaryExpr',
                                           'CXXFunctionalCastExpr') and hops < 6:
            kids = x.get('args') or x.get('ch') or []
            if not kids:
                return ('empty',)
            x = f.strip(f.node(kids[0]), casts=True)
            hops += 1
        if x is None:
            raise Unknown()
        if x['k'] == 'StringLiteral':
            if (x.get('val') or '') in ('', '""'):
                return ('empty',)
            raise Unknown()
        if x['k'] == 'DeclRefExpr':
            if x['id'] == lk:
                return ('L', 0)
            if x['id'] == rk:
                return ('R', 0)
            if x['id'] in env and isinstance(env[x['id']], tuple):
                return env[x['id']]
        raise Unknown()

    def size_of(v):
        if v == ('empty',):
            return 0
        if v[0] == 'L':
            return max(lsz - v[1], 0)
        if v[0] == 'R':
            return max(rsz - v[1], 0)
        raise Unknown()

    def ev(n):
        n = f.strip(n, casts=True)
        if n is None:
            raise Unknown()
        k = n['k']
        if 'cv' in n and k != 'DeclRefExpr':
            return int(n['cv'])
        if k == 'DeclRefExpr':
            if n.get('dk') == 'enum':
                return n['id']
            if n['id'] in env:
                v = env[n['id']]
                if isinstance(v, Unknown):
                    raise Unknown()
                return v
            ty = (n.get('ty') or '').replace('const ', '')
            if ty == 'bool':
                return 0
            if ty == 'unsigned char':
                return 9                       # a link entry
            if ty in ('unsigned long', 'std::size_t') and n.get('dk') == 'parm':
                return 0
            t2 = ty.rstrip()
            if t2.endswith('const'):
                t2 = t2[:-5].rstrip()
            if t2.endswith('*'):
                return 0
            raise Unknown()
        if k in ('IntegerLiteral', 'CXXBoolLiteralExpr'):
            return int(n['val'])
        if k in ('CXXNullPtrLiteralExpr', 'GNUNullExpr'):
            return 0
        if k == 'BinaryOperator':
            a, b = f.ch(n)
            op = n['op']
            if op == '&&':
                return 1 if (ev(a) and ev(b)) else 0
            if op == '||':
                return 1 if (ev(a) or ev(b)) else 0
            if op == '=':
                v = ev(b)
                x = f.strip(a)
                if x is not None and x['k'] == 'DeclRefExpr':
                    env[x['id']] = v
                return v
            x, y = ev(a), ev(b)
            return {'==': int(x == y), '!=': int(x != y), '<': int(x < y), '>': int(x > y), '<=': int(x <= y),
                    '>=': int(x >= y), '+': x + y if isinstance(x, int) else None,
                    '-': x - y if isinstance(x, int) else None}[op]
        if k == 'UnaryOperator' and n['op'] == '!':
            return 0 if ev(f.ch(n)[0]) else 1
        if k == 'UnaryOperator' and n['op'] == '-':
            return -ev(f.ch(n)[0])
        if k == 'ConditionalOperator':
            c, a, b = f.ch(n)
            return ev(a) if ev(c) else ev(b)
        if k in ('InitListExpr',) and not f.ch(n):
            return INF if 'scan_endpoint' in (n.get('ty') or '') else 0
        if k in CALL_KINDS:
            cq = n.get('cq') or ''
            cn = n.get('cn')
            if cq == 'memcmp':
                a = call_args(f, n)
                s0, s1 = side_of(a[0]), side_of(a[1])
                if s0 in ('L', 'R') and s1 is None:
                    return lc if s0 == 'L' else rc
                if s1 in ('L', 'R') and s0 is None:
                    return -(lc if s1 == 'L' else rc)
                raise AnalysisBroken('R-DSC: memcmp at %s does not compare an endpoint key with the entry' % n.get('loc'))
            if cn == 'size':
                recv = call_recv(f, n)
                rv = root_var(f, recv)
                if rv == res:
                    return 0
                try:
                    return size_of(sv(recv))
                except Unknown:
                    return Fk                  # the link's key prefix (full_key)
            if cn == 'empty':
                recv = call_recv(f, n)
                if root_var(f, recv) == res:
                    return 1
                try:
                    return int(size_of(sv(recv)) == 0)
                except Unknown:
                    return 0
            if cq.startswith('std::min') or cq.startswith('std::max'):
                vals = [ev(a) for a in call_args(f, n)]
                return min(vals) if cq.startswith('std::min') else max(vals)
            raise Unknown()
        raise Unknown()

    def assign_sv(nd):
        """string_view assignments / mutations; returns True if handled"""
        if nd['k'] == 'CXXOperatorCallExpr' and nd.get('cn') == 'operator=' and 'basic_string_view' in (nd.get('cq') or ''):
            a = [f.node(x) for x in nd.get('args', [])]
            tgt = f.strip(a[0], casts=True)
            if tgt is not None and tgt['k'] == 'DeclRefExpr':
                try:
                    env[tgt['id']] = sv(a[1])
                except Unknown:
                    env[tgt['id']] = Unknown()
                return True
        if nd['k'] == 'CXXMemberCallExpr' and nd.get('cn') in ('remove_prefix',) and \
                'basic_string_view' in (nd.get('cq') or ''):
            tgt = f.strip(call_recv(f, nd), casts=True)
            if tgt is not None and tgt['k'] == 'DeclRefExpr' and isinstance(env.get(tgt['id']), tuple):
                v = env[tgt['id']]
                nbytes = ev(call_args(f, nd)[0])
                env[tgt['id']] = ('empty',) if v == ('empty',) else (v[0], v[1] + nbytes)
                return True
        return False

    b = start
    steps = 0
    first = True
    loop_exits = {x for x in f.blocks[header].succ if x is not None and x not in body}
    while True:
        steps += 1
        if steps > 400:
            raise AnalysisBroken('R-DSC: the link path of scan_border does not terminate abstractly')
        if not first and b == header:
            return 'skip'
        if not first and b not in body and b in loop_exits:
            return 'left-the-loop'
        blk = f.blocks[b]
        elems = blk.elems
        if first:
            # start at the evaluation of the branch condition (skip what precedes it in the block)
            cond_nodes = {id(x) for x in f.walk(blk.term['cond'])}
            idxs = [i for i, e in enumerate(elems) if id(f.node(e)) in cond_nodes]
            elems = elems[min(idxs):] if idxs else []
        for e in elems:
            n = f.node(e)
            if n is nested:
                a = call_args(f, n)
                (li, _, _), (ri, _, _) = cp

                def arg_pair(i):
                    try:
                        kv = sv(a[i])
                    except Unknown:
                        kv = ('?',)
                    try:
                        ee = ev(a[i + 1])
                    except Unknown:
                        ee = '?'
                    return kv, ee
                (lkv, lee), (rkv, ree) = arg_pair(li), arg_pair(ri)

                def norm_l(kv, ee):
                    if ee == INF:
                        return ('inf',)
                    try:
                        if size_of(kv) == 0:
                            return ('empty', ee)
                    except Unknown:
                        pass
                    if kv == ('empty',):
                        return ('empty', ee)
                    if kv == ('L', 8):
                        return ('rest', ee)
                    return ('other', kv, ee)

                def norm_r(kv, ee):
                    if ee == INF:
                        return ('inf',)
                    if kv == ('R', 0):
                        return ('whole', ee)
                    return ('other', kv, ee)
                return ('descend', norm_l(lkv, lee), norm_r(rkv, ree))
            if n['k'] == 'ReturnStmt':
                rc_ = R.const_of(f, f.ch(n)[0]) if f.ch(n) else None
                return 'end' if rc_ == 'yakushima::status::OK_SCAN_END' else 'return %s' % rc_
            if assign_sv(n):
                continue
            if n['k'] == 'DeclStmt':
                for v in n.get('vars', []):
                    ty = (v.get('type') or '')
                    if 'basic_string_view' in ty:
                        try:
                            env[v['id']] = sv(f.node(v['init'])) if 'init' in v else ('empty',)
                        except Unknown:
                            env[v['id']] = ('empty',) if 'init' in v and not f.ch(f.node(v['init'])) and \
                                not (f.node(v['init']).get('args')) else Unknown()
                    elif 'init' in v:
                        try:
                            env[v['id']] = ev(v['init'])
                        except Unknown:
                            env[v['id']] = INF if 'scan_endpoint' in ty else Unknown()
            elif n['k'] == 'BinaryOperator' and n.get('op') == '=':
                try:
                    ev(n)
                except Unknown:
                    x = f.strip(f.ch(n)[0])
                    if x is not None and x['k'] == 'DeclRefExpr':
                        env[x['id']] = Unknown()
        first = False
        if not blk.succ:
            return 'fell-off'
        if len(blk.succ) == 1:
            b = blk.succ[0]
        else:
            if not blk.term or 'cond' not in blk.term:
                raise AnalysisBroken('R-DSC: unmodelled terminator at %s' % (blk.term or {}).get('loc'))
            try:
                c = ev(blk.term['cond'])
            except Unknown:
                raise AnalysisBroken('R-DSC: the link path branches on a value outside the abstraction at %s' %
                                     (blk.term.get('loc'),))
            b = blk.succ[0] if c else blk.succ[1]
        if b is None:
            raise AnalysisBroken('R-DSC: pruned edge taken')


# ---------------------------------------------------------------------------
# R-MAX: the truncation test dominates every further growth
# ---------------------------------------------------------------------------

def _is_tuple_list_type(t):
    t = t.replace(' ', '')
    return t.startswith('std::vector<std::tuple<') and t.endswith('&')


def _is_size_t(t):
    return t.replace('const', '').strip() in ('std::size_t', 'unsigned long', 'size_t')


GROW = ('emplace_back', 'push_back', 'insert', 'emplace')
SHRINK = ('erase', 'resize', 'pop_back', 'clear')
CONT = 'yakushima::status::OK_SCAN_CONTINUE'


def rule_max(S):
    facts = S.facts()
    S.rule('R-MAX', 'scan_border<V>: after every growth of the result list (push, nested scan handed the list) the '
                    'truncation test (max_size == 0, or list.size() >= / == max_size taken false) is evaluated before '
                    'the next growth and before `return OK_SCAN_CONTINUE`; a roll-back restores the entry state')
    fns = facts.some('yakushima::scan_border', lambda f: not f.is_lambda, 'scan_border<V>')
    n_grow = 0
    n_tests = 0
    for f in fns:
        tl = R.params_of_type(f, _is_tuple_list_type)
        mx = R.params_of_type(f, _is_size_t)
        if len(tl) != 1 or len(mx) != 1:
            raise AnalysisBroken('R-MAX: scan_border has no unique (result list, max_size) parameter pair')
        tl, mx = tl[0]['id'], mx[0]['id']
        lambdas = facts.lambdas_of(f)
        rollback = set()
        for g in lambdas:
            if any(n['k'] in CALL_KINDS and n.get('cn') in SHRINK and root_var(g, call_recv(g, n)) == tl
                   for n in g.all_nodes()):
                rollback.add(g.fid)
        grow_sites = set()
        tests = set()
        fname = 'yakushima::scan_border<%s>' % f.targs
        obs = {}

        def need_clean(g, n, st, ctx, what):
            site = '%s %s' % (what, short_loc(n))
            o = obs.setdefault(site, {'ok': True, 'loc': short_loc(n), 'path': None})
            if st[0] != 'C':
                o['ok'] = False
                if o['path'] is None:
                    o['path'] = ctx.witness()

        def is_size_of_list(g, n):
            n = g.strip(n, casts=True)
            return n is not None and n['k'] in CALL_KINDS and n.get('cn') == 'size' and \
                root_var(g, call_recv(g, n)) == tl

        def is_max(g, n):
            n = g.strip(n, casts=True)
            return n is not None and n['k'] == 'DeclRefExpr' and n.get('id') == mx

        def make_step(g):
            def step(ctx, n, st):
                gr, lastret, fs = st
                fs = R.track_assign(g, n, fs, facts)
                if n['k'] in CALL_KINDS and n.get('cn') in GROW and root_var(g, call_recv(g, n)) == tl:
                    grow_sites.add(n.get('loc'))
                    need_clean(g, n, st, ctx, 'push')
                    return ('G', lastret, fs)
                if n['k'] in CALL_KINDS and n.get('cn') in SHRINK and root_var(g, call_recv(g, n)) == tl:
                    return ('C', lastret, fs)
                tg = R.lambda_target(facts, g, n)
                if tg is not None:
                    if tg.fid in rollback:
                        return ('C', lastret, fs)
                    outs, _ = R.inline_states(facts, tg, (gr, None, fs), make_step(tg), make_branch(tg))
                    return list(outs)
                if n['k'] in CALL_KINDS and (n.get('callee') or '').startswith('yakushima::') and \
                        any(root_var(g, a) == tl for a in call_args(g, n)):
                    grow_sites.add(n.get('loc'))
                    need_clean(g, n, st, ctx, 'nested scan')
                    return ('G', lastret, fs)
                if n['k'] == 'ReturnStmt':
                    rc = R.ret_const(g, n, fs)
                    if g is f:
                        if rc == CONT or rc is None:
                            need_clean(g, n, st, ctx, R.ret_desc(g, n))
                        return None
                    return (gr, rc or '?', fs)
                return (gr, lastret, fs)
            return step

        def make_branch(g):
            def branch(ctx, blk, idx, st):
                gr, lastret, fs = st
                fs2 = R.refine(g, blk, idx, fs)
                if fs2 is None:
                    return None
                t = blk.term
                if t and len(blk.succ) == 2 and 'cond' in t:
                    c = g.strip(g.node(t['cond']))
                    flip = False
                    while c is not None and c['k'] == 'UnaryOperator' and c.get('op') == '!':
                        flip = not flip
                        c = g.strip(g.ch(c)[0])
                    truth = (idx == 0) != flip
                    if c is not None and c['k'] == 'BinaryOperator':
                        a, b = g.ch(c)[0], g.ch(c)[1]
                        op = c.get('op')
                        # max_size != 0 / max_size == 0
                        for x, y in ((a, b), (b, a)):
                            if is_max(g, x) and R.cv_through(g, y) == 0 and op in ('!=', '==', '>'):
                                tests.add(c.get('loc'))
                                unlimited = (not truth) if op in ('!=', '>') else truth
                                if unlimited:
                                    gr = 'C'
                        # size() >= max_size, max_size <= size(), size() == max_size
                        reached = None
                        if is_size_of_list(g, a) and is_max(g, b) and op in ('>=', '=='):
                            reached = truth
                        elif is_max(g, a) and is_size_of_list(g, b) and op in ('<=', '=='):
                            reached = truth
                        elif is_size_of_list(g, a) and is_max(g, b) and op == '<':
                            reached = not truth
                        elif is_max(g, a) and is_size_of_list(g, b) and op == '>':
                            reached = not truth
                        if reached is not None:
                            tests.add(c.get('loc'))
                            if not reached:
                                gr = 'C'
                        # result of an inlined closure compared with a status constant
                        if op in ('==', '!='):
                            for x, y in ((a, b), (b, a)):
                                xs = g.strip(x, casts=True)
                                if xs is not None and R.lambda_target(facts, g, xs) is not None and \
                                        lastret not in (None, '?'):
                                    cy = R.const_of(g, g.strip(y, casts=True))
                                    if cy is not None:
                                        eq = (lastret == cy)
                                        if (op == '==') != truth:
                                            eq = not eq
                                        if not eq:
                                            return None
                return (gr, lastret, fs2)
            return branch

        ex = Explorer(f, make_step(f), make_branch(f))
        ex.run(('C', None, frozenset()))
        for site, o in sorted(obs.items()):
            S.ob('R-MAX', fname, site, o['ok'],
                 'reached with the truncation test %s since the last growth of the result list' %
                 ('evaluated' if o['ok'] else 'NOT evaluated'), loc=o['loc'], path=o['path'])
        n_grow += len(grow_sites)
        n_tests += len(tests)
        S.count('R-MAX: CFG visits', ex.visits)
    S.require('R-MAX', 'growth sites of the result list in scan_border', n_grow, 2 * len(fns))
    S.require('R-MAX', 'truncation tests', n_tests, 2 * len(fns))


def rule_lft(S):
    facts = S.facts()
    S.rule('R-LFT', 'border-chain walks (every scan function that calls scan_border): at every call of scan_border, on '
                    'every path, each endpoint argument holds the value of the walk\'s own endpoint parameter of the same '
                    'side (the parameter itself, or a local that was copied from it and not re-assigned anything else): '
                    'the descent only lands near the endpoint (its length argument is a hint, R-NARROW; concurrent splits '
                    'move keys right), so every visited border has to apply both endpoint tests - an endpoint weakened '
                    'to INF after the first border lets keys outside the interval through')
    n_sites = 0
    agg = {}
    for f in sorted(facts.functions.values(), key=lambda x: x.fid):
        if not f.blocks or f.qname != 'yakushima::scan':
            continue
        calls = [n for n in f.all_nodes() if is_call(n, cq='yakushima::scan_border')]
        if not calls:
            continue
        eps = [p['id'] for p in f.params if is_ep(p['type'])]
        if len(eps) != 2:
            raise AnalysisBroken('R-LFT: %s does not take two endpoints' % f.qname)
        fname = f.qname + ' [' + f.file + ', every instantiation]'
        locs = {v['id'] for m in f.all_nodes() if m['k'] == 'DeclStmt' for v in m.get('vars', [])
                if is_ep((v.get('type') or ''))}
        sites = {}

        def val(nd, st):
            x = f.strip(nd, casts=True)
            while x is not None and x['k'] in ('CXXConstructExpr', 'InitListExpr', 'MaterializeTemporaryExpr') and \
                    len(f.ch(x)) == 1:
                x = f.strip(f.ch(x)[0], casts=True)
            if x is not None and x['k'] == 'DeclRefExpr':
                if x.get('id') in eps:
                    return eps.index(x['id'])
                for (v, side) in st:
                    if v == x.get('id'):
                        return side
            return 'other'

        def step(ctx, nd, st):
            k = nd['k']
            if k == 'DeclStmt':
                for v in nd.get('vars', []):
                    if v['id'] in locs:
                        st = frozenset(x for x in st if x[0] != v['id']) | \
                            {(v['id'], val(f.node(v['init']), st) if 'init' in v else 'other')}
                return st
            if k == 'BinaryOperator' and nd.get('op') == '=':
                l = f.strip(f.ch(nd)[0], casts=True)
                if l is not None and l['k'] == 'DeclRefExpr' and l.get('id') in locs:
                    return frozenset(x for x in st if x[0] != l['id']) | {(l['id'], val(f.ch(nd)[1], st))}
                if l is not None and l['k'] == 'DeclRefExpr' and l.get('id') in eps:
                    return st | {('#param-assigned', eps.index(l['id']))}
                return st
            if is_call(nd, cq='yakushima::scan_border'):
                g = facts.get(nd.get('callee'))
                args = call_args(f, nd)
                side = 0
                for i, a in enumerate(args):
                    pty = (g.params[i]['type'] if g is not None and i < len(g.params) else
                           (f.strip(a, casts=True) or {}).get('ty', ''))
                    if not is_ep(pty):
                        continue
                    got = val(a, st)
                    e = sites.setdefault('scan_border at %s: endpoint %d' % (short_loc(nd), side),
                                         {'ok': True, 'loc': short_loc(nd), 'path': None})
                    if got != side or ('#param-assigned', side) in st:
                        e['ok'] = False
                        e['path'] = e['path'] or ctx.witness()
                    side += 1
                return st
            return st

        Explorer(f, step).run(frozenset())
        for site, e in sites.items():
            a = agg.setdefault((fname, site), e)
            if not e['ok'] and a['ok']:
                agg[(fname, site)] = e
    for (fname, site), e in sorted(agg.items()):
        if True:
            n_sites += 1
            S.ob('R-LFT', fname, site, e['ok'],
                 'the walk\'s own endpoint reaches every visited border' if e['ok'] else
                 'on some path this border is visited with an endpoint other than the one the walk was given (weakened '
                 'or replaced between borders): keys outside the interval can be delivered', loc=e['loc'], path=e['path'])
    S.require('R-LFT', 'endpoint arguments of scan_border calls in the walks', n_sites, 4)


def run(S):
    S.undecided = ['that the returned set equals the interval as a whole (ordering across borders and layers, values, the '
                   'descent) - runtime data; decided parts: R-FLT (the endpoint filter of an entry that fits its slice) '
                   'and R-DSC (the endpoint translation at a link entry), both as decision tables over their finite '
                   'abstraction, R-LFT (every visited border gets the walk\'s endpoints), R-MAX (the truncation test '
                   'dominates every growth)',
                   'R-INF covers the scan family (interface_scan.h, scan_helper.h); the cursor API is covered by C10']
    S.assumptions = ['a (string_view, scan_endpoint) parameter pair is recognised by adjacency in the parameter list']
    rule_inf(S)
    rule_val(S)
    rule_tab(S)
    rule_max(S)
    rule_lft(S)
    rule_flt(S)
    rule_dsc(S)
    from checks import keylen, C18
    keylen.rule_narrow(S)
    C18.rule_slice(S)
    from checks import C13
    C13.rule_stg(S, only=('yakushima::scan',))
    # every returned key is the key of the entry visited (shared with C04)
    from checks import C04
    C04.rule_key(S)
    # mechanisms this property rests on (checks/shared.py)
    from checks import shared
    shared.key_order(S)
