"""R-CB (callback-before-leave) of C05 is implemented with the cursor rules of C10."""


def rule_cb(S):
    from checks.C10 import rule_cb as cb
    cb(S, rule='R-CB')
