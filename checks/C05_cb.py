def rule_cb(S):
    pass
