"""C16 - init/fin cycles are repeatable.

Decided (structural, necessary conditions; DESIGN.md section 5 / C16):
  R-RST   every stop flag a background thread tests is lowered on every path of init() before
          that thread is constructed
  R-TBL   thread_info_table::init resets every thread_info field enter/leave write, for the whole table
  R-EMP   destroy() nulls the root of every tree it deleted (storages and the catalogue) before returning
  R-FIN   fin(): flags raised before the joins, joins before the retire queues are drained, all steps present
  R-EXIT  every unbounded loop of a background thread function tests that thread's stop flag
"""
from yk.facts import (AnalysisBroken, CALL_KINDS, call_args, call_recv, is_call, root, root_var, short_loc, term,
                      term_str)
from yk.flow import Explorer
from yk import rules as R


def thread_starts(facts):
    """[(function containing the construction, construct node, entry Func)] for std::thread(entry)."""
    out = []
    for f in facts.functions.values():
        for n in f.all_nodes():
            if n['k'] == 'CXXConstructExpr' and n.get('ctor') == 'std::thread':
                for a in n.get('args', []):
                    for x in f.walk(a):
                        if x['k'] == 'DeclRefExpr' and x.get('dk') == 'func':
                            g = facts.get(x['id'])
                            if g is not None:
                                out.append((f, n, g))
    return out


def atomic_bool_loads(f):
    """Globals of type std::atomic<bool> that f loads: {qname: [nodes]}"""
    out = {}
    for n in f.all_nodes():
        if n['k'] == 'CXXMemberCallExpr' and n.get('cn') in ('load', 'operator bool') and \
                (n.get('cq') or '').startswith('std::atomic<bool>'):
            g = R.global_ref(f, call_recv(f, n))
            if g:
                out.setdefault(g, []).append(n)
    return out


def flag_store(f, n):
    """(global qname, 'T'/'F'/None) if n stores to a global std::atomic<bool>."""
    if n['k'] == 'CXXMemberCallExpr' and n.get('cn') == 'store' and (n.get('cq') or '').startswith('std::atomic<bool>'):
        g = R.global_ref(f, call_recv(f, n))
        if g:
            a = call_args(f, n)
            return g, (R.const_of(f, a[0]) if a else None)
    if n['k'] == 'CXXOperatorCallExpr' and n.get('cn') == 'operator=' and (n.get('mcls') or '') .startswith('std::'):
        a = [f.node(x) for x in n.get('args', [])]
        if len(a) == 2 and 'atomic<bool>' in (a[0].get('ty') or ''):
            g = R.global_ref(f, a[0])
            if g:
                return g, R.const_of(f, a[1])
    return None


def rule_rst(S):
    facts = S.facts()
    S.rule('R-RST', 'for every std::thread started in the call graph of init(): every global std::atomic<bool> the '
                    'thread function loads and that the call graph of fin() stores `true` to (a stop flag) is stored '
                    '`false` on every path of init() before the thread object is constructed')
    init = facts.one('yakushima::init')
    fin = facts.one('yakushima::fin')
    starts = thread_starts(facts)
    init_reach = R.reachable_funcs(facts, [init])
    fin_reach = R.reachable_funcs(facts, [fin])
    starts = [s for s in starts if s[0].fid in init_reach]
    S.require('R-RST', 'background threads started from init()', len(starts), 2)
    raised = set()
    for g in fin_reach.values():
        for n in g.all_nodes():
            fs = flag_store(g, n)
            if fs and fs[1] == 'T':
                raised.add(fs[0])
    n_flags = 0
    need = {}  # entry fid -> flags
    for (cf, cn, entry) in starts:
        flags = [q for q in atomic_bool_loads(entry) if q in raised]
        need[entry.fid] = flags
        n_flags += len(flags)
        if not flags:
            S.ob('R-RST', entry.qname, 'stop flag', False,
                 'background thread function tests no stop flag that fin() raises (fin() would never stop it)',
                 loc=entry.loc)
    S.require('R-RST', 'stop flags (loaded by a thread function, raised by fin)', n_flags, 2)

    results = {}

    def step(g, ctx, n, st):
        fs = flag_store(g, n)
        if fs:
            q, v = fs
            if v == 'F':
                return st | {q}
            return st - {q}
        if n['k'] == 'CXXConstructExpr' and n.get('ctor') == 'std::thread':
            for a in n.get('args', []):
                for x in g.walk(a):
                    if x['k'] == 'DeclRefExpr' and x.get('dk') == 'func' and x['id'] in need:
                        for q in need[x['id']]:
                            key = (x['q'], q)
                            e = results.setdefault(key, {'ok': True, 'loc': short_loc(n), 'path': None})
                            if q not in st:
                                e['ok'] = False
                                e['path'] = e['path'] or ctx.witness()
            return st
        return R.Inliner.PASS

    inl = R.Inliner(facts, step, maxdepth=3)
    inl.run(init, frozenset())
    for (entry_q, q), e in sorted(results.items()):
        S.ob('R-RST', 'yakushima::init', 'start of %s / flag %s' % (entry_q.split('::')[-1], q.split('::')[-1]),
             e['ok'], 'stop flag %s is %slowered on every path of init() before std::thread(%s) is constructed' %
             (q, '' if e['ok'] else 'NOT ', entry_q), loc=e['loc'], path=e['path'])
    for fid, flags in need.items():
        for q in flags:
            if not any(k[1] == q for k in results):
                S.ob('R-RST', 'yakushima::init', 'flag ' + q, False,
                     'thread construction for this flag is not reached from init()', loc=init.loc)
    return starts, need


def rule_exit(S, starts, need):
    S.rule('R-EXIT', 'in every background thread function, every CFG cycle other than a range-for over a fixed '
                     'container contains a two-way branch on a load of that thread\'s stop flag')
    for (_, _, g) in starts:
        flags = set(need.get(g.fid, []))
        check_blocks = set()
        range_heads = set()
        for b, blk in g.blocks.items():
            if blk.term and len(blk.succ) == 2 and blk.succ[0] != blk.succ[1] and 'cond' in blk.term:
                c = g.strip(blk.term['cond'], casts=True)
                while c is not None and c['k'] == 'UnaryOperator' and c.get('op') == '!':
                    c = g.strip(g.ch(c)[0], casts=True)        # `while (!flag.load())` tests the flag as well
                if c is not None and c['k'] == 'CXXMemberCallExpr' and c.get('cn') == 'load':
                    q = R.global_ref(g, call_recv(g, c))
                    if q in flags:
                        check_blocks.add(b)
            if blk.term and blk.term.get('k') == 'CXXForRangeStmt':
                # a range-for over a fixed container is bounded: only its own back edge is cut (the body is
                # treated as not entered); paths *through* the header stay in the graph
                range_heads.add(b)
        # is the graph minus check_blocks acyclic?
        color = {}
        cyc = []

        def dfs(u, stack):
            color[u] = 1
            for i, v in enumerate(g.blocks[u].succ):
                if v is None or v in check_blocks:
                    continue
                if u in range_heads and i == 0:
                    continue
                if color.get(v) == 1:
                    cyc.append(stack + [u, v])
                elif v not in color:
                    dfs(v, stack + [u])
            color[u] = 2

        for b in g.reachable_blocks():
            if b not in color and b not in check_blocks:
                dfs(b, [])
        loops = sum(1 for blk in g.blocks.values() if blk.term and blk.term.get('k') in ('ForStmt', 'WhileStmt', 'DoStmt'))
        ok = not cyc
        loc = g.loc
        if cyc:
            for b in cyc[0]:
                blk = g.blocks[b]
                if blk.term:
                    loc = short_loc(blk.term)
                    break
        S.ob('R-EXIT', g.qname, 'unbounded loops (%d)' % loops, ok,
             'every unbounded loop tests the stop flag' if ok else
             'a loop of the background thread never tests its stop flag (fin() can hang in join)', loc=loc)


def rule_tbl(S):
    facts = S.facts()
    S.rule('R-TBL', 'thread_info_table::init writes (transitively) every thread_info field that enter '
                    '(assign_thread_info) or leave (leave_thread_info) write, inside a range-for over the session table')
    TI = 'yakushima::thread_info'

    def wset(f):
        w = set()
        for g in R.reachable_funcs(facts, [f]).values():
            if g.cls == TI:
                for (m, n, how) in R.field_writes(g):
                    if m.startswith(TI + '::'):
                        w.add(m)
        return w

    init = facts.one('yakushima::thread_info_table::init')
    enter = facts.one('yakushima::thread_info_table::assign_thread_info')
    leave = facts.one('yakushima::thread_info_table::leave_thread_info')
    wi, we, wl = wset(init), wset(enter), wset(leave)
    S.require('R-TBL', 'fields written by enter/leave', len(we | wl), 2)
    for m in sorted(we | wl):
        S.ob('R-TBL', init.qname, 'field ' + m.split('::')[-1], m in wi,
             'session-table init %s %s (written by %s)' % ('resets' if m in wi else 'does NOT reset', m,
                                                          '/'.join(x for x, w in (('enter', we), ('leave', wl)) if m in w)),
             loc=init.loc)
    # whole table: the setters are applied to the range-for element over thread_info_table_
    has_range = False
    for n in init.all_nodes():
        if n['k'] == 'DeclStmt':
            for v in n.get('vars', []):
                if v['name'].startswith('__range') and 'init' in v and \
                        R.global_ref(init, v['init']) == 'yakushima::thread_info_table::thread_info_table_':
                    has_range = True
    counted = R.counted_table_loops(init, 'yakushima::thread_info_table::thread_info_table_')
    has_range = has_range or bool(counted)
    in_loop = True
    for n in init.all_nodes():
        if n['k'] == 'CXXMemberCallExpr' and (n.get('mcls') == TI):
            rv = root_var(init, call_recv(init, n))
            ini = R.var_decl_init(init, rv) if rv else None
            ok = ini is not None and any(x['k'] == 'DeclRefExpr' and x.get('name', '').startswith('__begin')
                                         for x in init.walk(ini))
            # the counted form: the element is TABLE[i] for the induction variable of a whole-table loop
            ok = ok or (ini is not None and R.indexes_table(init, ini, 'yakushima::thread_info_table::thread_info_table_',
                                                            set(counted.values()))) or \
                R.indexes_table(init, call_recv(init, n), 'yakushima::thread_info_table::thread_info_table_',
                                set(counted.values()))
            in_loop = in_loop and ok
    S.ob('R-TBL', init.qname, 'whole table', has_range and in_loop,
         'the resets are %sapplied to every element of thread_info_table_' % ('' if (has_range and in_loop) else 'NOT '),
         loc=init.loc)


def rule_emp(S):
    facts = S.facts()
    S.rule('R-EMP', 'destroy(): every `delete` of a tree root obtained from T.load_root_ptr() is followed on every '
                    'path, before the function returns (or the loop iterates), by T.store_root_ptr(nullptr); the '
                    'catalogue root is among them; and every return is reached with the catalogue tree either destroyed '
                    'and emptied or established to have no root (empty() / load_root_ptr() == nullptr on it) on that '
                    'path: an early return on any other ground leaves the catalogue root allocated past fin()')
    f = facts.one('yakushima::destroy')
    sites = {}
    exits = {'ok': True, 'path': None, 'what': None}
    catx = {'ok': True, 'path': None, 'n': 0}

    def tree_term(n):
        return term_str(term(f, n, res=True))

    def is_cat(n):
        return 'get_storages' in tree_term(n) or 'storages_' in tree_term(n)

    def root_of(var_id):
        """the tree a root-pointer local was loaded from, or None"""
        ini = R.var_decl_init(f, var_id) if var_id else None
        if ini is not None:
            for x in f.walk(ini):
                if is_call(x, cq='yakushima::tree_instance::load_root_ptr'):
                    return call_recv(f, x)
        return None

    def step(ctx, n, st):
        pend, cat = st
        if n['k'] == 'CXXDeleteExpr':
            rv = root_var(f, f.ch(n)[0])
            tr = root_of(rv)
            t = tree_term(tr) if tr is not None else None
            if t is None:
                sites['delete ' + short_loc(n)] = {'ok': False, 'loc': short_loc(n),
                                                   'what': 'deletes something that is not a root loaded from a tree'}
                return st
            sites.setdefault('delete root of ' + t, {'ok': True, 'loc': short_loc(n), 'what': ''})
            return (pend | {t}, cat)
        if is_call(n, cq='yakushima::tree_instance::store_root_ptr'):
            a = call_args(f, n)
            if a and R.const_of(f, a[0]) == 'null':
                t = tree_term(call_recv(f, n))
                return (pend - {t}, cat or (t in pend and is_cat(call_recv(f, n))))
            return st
        if n['k'] == 'ReturnStmt':
            catx['n'] += 1
            if pend:
                exits['ok'] = False
                exits['path'] = exits['path'] or ctx.witness()
                exits['what'] = ', '.join(sorted(pend))
            if not cat and catx['ok']:
                catx['ok'] = False
                catx['path'] = ctx.witness()
            return None
        return st

    def branch(ctx, blk, idx, st):
        pend, cat = st
        if not (blk.term and 'cond' in blk.term and len(blk.succ) == 2):
            return st
        c = f.strip(blk.term['cond'], casts=True)
        truth = idx == 0
        while c is not None and c['k'] == 'UnaryOperator' and c.get('op') == '!':
            truth = not truth
            c = f.strip(f.ch(c)[0], casts=True)
        if c is None:
            return st
        # T->empty() on the catalogue: no root
        if c['k'] in CALL_KINDS and c.get('cq') == 'yakushima::tree_instance::empty' and truth and is_cat(call_recv(f, c)):
            return (pend, True)
        # root == nullptr for a root loaded from the catalogue
        if c['k'] == 'BinaryOperator' and c.get('op') in ('==', '!='):
            l, r = f.ch(c)
            for x, y in ((l, r), (r, l)):
                if R.const_of(f, y) == 'null':
                    tr = root_of(root_var(f, x))
                    if tr is not None and is_cat(tr) and (truth == (c['op'] == '==')):
                        return (pend, True)
        return st

    ex = Explorer(f, step, branch)
    ex.run((frozenset(), False))
    for (pend, cat) in ex.exit_states:
        catx['n'] += 1
        if pend:
            exits['ok'] = False
            exits['what'] = ', '.join(sorted(pend))
        if not cat:
            catx['ok'] = False
    S.require('R-EMP', 'tree roots deleted by destroy()', len(sites), 2)
    for s_, e in sorted(sites.items()):
        S.ob('R-EMP', f.qname, s_, e['ok'], e['what'] or 'deleted root is loaded from a tree_instance', loc=e['loc'])
    S.ob('R-EMP', f.qname, 'returns', exits['ok'],
         'every deleted root pointer is nulled before destroy() returns' if exits['ok'] else
         'destroy() can return with a dangling root pointer left in: ' + (exits['what'] or ''),
         loc=f.loc, path=exits['path'])
    cat_site = any('get_storages' in s_ or 'storages_' in s_ for s_ in sites)
    S.ob('R-EMP', f.qname, 'catalogue root', cat_site and catx['ok'],
         'on every path to a return the storage catalogue tree is destroyed and emptied, or was found without a root'
         if (cat_site and catx['ok']) else
         ('destroy() can return without having destroyed the catalogue tree and without having found it empty: its root '
          'node stays allocated past fin()' if cat_site else 'the storage catalogue tree is NOT destroyed and emptied'),
         loc=f.loc, path=catx['path'])


def rule_fin(S):
    facts = S.facts()
    S.rule('R-FIN', 'fin(): on every path all of destroy(), raise-epoch-flag, raise-gc-flag, join epoch, join gc, '
                    'thread_info_table::fin() happen; each flag is raised before its join; both joins precede the '
                    'drain of the retire queues')
    f = facts.one('yakushima::fin')
    ORDER = [('E1', 'J1'), ('E2', 'J2'), ('J1', 'T'), ('J2', 'T')]
    NAMES = {'yakushima::destroy': 'D', 'yakushima::epoch_manager::set_epoch_thread_end': 'E1',
             'yakushima::epoch_manager::set_gc_thread_end': 'E2', 'yakushima::epoch_manager::join_epoch_thread': 'J1',
             'yakushima::epoch_manager::join_gc_thread': 'J2', 'yakushima::thread_info_table::fin': 'T'}
    bad = []
    ends = []

    def step(ctx, n, st):
        if n['k'] in CALL_KINDS and n.get('cq') in NAMES:
            ev = NAMES[n['cq']]
            for a, b in ORDER:
                if b == ev and a not in st:
                    bad.append((a, b, short_loc(n), ctx.witness()))
            return st | {ev}
        if n['k'] == 'ReturnStmt':
            ends.append((st, ctx.witness()))
            return None
        return st

    ex = Explorer(f, step)
    ex.run(frozenset())
    for st in ex.exit_states:
        ends.append((st, None))
    for a, b in ORDER:
        v = [x for x in bad if x[0] == a and x[1] == b]
        S.ob('R-FIN', f.qname, '%s before %s' % (a, b), not v,
             'order %s -> %s %s' % (a, b, 'holds on every path' if not v else 'is violated'),
             loc=v[0][2] if v else f.loc, path=v[0][3] if v else None)
    for ev_q, ev in sorted(NAMES.items(), key=lambda x: x[1]):
        missing = [p for st, p in ends if ev not in st]
        S.ob('R-FIN', f.qname, 'step ' + ev, not missing and bool(ends),
             'fin() %s %s on every path' % ('performs' if not missing else 'does NOT perform', ev_q), loc=f.loc,
             path=missing[0] if missing and missing[0] else None)


Y = 'yakushima::'


def rule_gst(S):
    """R-GST: process-wide atomics written on the fin() path start every cycle from a defined value."""
    facts = S.facts()
    S.rule('R-GST', 'every process-wide std::atomic (static data member / namespace-scope variable of yakushima) that a '
                    'function reachable from fin() stores an absolute value into is also stored by a function reachable from init(): otherwise '
                    'the next cycle starts with whatever the previous fin() left in it (the first cycle started from the '
                    'static initialiser)')
    atomics = {q for q, g in facts.globals.items() if (g.get('type') or '').replace('const ', '').startswith('std::atomic<')}

    # functions handed to std::thread run later, concurrently: what they write is not a reset done by init()
    thread_entries = set()
    for g0 in facts.functions.values():
        for n0 in g0.all_nodes():
            if n0['k'] == 'CXXConstructExpr' and 'std::thread' in (n0.get('ty') or n0.get('ctor') or ''):
                for x0 in g0.walk(n0):
                    if x0['k'] == 'DeclRefExpr' and x0.get('dk') == 'func':
                        thread_entries.add(x0.get('id'))

    def writes(entry):
        out = {}
        reach = R.reachable_funcs(facts, entry, stop=None)
        # re-walk without entering thread entry functions
        seen = {}
        st = list(entry)
        while st:
            g1 = st.pop()
            if g1.fid in seen or g1.fid in thread_entries:
                continue
            seen[g1.fid] = g1
            st.extend(R.callees(facts, g1))
        reach = seen
        for g in reach.values():
            for n in g.all_nodes():
                tgt = None
                # absolute writes only: a counter that is incremented and decremented in pairs (check_room /
                # return_room) returns to its initial value by itself and is not this rule's business
                if n['k'] == 'CXXMemberCallExpr' and n.get('cn') in ('store', 'exchange') and (n.get('mcls') or '').startswith('std::'):
                    tgt = R.global_ref(g, call_recv(g, n))
                elif n['k'] == 'CXXOperatorCallExpr' and n.get('cn') == 'operator=':
                    a = [g.node(x) for x in n.get('args', [])]
                    tgt = R.global_ref(g, a[0]) if a else None
                elif n['k'] == 'AtomicExpr' and 'store' in n.get('aop', ''):
                    c = g.ch(n)
                    tgt = R.global_ref(g, c[0]) if c else None
                if tgt in atomics:
                    # the stored value, when it is a constant
                    val = None
                    args_ = call_args(g, n) if n['k'] == 'CXXMemberCallExpr' else \
                        ([g.node(x) for x in n.get('args', [])][1:] if n['k'] == 'CXXOperatorCallExpr' else g.ch(n)[1:])
                    from yk.facts import cv_through
                    if args_:
                        val = cv_through(g, args_[0])
                        if val is None:
                            c0 = R.const_of(g, g.strip(args_[0], casts=True))
                            val = {'T': 1, 'F': 0}.get(c0)
                    vals = [val]
                    if val is None and args_:
                        # a setter: the value is a parameter - take the constants passed at the call sites on this path
                        x0 = g.strip(args_[0], casts=True)
                        pi = [i for i, p_ in enumerate(g.params) if x0 is not None and x0.get('id') == p_['id']]
                        if pi:
                            vals = []
                            for h in reach.values():
                                for c in h.all_nodes():
                                    if c['k'] in CALL_KINDS and c.get('callee') == g.fid:
                                        ca = call_args(h, c)
                                        vals.append(cv_through(h, ca[pi[0]]) if pi[0] < len(ca) else None)
                            vals = vals or [None]
                    out.setdefault(tgt, [])
                    for v_ in vals:
                        out[tgt].append((g.qname, short_loc(n), v_))
        return out

    def thread_writes():
        out = {}
        roots = [facts.get(t) for t in thread_entries if facts.get(t) is not None]
        for g in R.reachable_funcs(facts, roots).values():
            for n in g.all_nodes():
                tgt = None
                if n['k'] == 'CXXMemberCallExpr' and n.get('cn') in R.ATOMIC_WRITE and (n.get('mcls') or '').startswith('std::'):
                    tgt = R.global_ref(g, call_recv(g, n))
                elif n['k'] == 'CXXOperatorCallExpr' and n.get('cn') in ('operator=', 'operator++', 'operator--', 'operator+=', 'operator-='):
                    a = [g.node(x) for x in n.get('args', [])]
                    tgt = R.global_ref(g, a[0]) if a else None
                if tgt in atomics:
                    out.setdefault(tgt, (g.qname, short_loc(n)))
        return out

    fin = [f for f in facts.by_qname(Y + 'fin') if not f.cls]
    ini = [f for f in facts.by_qname(Y + 'init') if not f.cls]
    if not fin or not ini:
        raise AnalysisBroken('R-GST: yakushima::init / yakushima::fin not found')
    wf, wi = writes(fin), writes(ini)
    # all-or-none: the atomics the background threads maintain (global epoch, GC epoch) are derived from one another;
    # init() may leave all of them running on from the previous cycle, or reset all of them - not a part
    wt = thread_writes()
    both = sorted(q for q in wt if q in wi)
    if both:
        for q in sorted(wt):
            S.ob('R-GST', Y + 'init', 'thread-maintained state: ' + q, q in wi,
                 'reset together with the other thread-maintained atomics' if q in wi else
                 'init() resets %s but not %s, which the background threads derive from it: after the first cycle the '
                 'two disagree until the threads have caught up (e.g. a stale GC epoch above a rewound global epoch frees '
                 'what open sessions still use)' % (', '.join(both), q), loc=wt[q][1])
    else:
        S.ob('R-GST', Y + 'init', 'thread-maintained state (%s)' % ', '.join(sorted(wt)) , True,
             'init() resets none of it: every cycle continues from the previous values', loc=ini[0].loc)
    S.require('R-GST', 'process-wide atomics maintained by the background threads', len(wt), 2)
    S.count('R-GST: process-wide atomics', len(atomics))
    S.require('R-GST', 'process-wide atomics written on the fin() path', len(wf), 2)
    for q in sorted(wf):
        ini_v = facts.globals[q].get('init_cv')
        # stores of the static initialiser's own value leave the next cycle where the first one started
        harmful = [w for w in wf[q] if not (w[2] is not None and ini_v is not None and str(w[2]) == str(ini_v))]
        ok = (q in wi) or not harmful
        w0 = (harmful or wf[q])[0]
        S.ob('R-GST', Y + 'init', 'reset of ' + q, ok,
             ('stored on the init() path too' if q in wi else 'fin() only stores the initial value %s' % ini_v) if ok else
             '%s is written by %s (reachable from fin) and nothing reachable from init() resets it: every cycle after the '
             'first starts with the value the previous fin() left (initial value: %s)' % (q, w0[0], ini_v), loc=w0[1])


def run(S):
    S.undecided = ['that the epoch really advances and memory is really reclaimed in later cycles (timing)',
                   'behaviour with sessions left open across fin(), beyond their queues being drained (R-DRAIN)',
                   'that no other process-wide state (e.g. destroy_manager counters) leaks between cycles']
    S.assumptions = ['a std::thread started from init() runs the function passed to its constructor',
                     'callees of the thread functions terminate (only the thread functions\' own loops are examined)']
    starts, need = rule_rst(S)
    rule_exit(S, starts, need)
    rule_tbl(S)
    rule_emp(S)
    rule_fin(S)
    rule_gst(S)
    # a cycle ends clean only if fin() really drains every session's retire queues, also of sessions left open (shared with C11)
    from checks.C11 import rule_drain
    rule_drain(S)
