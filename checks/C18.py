"""C18 - all internal key comparisons agree with bytewise lexicographic order.

Decided (finite order abstraction, exhaustive over the abstract domain; DESIGN.md section 5 / C18):
  R-CMP    every hand-written comparison site, abstractly evaluated over all consistent abstract pairs of
           (slice, length) tuples, decides exactly what the reference order prescribes for its role
  R-SLICE  one slicing rule where a key is cut into (slice, length): > 8 bytes => (first 8 bytes, 9), else a
           zero-initialised slice with size bytes copied and length = size
  R-USE    the sort of permutation::rearrange and the cursor's start/end tests go through key_tuple's operators
"""
from yk.facts import (AnalysisBroken, CALL_KINDS, call_args, call_recv, cv_through, is_call, root_var, short_loc, term,
                      term_str)
from yk import rules as R
from yk import cmpabs
from yk.cmpabs import A, B, AbsEval, abstract_pairs, ref_cmp
from yk import witness

Y = 'yakushima::'
KS = ('unsigned long', 'const unsigned long')
KL = ('unsigned char', 'const unsigned char')


def params_by_type(f, types):
    return [p['name'] for p in f.params if p['type'] in types]


def memcmp_loops(f):
    """header blocks of for-loops whose body reaches a memcmp"""
    heads = []
    for b, blk in f.blocks.items():
        if blk.term and blk.term.get('k') == 'ForStmt' and len(blk.succ) == 2 and blk.succ[0] is not None:
            # blocks of the body: reachable from succ[0] without passing the header
            seen = {blk.succ[0]}
            st = [blk.succ[0]]
            while st:
                x = st.pop()
                for s in f.blocks[x].succ:
                    if s is not None and s != b and s not in seen:
                        seen.add(s)
                        st.append(s)
            if any(is_call(f.node(e), cq='memcmp') for x in seen for e in f.blocks[x].elems):
                heads.append(b)
    return heads


NODE_CALLS = {Y + 'base_node::get_key_slice_at': 'B', Y + 'base_node::get_key_length_at': 'lb',
              Y + 'base_node::get_key_slice_ref': 'B', Y + 'permutation::get_index_of_rank': 0,
              Y + 'permutation::get_cnk': 1, Y + 'border_node::get_permutation_cnk': 1}


def eval_site(S, f, site, start, bind, markers, spec, extra_fn=None, atoms=None, header=None):
    """Evaluate one comparison site over all abstract pairs (and atom valuations); record one obligation."""
    bad = []
    n = 0
    outcomes = {}
    for pair in abstract_pairs():
        la, lb, d, s = pair
        ref = ref_cmp(la, lb, d, s)
        for av in (atoms(ref) if atoms else [{}]):
            extra = dict(av)
            extra['key_size'] = la if la <= 8 else 12
            if extra_fn:
                extra.update(extra_fn(pair))
            ev = AbsEval(f, pair, bind, markers, extra)
            out = ev.run(start, header=header)
            n += 1
            outcomes[out[0] if isinstance(out, tuple) else out] = outcomes.get(out[0] if isinstance(out, tuple) else out, 0) + 1
            verdict = spec(ref, out, pair)
            if verdict is not None:
                bad.append((pair, av, out, verdict))
    fname = f.qname + ('<%s>' % f.targs if f.targs else '')
    ex = None
    if bad:
        (la, lb, d, s), av, out, verdict = bad[0]
        ex = 'len_a=%d len_b=%d first differing byte=%s sign=%+d%s: %s' % (
            la, lb, ('none' if d == 8 else d), s, (' atoms=%s' % av if av else ''), verdict)
    S.ob('R-CMP', fname, site + ' (%d abstract states)' % n, not bad,
         'agrees with the reference order on every abstract state (outcomes %s)' % outcomes if not bad else
         'disagrees with bytewise lexicographic order on %d abstract states, e.g. %s' % (len(bad), ex), loc=f.loc,
         detail=[str(b[:3]) + ' ' + b[3] for b in bad[:6]] or None)
    S.count('R-CMP: abstract states evaluated', n)
    return n


def rule_cmp(S):
    facts = S.facts()
    S.rule('R-CMP', 'each comparison site is cut out of its function as a CFG region and evaluated by an abstract '
                    'interpreter over every consistent abstract pair (len_a, len_b in 0..9, first differing byte 0..7 or '
                    'none, sign; zero padding respected; ~1300 states): key_tuple::operator< is the strict order and '
                    'operator== tuple identity; leaf lookups match exactly on equality and stop early only below the '
                    'entry; rank / routing / separator position / split side are "key < entry" in the reference order')
    sites = 0
    KT = Y + 'base_node::key_tuple'
    # ---- key_tuple operators ---------------------------------------------------------------------
    for opname, spec in (('operator<', lambda ref, out, p: None if bool(out[1]) == (ref < 0) else
                          'operator< returns %s' % bool(out[1])),
                         ('operator==', lambda ref, out, p: None if bool(out[1]) == (p[2] == 8 and p[0] == p[1]) else
                          'operator== returns %s' % bool(out[1]))):
        f = facts.one(KT + '::' + opname)
        rp = f.params[0]['name']
        bind = {'vars': {rp: ('obj', 'r')},
                'members': {('this', 'key_slice_'): 'A', ('this', 'key_length_'): 'la', ('r', 'key_slice_'): 'B',
                            ('r', 'key_length_'): 'lb'}, 'calls': {}}
        sites += 1
        eval_site(S, f, 'key_tuple::' + opname, f.entry, bind, lambda m: None, spec)
    for opname in ('operator>', 'operator>=', 'operator<=', 'operator!='):
        f = facts.one(KT + '::' + opname)
        cs = {n.get('cn') for n in f.all_nodes() if n['k'] in CALL_KINDS}
        ok = cs <= {'operator<', 'operator>', 'operator=='} and not any(is_call(n, cq='memcmp') for n in f.all_nodes())
        S.ob('R-CMP', f.qname, 'derived operator', ok, 'defined through operator< / operator== only' if ok else
             'a derived comparison operator compares keys on its own', loc=f.loc)
    # ---- leaf lookups ------------------------------------------------------------------------------
    def lookup(fq, pick, match_call, site, early_stop=True):
        nonlocal sites
        fs = [f for f in facts.by_qname(fq) if pick(f)]
        if not fs:
            raise AnalysisBroken('R-CMP: %s not found' % fq)
        for f in fs:
            heads = memcmp_loops(f)
            if not heads:
                raise AnalysisBroken('R-CMP: %s: no per-entry loop with a memcmp' % fq)
            h = min(heads, key=lambda x: len(_body(f, x)))
            body, exitb = cmpabs.loop_blocks(f, h)
            vars_ = {n: 'A' for n in params_by_type(f, KS)}
            vars_.update({n: 'la' for n in params_by_type(f, KL)})
            loopv = [v['name'] for nd in f.all_nodes() if nd['k'] == 'DeclStmt' for v in nd['vars']
                     if v['type'] in ('unsigned long', 'int') and 'init' in v and cv_through(f, v['init']) == 0]
            for lv in loopv:
                vars_.setdefault(lv, 0)
            bind = {'vars': vars_, 'members': {}, 'calls': dict(NODE_CALLS)}

            def markers(m):
                if m[0] == 'block':
                    if m[1] == h:
                        return ('continue', None)
                    if m[1] == exitb:
                        return ('stop', None)
                    return None
                nd = m[1]
                if is_call(nd, cq=match_call):
                    return ('match', None)
                return None

            def spec(ref, out, p):
                o = out[0]
                if o == 'match':
                    return None if ref == 0 else 'reports a match although the keys differ'
                if ref == 0:
                    return 'does not match an equal key (%s)' % o
                if o == 'stop' and ref > 0 and early_stop:
                    return 'stops the search at an entry that is smaller than the key (a later equal entry is missed)'
                if o in ('stop', 'continue', 'falloff', 'return'):
                    return None
                return 'unexpected outcome %s' % (o,)

            sites += 1
            eval_site(S, f, site, body, bind, markers, spec, header=h)

    lookup(Y + 'border_node::get_lv_of', lambda f: True, Y + 'border_node::get_lv_at', 'leaf lookup')
    lookup(Y + 'border_node::get_lv_of_without_lock', lambda f: True, Y + 'border_node::get_lv_at', 'leaf lookup under lock')
    lookup(Y + 'border_node::delete_of', lambda f: len(f.params) == 4, Y + 'border_node::delete_at', 'leaf delete lookup',
           early_stop=False)

    # ---- "key < entry" sites in loops ----------------------------------------------------------------
    def less_loop(fq, site, less_marker, bindx=None, pick=None):
        nonlocal sites
        f = facts.one(fq, pick)
        heads = memcmp_loops(f)
        if not heads:
            raise AnalysisBroken('R-CMP: %s: no loop with a memcmp' % fq)
        h = min(heads, key=lambda x: len(_body(f, x)))
        body, exitb = cmpabs.loop_blocks(f, h)
        vars_ = {n: 'A' for n in params_by_type(f, KS)}
        vars_.update({n: 'la' for n in params_by_type(f, KL)})
        for nd in f.all_nodes():
            if nd['k'] == 'DeclStmt':
                for v in nd['vars']:
                    if v['type'] in ('unsigned long', 'int') and 'init' in v and cv_through(f, v['init']) == 0:
                        vars_.setdefault(v['name'], 5)
        bind = {'vars': vars_, 'members': {}, 'calls': dict(NODE_CALLS)}
        if bindx:
            bindx(f, bind)

        def markers(m):
            if m[0] == 'block':
                if m[1] == h:
                    return ('continue', None)
                if m[1] == exitb:
                    return ('break', None)
                return None
            return less_marker(f, m[1], m[2])

        def spec(ref, out, p):
            o = out[0]
            if o == 'less':
                return None if ref < 0 else 'treats the key as smaller than the entry although it is not'
            if o == 'error' and ref == 0:
                return None
            if ref < 0:
                return 'does not recognise that the key is smaller than the entry (%s)' % o
            return None

        sites += 1
        eval_site(S, f, site, body, bind, markers, spec, header=h, extra_fn=lambda p: {'ivar': 5})

    def rank_marker(f, nd, ev):
        if nd['k'] == 'ReturnStmt':
            v = ev.ev(f.ch(nd)[0])
            return ('less', None) if v == 5 else ('error', None)
        return None

    less_loop(Y + 'border_node::compute_rank_if_insert', 'insert rank', rank_marker)

    def child_marker(f, nd, ev):
        return None

    # get_child_of: leaving the inner loop by break = "left of this separator"
    f = facts.one(Y + 'interior_node::get_child_of')
    heads = memcmp_loops(f)
    inner = [h for h in heads if not any(h2 != h and h in _body(f, h2) for h2 in heads)]
    hh = [h for h in heads if all(h == h2 or h not in _body(f, h2) or True for h2 in heads)]
    # the innermost loop with the memcmp
    innermost = min(heads, key=lambda h: len(_body(f, h)))
    body, exitb = cmpabs.loop_blocks(f, innermost)
    vars_ = {n: 'A' for n in params_by_type(f, KS)}
    vars_.update({n: 'la' for n in params_by_type(f, KL)})
    for nd in f.all_nodes():
        if nd['k'] == 'DeclStmt':
            for v in nd['vars']:
                if v['type'] in ('unsigned long', 'int') and 'init' in v and cv_through(f, v['init']) == 0:
                    vars_.setdefault(v['name'], 5)
    bind = {'vars': vars_, 'members': {}, 'calls': dict(NODE_CALLS)}

    def gm(m):
        if m[0] == 'block':
            if m[1] == innermost:
                return ('continue', None)
            if m[1] == exitb:
                return ('less', None)
        return None

    def gspec(ref, out, p):
        if out[0] == 'less':
            return None if ref < 0 else 'routes the key left of a separator that is not greater than it'
        return 'routes the key right of a separator that is greater than it' if ref < 0 else None

    sites += 1
    eval_site(S, f, 'interior routing', body, bind, gm, gspec, header=innermost)

    def ins_bind(f, bind):
        pk = [p['name'] for p in f.params if p['type'].startswith('const std::pair') or p['type'].startswith('std::pair')]
        bind['vars'][pk[0]] = ('obj', 'pk')
        bind['members'][('pk', 'first')] = 'A'
        bind['members'][('pk', 'second')] = 'la'

    def ins_marker(f, nd, ev):
        if is_call(nd, cq=Y + 'base_node::shift_right_base_member'):
            return ('less', None)
        return None

    less_loop(Y + 'interior_node::insert', 'separator position', ins_marker, bindx=ins_bind)

    # ---- split side decisions ---------------------------------------------------------------------------
    f = facts.one(Y + 'interior_split')
    pk = [p['name'] for p in f.params if 'std::pair' in p['type']]
    bind = {'vars': {pk[0]: ('obj', 'pk')}, 'members': {('pk', 'first'): 'A', ('pk', 'second'): 'la'},
            'calls': dict(NODE_CALLS)}

    def side_marker(callq):
        def mk(m):
            if m[0] == 'node' and is_call(m[1], cq=callq):
                r = f2.strip(call_recv(f2, m[1]), casts=True)
                return ('left', None) if (r is not None and r.get('dk') == 'parm') else ('right', None)
            return None
        return mk

    def side_spec(ref, out, p):
        if ref == 0:
            return None  # precondition of a split: the inserted key / separator is not present in the node
        if out[0] == 'left':
            return None if ref < 0 else 'puts a key that is not smaller than the pivot / first right key on the left side'
        if out[0] == 'right':
            return 'puts a key that is smaller than the pivot / first right key on the right side' if ref < 0 else None
        return 'no side decision reached (%s)' % (out[0],)

    f2 = f
    sites += 1
    eval_site(S, f, 'interior split side', f.entry, bind, side_marker(Y + 'interior_node::insert'), side_spec,
              extra_fn=None)

    f = facts.one(Y + 'border_split')
    f2 = f
    szp = [p['name'] for p in f.params if p['type'] in ('unsigned long', 'const unsigned long')]
    svp = [p['name'] for p in f.params if 'basic_string_view' in p['type']]
    bind = {'vars': {szp[0]: ('atom', 'rank'), svp[0]: ('obj', 'key_view')}, 'members': {},
            'calls': dict(NODE_CALLS)}

    def atoms(ref):
        # rank = number of entries smaller than the key; 8 entries stay left.
        # rank < 8 implies key < first right key; key >= first right key implies rank >= 8
        return [{'rank': 3}, {'rank': 8}] if ref < 0 else [{'rank': 8}, {'rank': 12}]

    sites += 1
    eval_site(S, f, 'border split side', f.entry, bind, side_marker(Y + 'border_node::insert_lv_at'), side_spec,
              atoms=atoms)
    S.require('R-CMP', 'comparison sites', sites, 10)


def _body(f, header):
    # the natural loop of the header (blocks that can reach its back edge); the reachability below is the fall-back for
    # headers without a back edge
    from yk.flow import natural_loops
    nl = natural_loops(f).get(header)
    if nl:
        return set(nl) - {header}
    blk = f.blocks[header]
    seen = {blk.succ[0]}
    st = [blk.succ[0]]
    while st:
        x = st.pop()
        for s in f.blocks[x].succ:
            if s is not None and s != header and s not in seen:
                seen.add(s)
                st.append(s)
    return seen


def rule_use(S):
    facts = S.facts()
    S.rule('R-USE', 'permutation::rearrange sorts std::tuple<key_tuple, index> with std::sort (element order = '
                    'key_tuple::operator< then index); iscan_findnext / iscan_findfirst compare positions only through '
                    'key_tuple operators (no memcmp of their own)')
    f = facts.one(Y + 'permutation::rearrange')
    sorts = [n for n in f.all_nodes() if n['k'] in CALL_KINDS and (n.get('cq') or '').startswith('std::sort')]
    arr = [v for nd in f.all_nodes() if nd['k'] == 'DeclStmt' for v in nd['vars']
           if 'std::tuple<yakushima::base_node::key_tuple' in v['type']]
    ok = len(sorts) == 1 and len(sorts[0].get('args', [])) == 2 and bool(arr)
    S.ob('R-USE', f.qname, 'sort key', ok, 'std::sort with the default order over (key_tuple, index)' if ok else
         'rearrange does not sort (key_tuple, index) tuples with the default order', loc=f.loc)
    n = 0
    for q in (Y + 'iscan_findnext', Y + 'iscan_findfirst'):
        g = facts.one(q)
        mem = [x for x in g.all_nodes() if is_call(x, cq='memcmp')]
        ops = [x for x in g.all_nodes() if x['k'] == 'CXXOperatorCallExpr' and x.get('mcls') == Y + 'base_node::key_tuple']
        n += len(ops)
        S.ob('R-USE', q, 'cursor comparisons (%d)' % len(ops), not mem,
             'through key_tuple operators only' if not mem else 'the cursor compares key bytes with its own memcmp',
             loc=short_loc(mem[0]) if mem else g.loc)
    S.require('R-USE', 'key_tuple comparisons in the cursor', n, 6)
    witness.emit(S, 'C18', 'R-USE')


def rule_slice(S):
    facts = S.facts()
    S.rule('R-SLICE', 'where a string_view key is cut into (slice, length) - get, put, remove, '
                      'border_node::insert_lv_at, key_tuple(string_view), and the two scan descents - abstract '
                      'evaluation for every key size 0..8 and > 8 yields: size > 8 => slice = first 8 key bytes; else '
                      'slice = zero-initialised word with exactly `size` key bytes copied; the length handed to '
                      'find_border is size (<= 8) or a link length (> 8); a scan descent, whose length is only a start '
                      'hint, may use a smaller length but never a larger one')
    n = 0

    def check(f, fname, hint=False):
        nonlocal n
        # slice locals of type key_slice_type and length locals of key_length_type in this function
        svp = [p['name'] for p in f.params if 'basic_string_view' in p['type']]
        if not svp:
            return
        bad = []
        badlen = []
        for size in list(range(0, 9)) + [12]:
            pair = (min(size, 9) if size <= 8 else 9, 0, 8, 0)
            log = []

            def markers(m):
                if m[0] != 'node':
                    return None
                nd, ev = m[1], m[2]
                if is_call(nd, cq='memcpy'):
                    a = call_args(f, nd)
                    tgt = f.strip(a[0], casts=True)
                    src = f.strip(a[1], casts=True)
                    if tgt is not None and tgt['k'] == 'UnaryOperator' and src is not None and is_call(src) and \
                            src.get('cn') == 'data':
                        x = f.strip(f.ch(tgt)[0], casts=True)
                        if x is not None and (x.get('ty') or '') in ('unsigned long',) or \
                                (x is not None and x['k'] == 'MemberExpr' and x.get('name') == R.field_of(S.facts(), Y + 'base_node::key_tuple', 'unsigned long', 'slice')):
                            try:
                                cnt = ev.ev(a[2])
                            except AnalysisBroken:
                                cnt = None
                            zero = _zero_before(f, x, ev)
                            log.append(('copy', cnt, zero))
                if is_call(nd, cq=Y + 'find_border'):
                    a = call_args(f, nd)
                    try:
                        log.append(('len', ev.ev(a[2]) if len(a) > 2 else None))
                    except AnalysisBroken:
                        log.append(('len', None))
                if is_call(nd, cq={Y + 'find_border', Y + 'border_node::get_lv_of', Y + 'base_node::set_key_length_at'}) or \
                        nd['k'] == 'ReturnStmt' or is_call(nd, cq='memcmp'):
                    return ('done', None)
                return None

            bind = {'vars': {svp[-1] if f.name != 'put' else svp[-1]: ('obj', 'kv')}, 'members': {}, 'calls': dict(NODE_CALLS)}
            for nm in svp:
                bind['vars'][nm] = ('obj', 'kv')
            for p_ in f.params:
                if p_['type'].replace('const ', '') == 'bool':
                    bind['vars'][p_['name']] = 0       # forward direction / flags off
                if 'scan_endpoint' in p_['type']:
                    bind['vars'][p_['name']] = 1       # a bounded endpoint (the key is used)
            ev = AbsEval(f, pair, bind, markers, {'key_size': size})
            try:
                ev.run(_slice_start(f))
            except AnalysisBroken as e:
                raise
            want = 8 if size > 8 else size
            copies = [c for c in log if c[0] == 'copy']
            if size == 0:
                okc = all(c[1] in (0, None) for c in copies) or not copies
            else:
                okc = len(copies) >= 1 and copies[0][1] == want and (size > 8 or copies[0][2])
            if not okc:
                bad.append((size, copies))
            lens = [c[1] for c in log if c[0] == 'len']
            if lens:
                L = lens[0]
                if L is None:
                    badlen.append((size, 'not evaluable'))
                elif size <= 8:
                    # exact sites: the length of a key that fits the slice is its size; a scan descent may use a
                    # smaller length (it only moves the start border to the left) but never a larger one
                    if (L != size and not hint) or (hint and L > size):
                        badlen.append((size, L))
                elif not hint and L <= 8:
                    badlen.append((size, L))
        n += 1
        S.ob('R-SLICE', fname, 'slicing (10 key sizes)', not bad,
             'copies min(size, 8) key bytes into a zero-initialised slice' if not bad else
             'for key size %s the slice is built as %s' % (bad[0][0], bad[0][1]), loc=f.loc)
        S.ob('R-SLICE', fname, 'key length handed to the descent (10 key sizes)', not badlen,
             ('never exceeds the length of a key that fits the slice (scan start hint)' if hint else
              'size for keys that fit the slice, the link length beyond') if not badlen else
             'for key size %s the descent uses length %s%s' % (
                 badlen[0][0], badlen[0][1],
                 ': an 8-byte left endpoint is routed like the next-layer link that sorts after it, the scan starts '
                 'one border too far right' if hint else ''), loc=f.loc)

    def check_rtl(f, fname):
        """right-to-left descent (unbounded right end): the descent key is the greatest possible tuple"""
        nonlocal n
        svp = [p['name'] for p in f.params if 'basic_string_view' in p['type']]
        bools = [p['name'] for p in f.params if p['type'].replace('const ', '') == 'bool']
        if not svp or len(bools) != 1:
            return
        log = []

        def markers(m):
            if m[0] != 'node':
                return None
            nd, ev = m[1], m[2]
            if is_call(nd, cq=Y + 'find_border'):
                a = call_args(f, nd)
                try:
                    log.append((ev.ev(a[1]), ev.ev(a[2])))
                except AnalysisBroken:
                    log.append((None, None))
                return ('done', None)
            if nd['k'] == 'ReturnStmt':
                return ('done', None)
            return None

        bind = {'vars': {}, 'members': {}, 'calls': dict(NODE_CALLS)}
        for nm in svp:
            bind['vars'][nm] = ('obj', 'kv')
        bind['vars'][bools[0]] = 1
        for p_ in f.params:
            if 'scan_endpoint' in p_['type']:
                bind['vars'][p_['name']] = 2   # INF
        ev = AbsEval(f, (0, 0, 8, 0), bind, markers, {'key_size': 0})
        try:
            ev.run(_slice_start(f))
        except AnalysisBroken as e:
            S.note('R-SLICE: right-to-left descent of %s not evaluated (%s)' % (fname, str(e)[:100]))
            return
        n += 1
        ok = bool(log) and log[0][0] == 0xFFFFFFFFFFFFFFFF and isinstance(log[0][1], int) and log[0][1] >= 8
        S.ob('R-SLICE', fname, 'right-to-left descent key', ok,
             'the greatest slice with a full length: the descent reaches the rightmost border' if ok else
             'a right-to-left scan descends with (slice, length) = (%s, %s): with a length below 8 the all-ones slice '
             'is routed like a short key to the LEFT of equal-prefix separators, the scan starts at the wrong border' %
             (hex(log[0][0]) if log and isinstance(log[0][0], int) else (log[0][0] if log else '?'),
              log[0][1] if log else '?'), loc=f.loc)

    for q, pick in ((Y + 'get', lambda f: f.params and f.params[0]['type'] == 'yakushima::tree_instance *'),
                    (Y + 'put', lambda f: len(f.params) > 1 and f.params[1]['type'] == 'yakushima::tree_instance *'),
                    (Y + 'remove', lambda f: len(f.params) > 1 and f.params[1]['type'] == 'yakushima::tree_instance *')):
        for f in facts.by_qname(q, pick):
            check(f, f.qname + ('<%s>' % f.targs if f.targs else ''))
    for q in (Y + 'base_node::key_tuple::key_tuple', Y + 'border_node::insert_lv_at'):
        for f in facts.by_qname(q):
            if f.blocks and any('basic_string_view' in p_['type'] for p_ in f.params):
                try:
                    check(f, f.qname + ('<%s>' % f.targs if f.targs else ''))
                except AnalysisBroken as e:
                    S.note('R-SLICE: %s not evaluated (%s)' % (f.qname, str(e)[:120]))
    # the two scan descents: same slicing; their length is only a start hint and must never exceed the true length
    for f in facts.by_qname(Y + 'scan'):
        if f.is_lambda or not f.params:
            continue
        if f.params[0]['type'] in ('yakushima::tree_instance *', 'yakushima::base_node *const', 'yakushima::base_node *'):
            fn_ = f.qname + '<%s>(%s)' % (f.targs, f.params[0]['type'].replace('yakushima::', ''))
            check(f, fn_, hint=True)
            check_rtl(f, fn_)
    S.require('R-SLICE', 'slicing sites', n, 5)


def _slice_start(f):
    """Block that contains the declaration of the key-slice local (skips argument checks before it)."""
    for b in sorted(f.blocks, reverse=True):
        for e in f.blocks[b].elems:
            nd = f.node(e)
            if nd['k'] == 'DeclStmt' and any(v['type'] == 'unsigned long' and 'init' in v and
                                             cv_through(f, v['init']) == 0 for v in nd['vars']):
                return b
    raise AnalysisBroken('R-SLICE: no zero-initialised key slice local in %s' % f.qname)


def _zero_before(f, x, ev):
    if x['k'] == 'DeclRefExpr':
        v = ev.env.get(x.get('id'))
        return v == 0
    return True


def rule_sent(S):
    facts = S.facts()
    KT = Y + 'base_node::key_tuple'
    S.rule('R-SENT', 'key_tuple::max() / min() (the cursor\'s +infinity / -infinity): max() is (slice of eight 0xFF bytes, '
                     'the length the slicing constructor gives a key that continues below the slice - the greatest length a '
                     'tuple carries), min() is (0, length 0): under operator< no tuple of a stored entry is greater than '
                     'max() or smaller than min(), so an infinite endpoint excludes nothing')
    ctor = [f for f in facts.by_qname(KT + '::key_tuple') if len(f.params) == 1 and 'string_view' in f.params[0]['type']]
    if not ctor:
        raise AnalysisBroken('R-SENT: slicing constructor of key_tuple not found')
    lens = []
    for n in ctor[0].all_nodes():
        if n['k'] == 'BinaryOperator' and n.get('op') == '=':
            l = ctor[0].strip(ctor[0].ch(n)[0], casts=True)
            if l is not None and l['k'] == 'MemberExpr' and l.get('name') == R.field_of(facts, Y + 'base_node::key_tuple', 'unsigned char', 'length'):
                c = cv_through(ctor[0], ctor[0].ch(n)[1])
                if c is not None:
                    lens.append(c)
    if not lens:
        raise AnalysisBroken('R-SENT: the slicing constructor assigns no constant length (link length unknown)')
    link_len = max(lens)
    for nm, want in (('max', (2 ** 64 - 1, link_len)), ('min', (0, 0))):
        f = facts.one(KT + '::' + nm)
        rets = [n for n in f.all_nodes() if n['k'] == 'ReturnStmt']
        got = None
        for r in rets:
            for x in f.walk(f.ch(r)[0]):
                if x.get('ctor') == KT and len(x.get('args', [])) == 2:
                    vals = [cv_through(f, f.node(a)) for a in x['args']]
                    if all(v is not None for v in vals):
                        got = tuple(vals)
        ok = len(rets) == 1 and got == want
        S.ob('R-SENT', f.qname, 'sentinel value', ok,
             'returns (%s, %s)' % (hex(want[0]), want[1]) if ok else
             'returns %s where (%s, %s) is required: %s' % (
                 got, hex(want[0]), want[1],
                 'a stored tuple (eight 0xFF bytes, length %d) compares greater than max(): the cursor ends before / '
                 'skips keys beginning with eight 0xFF bytes' % link_len if nm == 'max' else
                 'a stored tuple compares smaller than min()'), loc=f.loc)
    uses = sum(1 for g in facts.functions.values() if g.blocks for n in g.all_nodes()
               if n['k'] in CALL_KINDS and n.get('cq') in (KT + '::max', KT + '::min'))
    S.require('R-SENT', 'uses of the sentinels', uses, 4)


def run(S):
    S.undecided = ['that the callers use the comparison results correctly (e.g. which entries move in a split)',
                   'order across layers (full keys)', 'anything for tuples violating zero padding']
    S.assumptions = ['zero-padding invariant of stored slices (R-SLICE decides it for the slicing sites)',
                     'memcmp compares bytes as unsigned char (C standard)']
    rule_cmp(S)
    rule_use(S)
    rule_slice(S)
    rule_sent(S)
    from checks import keylen
    keylen.rule_narrow(S)
