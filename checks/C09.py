"""C09 - operations always complete: no deadlock and no lock left held.

Decided (structural, necessary conditions; DESIGN.md section 5 / C09), all from the E-LOCK analysis:
  R-BAL   lock balance: every function has one lock effect valid for all its exits; API roots have none; no
          function returns with a lock it took itself still held (except through an out-parameter); unlock only
          of held locks
  R-LP    lock_parent returns the locked parent, or nullptr with the root lock held, and holds nothing on retry
  R-ORDL  acquisition order: target with nothing held; previous sibling of a held node; parent/root through
          lock_parent with no previous-sibling lock held; fresh nodes.  Anything else is reported
  R-NSW   no self-wait: no spin on the version of a node whose lock the path holds; no lock() on a held node
  R-RDR   readers take no locks
"""
from yk.facts import AnalysisBroken, CALL_KINDS, is_call, root_var, short_loc
from yk import rules as R
from yk.locks import (LOCK, LOCK_PARENT, ROOT_LOCK, UNLOCK, ROOT_UNLOCK, UNREACHABLE_TAIL_FUNCS, Y, param_relative,
                      tok_str)
from checks.lockfam import lock_analysis, writer_roots


def fname(f):
    return f.qname + ('<%s>' % f.targs if f.targs else '')


_COMPL = {'<': '>=', '>=': '<', '<=': '>', '>': '<=', '==': '!=', '!=': '=='}
_SWAP = {'<': '>', '>': '<', '<=': '>=', '>=': '<=', '==': '==', '!=': '!='}


def _rel_atom(f, cond):
    """(flip, (idA, op, idB)) of a comparison between two local variables, operands ordered by id; None otherwise."""
    c = f.strip(f.node(cond) if not isinstance(cond, dict) else cond)
    flip = False
    while c is not None and c['k'] == 'UnaryOperator' and c.get('op') == '!':
        flip = not flip
        c = f.strip(f.ch(c)[0])
    if c is None or c['k'] != 'BinaryOperator' or c.get('op') not in _COMPL:
        return None
    a, b = f.strip(f.ch(c)[0], casts=True), f.strip(f.ch(c)[1], casts=True)
    if a is None or b is None or a['k'] != 'DeclRefExpr' or b['k'] != 'DeclRefExpr' or not a.get('id') or not b.get('id'):
        return None
    op = c['op']
    if a['id'] > b['id']:
        a, b, op = b, a, _SWAP[op]
    return flip, (a['id'], op, b['id'])


def _search_exhausted_exit(f, ret):
    """True when the return `ret` is entered only through the outcome `index beyond bound` of a test complementary to the
    bound test of a search loop of f (a natural loop that compares an element with a parameter of f): the function looked
    at every element and did not find what its precondition says is there."""
    from yk.flow import natural_loops, block_of
    rb = block_of(f, ret)
    if rb is None:
        return False
    if isinstance(rb, tuple):
        rb = rb[0]
    preds = f.preds().get(rb, [])
    if len(preds) != 1:
        return False
    pb, idx = preds[0]
    t = f.blocks[pb].term
    if not t or 'cond' not in t or len(f.blocks[pb].succ) != 2:
        return False
    ra = _rel_atom(f, t['cond'])
    if ra is None:
        return False
    flip, (a, op, b) = ra
    truth = (idx == 0) != flip
    holds = (a, op if truth else _COMPL[op], b)       # the relation that holds on the edge into the return
    params = {p_['id'] for p_ in f.params}
    for h, body in natural_loops(f).items():
        if pb in body:
            continue
        uses_param = any(y['k'] == 'DeclRefExpr' and y.get('id') in params
                         for bb in body for e_ in f.blocks[bb].elems for y in [f.node(e_)]
                         if y['k'] == 'DeclRefExpr')
        if not uses_param:
            continue
        for bb in body:
            t2 = f.blocks[bb].term
            if not t2 or 'cond' not in t2 or len(f.blocks[bb].succ) != 2:
                continue
            r2 = _rel_atom(f, t2['cond'])
            if r2 is None:
                continue
            fl2, (a2, op2, b2) = r2
            # the relation under which the loop goes on (successor 0 stays in the loop)
            stay = 0 if f.blocks[bb].succ[0] in body else 1
            tr2 = (stay == 0) != fl2
            cont = (a2, op2 if tr2 else _COMPL[op2], b2)
            if (a2, b2) == (a, b) and holds[1] == _COMPL[cont[1]]:
                return True
    return False


def rule_bal(S, la):
    S.rule('R-BAL', 'for every function of the writer call graph the set of locks released-that-were-held-at-entry '
                    'and the set of locks acquired-and-still-held is the same on every exit (the three named '
                    '"unreachable" fall-off tails excepted); API roots (put, remove, create_storage, delete_storage) '
                    'enter and leave with no lock; a lock taken inside a function leaves it only through an '
                    'out-parameter; version_unlock / root_unlock only on locks the path holds')
    roots = {f.fid for f in writer_roots(la.facts)}
    n_funcs = 0
    n_rel = 0
    for fid, effs in sorted(la.effects.items()):
        f = la.funcs[fid]
        if f.qname == LOCK_PARENT:
            continue
        touched = any(e['rel'] or e['keep'] or e['held'] for e in effs) or \
            any(ev['fn'].fid == fid and ev['kind'] in ('acquire', 'release') for ev in la.events)
        if not touched:
            continue
        n_funcs += 1
        considered = []
        for e in effs:
            exempt = e['node'] is None and f.qname in UNREACHABLE_TAIL_FUNCS
            if not exempt and f.qname in UNREACHABLE_TAIL_FUNCS and not e['rel'] and not e['keep'] and \
                    e['node'] is not None and _search_exhausted_exit(f, e['node']):
                # the same tail written as an early return: `if (i > n) return;` behind the search loop `i <= n`
                exempt = True
            if exempt:
                continue
            considered.append(e)
        sigs = {}
        for e in considered:
            sig = (frozenset(e['rel']), frozenset(t for t in e['keep']))
            sigs.setdefault(sig, []).append(e)
        ok = len(sigs) <= 1
        detail = None
        path = None
        loc = f.loc
        if not ok:
            # the minority signature is the suspicious one
            items = sorted(sigs.items(), key=lambda kv: len(kv[1]))
            detail = ['%d exit(s): releases {%s}, keeps {%s}' % (len(v), ', '.join(sorted(tok_str(t) for t in k[0])),
                                                                ', '.join(sorted(tok_str(t) for t in k[1])))
                      for k, v in items]
            e0 = items[0][1][0]
            path = e0['path']
            loc = short_loc(e0['node']) if e0['node'] else f.loc
        S.ob('R-BAL', fname(f), 'one lock effect on all exits (%d exits)' % len(considered), ok,
             'every exit has the same lock effect' if ok else
             'exits disagree about which locks are released / still held: ' + ' | '.join(detail), loc=loc, path=path,
             detail=detail)
        # locally acquired locks still held at an exit
        leaks = [(e, [t for t in e['keep'] if t[0] not in ('out', 'ret')]) for e in considered]
        leaks = [(e, ts) for e, ts in leaks if ts]
        S.ob('R-BAL', fname(f), 'no lock taken here is left held', not leaks,
             'no exit leaves a locally acquired lock held' if not leaks else
             'an exit leaves %s locked' % ', '.join(tok_str(t) for t in leaks[0][1]),
             loc=(short_loc(leaks[0][0]['node']) if leaks and leaks[0][0]['node'] else f.loc),
             path=leaks[0][0]['path'] if leaks else None)
        if fid in roots:
            bad = [e for e in considered if e['rel'] or e['keep'] or e['assumed']]
            S.ob('R-BAL', fname(f), 'API root enters and leaves lock-free', not bad,
                 'no lock is assumed at entry or held at exit' if not bad else
                 'an API root assumes / keeps a lock: %s' % ', '.join(
                     tok_str(t) for t in (bad[0]['assumed'] | bad[0]['keep'])),
                 loc=f.loc, path=bad[0]['path'] if bad else None)
    for ev in la.events:
        if ev['kind'] == 'release':
            n_rel += 1
            S.ob('R-BAL', fname(ev['fn']), 'unlock %s at %s' % (tok_str(ev['token']), ev['loc']), not ev['bad'],
                 'releases a lock the path holds' if not ev['bad'] else ev['what'], loc=ev['loc'],
                 path=ev.get('ctx_path'), nontrivial=True)
    S.require('R-BAL', 'functions with lock effects', n_funcs, 9)
    S.require('R-BAL', 'release sites', n_rel, 30)


def rule_lp(S, la):
    S.rule('R-LP', 'base_node::lock_parent: `return nullptr` is reached with exactly the root lock held, `return p` '
                   'with exactly p locked after re-validating p == get_parent(); every retry iteration starts with '
                   'nothing held')
    f = la.facts.one(LOCK_PARENT)
    effs = la.effects.get(f.fid, [])
    rets = [e for e in effs if e['node'] is not None]
    S.require('R-LP', 'returns of lock_parent', len(rets), 2)
    seen = set()
    for e in rets:
        rt = e['ret']
        held = e['held']
        if rt == ('null',):
            ok = held == frozenset({('ROOT',)})
            site = 'return nullptr'
            want = 'exactly the root lock'
        else:
            ok = held == frozenset({rt})
            site = 'return ' + tok_str(rt)
            want = 'exactly the returned node'
        if site in seen and ok:
            continue
        seen.add(site)
        S.ob('R-LP', f.qname, site, ok, 'returns holding %s' % want if ok else
             'returns holding {%s} instead of %s' % (', '.join(tok_str(t) for t in held), want),
             loc=short_loc(e['node']), path=e['path'])
    S.ob('R-LP', f.qname, 'both outcomes exist', {'return nullptr'} <= seen and len(seen) >= 2,
         'lock_parent can return the root case and a locked parent', loc=f.loc)
    # re-validation: between the acquire and each return there is a comparison with a fresh load
    for ev in la.events:
        if ev['fn'].fid == f.fid and ev['kind'] == 'acquire' and ev.get('bad'):
            S.ob('R-LP', f.qname, 'retry iteration holds nothing', False, ev['what'], loc=ev['loc'],
                 path=ev.get('ctx_path'))
    revalid = 0
    for b, blk in f.blocks.items():
        if blk.term and 'cond' in blk.term and len(blk.succ) == 2:
            from yk.facts import term
            t = term(f, blk.term['cond'])
            s = repr(t)
            if t[0] == 'bin' and t[1] in ('==', '!=') and ('check' in s or 'get_parent' in s or 'load_root_ptr' in s):
                revalid += 1
    S.ob('R-LP', f.qname, 're-validates after locking', revalid >= 2,
         'both the parent case and the root case compare against a re-loaded pointer' if revalid >= 2 else
         'lock_parent no longer re-validates the pointer after taking the lock', loc=f.loc)


ALLOWED = {
    'TARGET': 'a border found by the optimistic descent, with nothing held',
    'PREV': 'the previous sibling of a held border (documented order: next to prev)',
    'PARENT': 'parent or root through lock_parent (documented order: lower to higher)',
    'FRESH': 'a node allocated by this path and not yet published (uncontended)',
}


def rule_ordl(S, la):
    S.rule('R-ORDL', 'every blocking acquisition is one of: the optimistic target with nothing held; prev(h) for a held '
                     'h; lock_parent(h) for a held h with no previous-sibling lock held; a fresh node. Any other '
                     'relation (next of a held node, a child, a second target, a parent while a left sibling is '
                     'held) is reported with the held set')
    n = 0
    for ev in la.events:
        if ev['kind'] != 'acquire' or ev['how'] == 'copy':
            continue
        if ev['fn'].qname == LOCK_PARENT:
            continue  # its own loop is R-LP
        n += 1
        held = ev['held']
        t = ev['token']
        prov = ev['prov']
        ok = True
        why = ''
        if ev['how'] == 'lock_parent':
            src = ev.get('src')
            prevs = [h for h in held if h[0] == 'prev']
            if prevs:
                ok, why = False, 'takes the parent lock while the previous-sibling lock %s is still held' % tok_str(prevs[0])
            elif src is not None and src not in held and not (param_relative(src)):
                ok, why = False, 'takes the parent lock of %s without holding %s' % (tok_str(src), tok_str(src))
            else:
                why = ALLOWED['PARENT']
        elif ev['how'] == 'root_lock':
            why = 'root lock'
        elif prov == 'FRESH' or ev.get('fresh'):
            why = ALLOWED['FRESH']
        elif prov == 'TARGET':
            if held:
                ok, why = False, 'locks the optimistic target while already holding {%s}' % ', '.join(
                    tok_str(h) for h in held)
            else:
                why = ALLOWED['TARGET']
        elif prov == 'PREV':
            if t[1] in held or param_relative(t[1]):
                why = ALLOWED['PREV']
            else:
                ok, why = False, 'locks prev(%s) without holding %s' % (tok_str(t[1]), tok_str(t[1]))
        else:
            ok, why = False, 'acquisition of %s (%s of a held node / unknown origin) while holding {%s} is outside the ' \
                'documented order' % (tok_str(t), prov.lower(), ', '.join(tok_str(h) for h in held))
        S.ob('R-ORDL', fname(ev['fn']), 'acquire %s (%s) at %s' % (tok_str(t), ev['how'], ev['loc']), ok, why,
             loc=ev['loc'], path=ev.get('ctx_path'))
    S.require('R-ORDL', 'blocking acquire sites', n, 9)


def rule_nsw(S, la):
    S.rule('R-NSW', 'no call that spins on a node version (get_stable_version, get_lv_of, get_child_of, lock) has a '
                    'receiver whose lock the path already holds')
    n = 0
    for ev in la.events:
        if ev['kind'] == 'spin' or (ev['kind'] == 'acquire' and ev['how'] == 'lock'):
            n += 1
            S.ob('R-NSW', fname(ev['fn']), '%s on %s at %s' % (
                (ev.get('callee') or 'lock').replace(Y, ''), tok_str(ev['token']), ev['loc']),
                 not ev['bad'], 'receiver is not locked by this path' if not ev['bad'] else ev['what'],
                 loc=ev['loc'], path=ev.get('ctx_path'))
    S.require('R-NSW', 'spin / lock sites in the writer call graph', n, 12)


def rule_rdr(S, la):
    facts = la.facts
    S.rule('R-RDR', 'the call graphs of get, scan, scan_border, iscan_findfirst, iscan_findnext, iscan_next, '
                    'find_border and interior_node::get_child_of contain no lock acquisition')
    ACQ = {LOCK, ROOT_LOCK, LOCK_PARENT, Y + 'node_version64::lock'}
    names = [Y + 'get', Y + 'scan', Y + 'scan_border', Y + 'iscan_findfirst', Y + 'iscan_findnext', Y + 'iscan_next',
             Y + 'find_border', Y + 'interior_node::get_child_of', Y + 'border_node::get_lv_of',
             Y + 'scan_check_retry', Y + 'iscan_check_retry']
    n = 0
    for q in names:
        fs = [f for f in facts.by_qname(q) if not f.is_lambda]
        if not fs:
            raise AnalysisBroken('R-RDR: reader %s not found' % q)
        for f in fs:
            if f.qname == Y + 'get' and 'tree_instance *' not in f.params[0]['type']:
                continue  # name-based get goes through find_storage -> get(ti): covered
            reach = R.reachable_funcs(facts, [f], stop=lambda g: g.qname.startswith(Y + 'storage::'))
            bad = []
            for g in reach.values():
                for x in g.all_nodes():
                    if x['k'] in CALL_KINDS and x.get('cq') in ACQ:
                        bad.append((g, x))
            n += 1
            S.ob('R-RDR', fname(f), 'call graph (%d functions)' % len(reach), not bad,
                 'takes no lock' if not bad else 'reader reaches %s in %s' % (
                     bad[0][1]['cq'].replace(Y, ''), bad[0][0].qname),
                 loc=short_loc(bad[0][1]) if bad else f.loc)
    S.require('R-RDR', 'reader entry points', n, 12)


def rule_wait(S, la):
    """R-WAIT: a lock-free reader never parks itself until a version word *changes*."""
    facts = la.facts
    S.rule('R-WAIT', 'in the call graphs of the lock-free readers no loop consists of nothing but re-loading a version '
                     'word (get_stable_version / get_body / pause) and continues while the fresh value EQUALS an earlier '
                     'snapshot: nobody is obliged to change that word again, so the reader may wait for ever (re-sampling '
                     'until two loads agree, or until lock / dirty bits clear, is the accepted idiom)')
    names = [Y + 'get', Y + 'scan', Y + 'scan_border', Y + 'iscan_findfirst', Y + 'iscan_findnext', Y + 'iscan_next',
             Y + 'find_border', Y + 'interior_node::get_child_of', Y + 'border_node::get_lv_of',
             Y + 'scan_check_retry', Y + 'iscan_check_retry']
    WAIT_OK = ('get_stable_version', 'get_body', 'get_version', '_mm_pause', 'sleep_for', 'yield', 'operator==',
               'operator!=', 'operator=', 'load', 'microseconds', 'milliseconds', 'duration')
    roots = [f for q in names for f in facts.by_qname(q) if not f.is_lambda]
    reach = R.reachable_funcs(facts, roots, stop=lambda g: g.qname.startswith(Y + 'storage::'))
    nloops = 0
    for g in sorted(reach.values(), key=lambda x: x.fid):
        if not g.blocks:
            continue
        # natural loops: one per back edge u -> h (h dominates u)
        from yk.flow import dominators
        dom = dominators(g)
        preds = g.preds()
        comps = []
        for u in dom:
            for h in g.blocks[u].succ:
                if h is not None and h in dom.get(u, ()):
                    body = {h, u}
                    work = [u] if u != h else []
                    while work:
                        x = work.pop()
                        for (pb, _) in preds.get(x, []):
                            if pb not in body and pb in dom:
                                body.add(pb)
                                work.append(pb)
                    comps.append(sorted(body))
        for comp in comps:
            cs = set(comp)
            nloops += 1
            calls = [g.node(e) for b in comp for e in g.blocks[b].elems if g.node(e)['k'] in CALL_KINDS or
                     g.node(e)['k'] == 'CXXConstructExpr']
            pure = all(any(w in (c.get('cn') or c.get('cq') or c.get('ty') or '') for w in WAIT_OK) or
                       (c.get('cq') or '').startswith(Y + 'node_version64_body::') for c in calls)
            reloads = any((c.get('cn') or '') in ('get_stable_version', 'get_body', 'get_version') for c in calls)
            if not (pure and reloads):
                continue
            # an exit test that stays in the loop on the EQUAL edge of a comparison of two version words
            for b in comp:
                blk = g.blocks[b]
                t = blk.term
                if not t or 'cond' not in t or len(blk.succ) != 2:
                    continue
                stay = [i for i, x in enumerate(blk.succ) if x in cs]
                if len(stay) != 1:
                    continue
                c = g.strip(g.node(t['cond']))
                flip = False
                while c is not None and c['k'] == 'UnaryOperator' and c.get('op') == '!':
                    flip = not flip
                    c = g.strip(g.ch(c)[0])
                if c is None:
                    continue
                op = None
                if c['k'] == 'CXXOperatorCallExpr' and c.get('cn') in ('operator==', 'operator!='):
                    op = '==' if c['cn'] == 'operator==' else '!='
                    tys = [(g.strip(g.node(a), casts=True) or {}).get('ty', '') for a in c.get('args', [])]
                elif c['k'] == 'BinaryOperator' and c.get('op') in ('==', '!='):
                    op = c['op']
                    tys = [(g.strip(x, casts=True) or {}).get('ty', '') for x in g.ch(c)]
                if op is None or not any('node_version64_body' in (ty or '') for ty in tys):
                    continue
                truth = (stay[0] == 0) != flip
                equal_stays = truth if op == '==' else not truth
                S.ob('R-WAIT', fname(g), 'wait loop at ' + short_loc(c), not equal_stays,
                     're-samples until two loads agree' if not equal_stays else
                     'spins while a freshly loaded version still equals an earlier snapshot, i.e. until somebody changes '
                     'the node again: if the change it waits for already happened (or never comes) the reader never '
                     'returns', loc=short_loc(c))
    S.count('R-WAIT: loops inspected in the reader call graphs', nloops)
    S.require('R-WAIT', 'loops in the reader call graphs', nloops, 10)


def rule_nul(S):
    """R-NUL: an inline value type has no 'cleared slot' marker (finding of seed C09f)."""
    from yk.flow import Explorer
    from checks import occ
    facts = S.facts()
    S.rule('R-NUL', 'readers instantiated for an inline value type (the payload word is the value itself): no retry - a '
                    '`goto`, or a return of an OK_RETRY_* status - is taken on the ground that the word loaded from the '
                    'slot (link_or_value::get_value) is null: an all-zero payload is a legitimate stored value there, the '
                    'version does not change and nobody is obliged to change the slot, so the reader would re-read the '
                    'same word for ever (for out-of-line types null does mean "cleared by a remove": R-RV)')
    RETRY = {Y + 'status::OK_RETRY_FROM_ROOT', Y + 'status::OK_RETRY_AFTER_FB', Y + 'status::WARN_RETRY_FROM_ROOT_OF_ALL'}
    n_inst = 0
    n_tests = 0
    for q in (Y + 'get', Y + 'scan_border', Y + 'iscan_findfirst', Y + 'iscan_findnext'):
        for f in sorted(facts.by_qname(q), key=lambda x: x.fid):
            if f.is_lambda or not f.blocks or not f.targs:
                continue
            if occ.inline_instantiation(facts, f.targs.split(',')[0].strip()) is not True:
                continue
            if not any(is_call(n, cq=Y + 'link_or_value::get_value') for n in f.all_nodes()):
                continue
            n_inst += 1
            slot_vars = {v['id'] for n in f.all_nodes() if n['k'] == 'DeclStmt' for v in n.get('vars', [])
                         if 'init' in v and any(is_call(x, cq=Y + 'link_or_value::get_value') for x in f.walk(v['init']))}
            for n in f.all_nodes():
                if n['k'] == 'BinaryOperator' and n.get('op') == '=' and \
                        any(is_call(x, cq=Y + 'link_or_value::get_value') for x in f.walk(f.ch(n)[1])):
                    rv = root_var(f, f.ch(n)[0])
                    if rv:
                        slot_vars.add(rv)
            sites = {}

            def is_slot(x):
                x = f.strip(x, casts=True)
                return x is not None and x['k'] == 'DeclRefExpr' and x.get('id') in slot_vars

            def step(ctx, nd, st):
                if nd['k'] == 'ReturnStmt':
                    if st == 'null' and R.ret_const(f, nd) in RETRY:
                        sites.setdefault(short_loc(nd), ctx.witness())
                    return None
                if is_call(nd, cq=Y + 'link_or_value::get_value'):
                    return 'fresh'
                return st

            def branch(ctx, blk, idx, st):
                nonlocal n_tests
                if blk.term and blk.term.get('k') == 'GotoStmt':
                    if st == 'null':
                        sites.setdefault(short_loc(blk.term), ctx.witness())
                    return st
                if not (blk.term and 'cond' in blk.term and len(blk.succ) == 2):
                    return st
                c = f.strip(blk.term['cond'], casts=True)
                truth = idx == 0
                while c is not None and c['k'] == 'UnaryOperator' and c.get('op') == '!':
                    truth = not truth
                    c = f.strip(f.ch(c)[0], casts=True)
                if c is None:
                    return st
                isnull = None
                if is_slot(c):
                    isnull = not truth
                elif c['k'] == 'BinaryOperator' and c.get('op') in ('==', '!='):
                    l, r = f.ch(c)
                    for x, y in ((l, r), (r, l)):
                        if is_slot(x) and R.const_of(f, y) == 'null':
                            isnull = truth == (c['op'] == '==')
                if isnull is None:
                    return st
                n_tests += 1
                return 'null' if isnull else 'fresh'

            Explorer(f, step, branch).run('fresh')
            fname_ = f.qname + '<%s>' % f.targs
            S.ob('R-NUL', fname_, 'no retry on a null payload', not sites,
                 'an inline payload of zero is delivered like any other value' if not sites else
                 'for this inline value type the reader retries because the slot word is null (at %s): a stored 0 / nullptr '
                 'makes it re-read the same word for ever' % sorted(sites)[0],
                 loc=sorted(sites)[0] if sites else f.loc, path=sites[sorted(sites)[0]] if sites else None)
    S.require('R-NUL', 'reader instantiations for inline value types', n_inst, 2)


def run(S):
    S.undecided = ['termination of the optimistic retry loops and of get_child_of\'s wait loop under fair schedules '
                   '(livelock / starvation)',
                   'a reader spinning on a node whose writer is itself legitimately blocked in the lock order']
    S.assumptions = ['node pointers are named structurally (variable, this, prev/next/parent/child of a token); two '
                     'different tokens are assumed to denote different nodes',
                     'the three named fall-off tails (key/child not found under the lock) are unreachable: the caller '
                     're-looked the entry up under the same lock']
    la = lock_analysis(S.facts())
    S.count('E-LOCK: functions analysed', len(la.funcs))
    S.count('E-LOCK: CFG visits', la.visits)
    S.count('E-LOCK: fixpoint iterations', la.iterations)
    rule_bal(S, la)
    rule_lp(S, la)
    rule_ordl(S, la)
    rule_nsw(S, la)
    rule_rdr(S, la)
    rule_wait(S, la)
    rule_nul(S)
    # a reader that follows a link it did not validate can end up in a dead node whose version tells it to retry
    # for ever (shared with C01)
    from checks.C01 import rule_var
    rule_var(S)
    # the cursor's stale-root handling must not retry without progress on an emptied tree (shared with C10)
    from checks.C10 import rule_end0
    rule_end0(S)
    # the lock word itself: a stale or non-atomic update of the version word can re-set the lock bit after the
    # owner released it (shared with C17)
    from checks.C17 import rule_casl, rule_mx
    rule_casl(S)
    rule_mx(S)
    # lock-protects-field: a link (prev_, parent_) written after its guarding lock was dropped can be left pointing at
    # a deleted node, on which retry_prev_lock / lock_parent then spin forever (shared with C08)
    from checks.C08 import rule_mul, rule_sib
    rule_mul(S, la)
    # a revived root that kept a link to its retired sibling makes every backward cursor retry for ever (finding F13)
    rule_sib(S)
