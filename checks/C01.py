"""C01 - point operations (put/get/remove) on a storage are linearizable.

Decided (obligations of the optimistic concurrency protocol, each a necessary condition; DESIGN.md section 5 / C01):
  R-VAR     validate-after-read in get<V> and in the layer descents of put<V> / remove
  R-RV      remove-visible validation of the value exit of get<V> (out-of-line value types)
  R-LOOKUP  border_node::get_lv_of returns only under two equal stable versions around its reads, using one
            permutation snapshot per iteration
  R-WUL     writers re-validate under the lock (and re-look the entry up) before mutating
  R-DBM     dirty-before-mutate: structural stores on a published node happen under a dirty bit
"""
from yk.facts import (AnalysisBroken, CALL_KINDS, call_args, call_recv, is_call, root_var, short_loc, term, vname)
from yk.flow import Explorer
from yk import rules as R
from yk.locks import Y, tok_str
from checks import occ
from checks.lockfam import lock_analysis
from checks.C09 import fname


def ti_overloads(facts, q, idx):
    return [f for f in facts.by_qname(q) if len(f.params) > idx and f.params[idx]['type'] == 'yakushima::tree_instance *']


def rule_var(S):
    facts = S.facts()
    S.rule('R-VAR', 'get<V>, put<V>, remove: a slot word loaded through the link_or_value found by get_lv_of reaches a '
                    'success exit (return OK with the value / descent into the loaded next-layer root) only on paths '
                    'where a stable version of the same border, loaded after the slot, satisfies: vsplit equal to the '
                    'version of the descent, not deleted (or still a root), vinsert_delete equal to the version '
                    'get_lv_of validated')
    S.rule('R-PLC', 'get<V>, put<V>, remove: before the result of get_lv_of is used (slot load, miss report) the version '
                    'it validated is established to have the vsplit of the descent and not to be deleted (unless still '
                    'a root): the border may have been split or unlinked between find_border and the lookup')
    S.rule('R-RV', 'get<V> for out-of-line value types: the value exit additionally establishes that the loaded word '
                   'is not the cleared state (or re-compares the permutation): a remove clears the slot and shrinks '
                   'the permutation without changing the version word')
    ne = nd = nr = 0
    for f in ti_overloads(facts, Y + 'get', 0):
        inl = occ.inline_instantiation(facts, f.targs)
        e, d, r, _ = occ.point_reader(S, f, check_rv=(inl is False))
        if inl is not False:
            S.note('get<%s>: inline value type (or no put instantiation) - R-RV not applicable: delete_at never '
                   'clears an inline slot' % f.targs)
        ne, nd, nr = ne + e, nd + d, nr + (r if inl is False else 0)
    S.require('R-VAR', 'value exits of get', ne, 2)
    S.require('R-VAR', 'layer descents of get', nd, 2)
    S.require('R-RV', 'value exits of get for out-of-line value types', nr, 1)
    nd2 = 0
    for f in ti_overloads(facts, Y + 'put', 1) + ti_overloads(facts, Y + 'remove', 1):
        e, d, r, _ = occ.point_reader(S, f, check_rv=False, success_status={'never'})
        nd2 += d
    S.require('R-VAR', 'layer descents of put / remove', nd2, 3)


def rule_lookup(S):
    facts = S.facts()
    S.rule('R-LOOKUP', 'border_node::get_lv_of: every return is reached through the equal edge of a comparison of two '
                       'stable versions, the second loaded after the last read of keys / permutation / slots of that '
                       'iteration; the out-version is one of the compared versions; the permutation is loaded once per '
                       'iteration into a local and every rank->index lookup uses that local')
    f = facts.one(Y + 'border_node::get_lv_of')
    READS = {Y + 'base_node::get_key_slice_at', Y + 'base_node::get_key_length_at', Y + 'border_node::get_lv_at',
             Y + 'permutation::get_body', Y + 'permutation::get_index_of_rank', Y + 'permutation::get_cnk',
             Y + 'border_node::get_permutation_cnk'}
    rets = {}
    outv = [p['id'] for p in f.params if p['type'].replace(' ', '') == 'yakushima::node_version64_body&']

    def step(ctx, n, st):
        last_sv, dirty, validated, pair, outset = st
        if n['k'] in CALL_KINDS and n.get('cq') in READS:
            rv = root_var(f, call_recv(f, n))
            if rv == 'this' or rv is None:
                return (last_sv, True, False, None, None)
            return st
        if is_call(n, cq=occ.STABLE):
            p = f.parent(n)
            var = None
            if p is not None and p['k'] == 'DeclStmt':
                var = p['vars'][0]['id']
            elif p is not None and p['k'] == 'BinaryOperator' and p.get('op') == '=':
                var = root_var(f, f.ch(p)[0])
            return (var, False, False, None, outset)
        if n['k'] == 'CXXOperatorCallExpr' and n.get('cn') == 'operator=' and n.get('mcls') == 'yakushima::node_version64_body':
            a = [root_var(f, x) for x in n.get('args', [])]
            if outv and a and a[0] == outv[0]:
                return (last_sv, dirty, validated, pair, a[1])
        if n['k'] == 'ReturnStmt':
            site = R.ret_desc(f, n)
            e = rets.setdefault(site, {'ok': True, 'loc': short_loc(n), 'path': None, 'why': ''})
            why = None
            if not validated:
                why = 'returns without two equal stable versions around the reads'
            elif outv and (pair is None or outset not in pair):
                why = 'the reported version is not one of the two compared versions'
            if why:
                e['ok'] = False
                e['why'] = why
                e['path'] = e['path'] or ctx.witness()
            return None
        return st

    def branch(ctx, blk, idx, st):
        last_sv, dirty, validated, pair, outset = st
        if blk.term and 'cond' in blk.term and len(blk.succ) == 2:
            c = f.strip(blk.term['cond'], casts=True)
            if c is not None and c['k'] == 'CXXOperatorCallExpr' and c.get('cn') in ('operator==', 'operator!=') and \
                    c.get('mcls') == 'yakushima::node_version64_body':
                a = [root_var(f, x) for x in c.get('args', [])]
                eq = (idx == 0) == (c['cn'] == 'operator==')
                if eq and last_sv in a and not dirty and len(set(a)) == 2:
                    return (last_sv, dirty, True, tuple(a), outset)
                return (last_sv, dirty, False, None, outset)
        return st

    Explorer(f, step, branch).run((None, True, False, None, None))
    S.require('R-LOOKUP', 'returns of get_lv_of', len(rets), 1)
    for site, e in sorted(rets.items()):
        S.ob('R-LOOKUP', f.qname, site, e['ok'], 'validated lookup' if e['ok'] else e['why'], loc=e['loc'], path=e['path'])
    # one permutation snapshot
    snap_rule(S, f, 'R-LOOKUP')


def perm_wrappers(facts):
    """Functions whose body reads part of the permutation word of `this` (member permutation_) - e.g.
    border_node::get_permutation_cnk: calling one on a shared node is a live, partial read of the word."""
    if '_perm_wrappers' in facts.__dict__:
        return facts.__dict__['_perm_wrappers']
    direct = set()
    for g in facts.functions.values():
        if not g.blocks or g.qname.startswith(Y + 'permutation::'):
            continue
        for x in g.all_nodes():
            if x['k'] in CALL_KINDS and (x.get('cq') or '').startswith(Y + 'permutation::') and \
                    x.get('cn') not in ('get_body', 'permutation'):
                r = g.strip(call_recv(g, x), casts=True) if call_recv(g, x) is not None else None
                if r is not None and r['k'] == 'MemberExpr' and (r.get('name') == R.field_of(facts, Y + 'border_node', 'yakushima::permutation', 'permutation word')) and \
                        root_var(g, r) == 'this':
                    direct.add(g.fid)
    facts.__dict__['_perm_wrappers'] = direct
    return direct


NODE_CLASSES = (Y + 'border_node::', Y + 'base_node::', Y + 'interior_node::')


def _private_word(f, r):
    """A permutation object that is a field of reader-private state (the cursor's saved word): a member chain with no
    member of a node class and no call in it, rooted in a local variable that is not a node."""
    while r is not None and r['k'] == 'MemberExpr':
        if (r.get('member') or '').startswith(NODE_CLASSES) or not r.get('member'):
            return False
        r = f.strip(f.ch(r)[0], casts=True) if f.ch(r) else None
    return r is not None and r['k'] == 'DeclRefExpr' and r.get('dk') == 'var' and \
        not any(c.rstrip(':').split('::')[-1] in (r.get('ty') or '') for c in NODE_CLASSES)


def snap_rule(S, f, rule):
    """A reader consumes the permutation word through ONE local snapshot: the only live read of the shared word is the
    whole-word load (get_body) that initialises the snapshot; rank / count lookups go through the local copy; calls of
    node accessors that read part of the live word (e.g. get_permutation_cnk) are live partial reads."""
    facts = S.facts()
    wraps = perm_wrappers(facts)
    bad = []
    n = 0
    for x in f.all_nodes():
        if x['k'] in CALL_KINDS and (x.get('cq') or '').startswith(Y + 'permutation::') and \
                x.get('cn') not in ('get_body', 'set_body', 'permutation'):
            n += 1
            rv = root_var(f, call_recv(f, x))
            r = f.strip(call_recv(f, x), casts=True)
            local = rv is not None and rv != 'this' and r is not None and r['k'] == 'DeclRefExpr' and \
                'permutation' in (r.get('ty') or '')
            if not local and not _private_word(f, r):
                bad.append(x)
        elif x['k'] in CALL_KINDS and x.get('callee') in wraps:
            n += 1
            bad.append(x)
    S.ob(rule, f.qname + ('<%s>' % f.targs if f.targs else ''), 'permutation snapshot (%d lookups)' % n,
         not bad and n > 0,
         'every rank / count lookup uses the local snapshot' if (not bad and n > 0) else
         ('a rank / count lookup reads the shared permutation word again instead of the snapshot (%s): order and count '
          'can come from two different words, e.g. around a remove, which no version check notices' %
          ', '.join(sorted({(b.get('cn') or '?') for b in bad})) if bad else 'no rank lookups found'),
         loc=short_loc(bad[0]) if bad else f.loc)


def rule_wul(S):
    facts = S.facts()
    S.rule('R-WUL', 'put<V>, remove: insert_lv / link_or_value::set_value / delete_of<true> on the optimistically found '
                    'border are reached only after lock() on it and, on the locked node, the negative edges of '
                    '`deleted && !root`, `vsplit != version of the descent`, `vinsert_delete != version of get_lv_of`; '
                    'the update and remove paths re-look the entry up under the lock and proceed only when it is found')
    kinds = {}
    for f in ti_overloads(facts, Y + 'put', 1) + ti_overloads(facts, Y + 'remove', 1):
        sites = occ.writer_revalidate(S, f)
        for s, e in sites.items():
            kinds[e['kind']] = kinds.get(e['kind'], 0) + 1
    for k in ('insert', 'update', 'remove'):
        if not kinds.get(k):
            raise AnalysisBroken('R-WUL: no %s mutation site found in put/remove' % k)


def rule_dbm(S):
    la = lock_analysis(S.facts())
    S.rule('R-DBM', 'every structural store on a published node (key arrays, permutation insert/split, entry moves, '
                    'children, n_keys, shifts) is reached with inserting_deleting or splitting set on that node by the '
                    'same path (helper requirements are checked at their call sites); frozen exceptions: the border '
                    'remove path (deletes are not counted), slot-word stores (value overwrite, layer-root replacement), '
                    'interior_node::swap_child in the last-sibling promotion')
    n = 0
    for ev in la.events:
        if ev['kind'] == 'mutate' and ev.get('level') == 'D':
            n += 1
            bad = ev['bad']
            S.ob('R-DBM', fname(ev['fn']), '%s on %s at %s' % (ev['callee'].replace(Y, ''), tok_str(ev['token']), ev['loc']),
                 not bad, 'under a dirty bit (%s)' % ('fresh node' if ev.get('fresh') else '/'.join(sorted(ev.get('dirty') or []))) if not bad
                 else ev['what'], loc=ev['loc'], path=ev.get('ctx_path'))
        elif ev['kind'] == 'callneed' and ev.get('level') in ('D', 'F'):
            n += 1
            S.ob('R-DBM', fname(ev['fn']), 'call %s needs %s %s at %s' % (
                ev['callee'].qname.replace(Y, ''), tok_str(ev['token']),
                'dirty' if ev['level'] == 'D' else 'unpublished', ev['loc']), not ev['bad'],
                'requirement of the helper holds at the call site' if not ev['bad'] else ev['what'], loc=ev['loc'],
                path=ev.get('ctx_path'))
    S.require('R-DBM', 'structural store / helper-requirement sites', n, 25)
    sets = [ev for ev in la.events if ev['kind'] == 'setdirty' and ev['on']]
    S.require('R-DBM', 'dirty-bit set sites', len({(e['fn'].fid, e['loc']) for e in sets}), 7)


def rule_desc(S):
    facts = S.facts()
    S.rule('R-DESC', 'descent (hand-over-hand validation): interior_node::get_child_of returns a non-null child only on the '
                     'path where the child pointer was read, then the child\'s stable version, then the parent\'s stable '
                     'version, the parent version equals the one the caller validated and the child is not deleted, and '
                     'the caller\'s version is replaced by the child\'s; a vsplit change / deletion of the parent returns '
                     'nullptr; find_border returns a border only for a version whose border flag was tested, restarts on '
                     'a null child, and reports a non-root start node as WARN_RETRY_FROM_ROOT_OF_ALL with a null border')
    f = facts.one(Y + 'interior_node::get_child_of')
    vparam = [p['id'] for p in f.params if 'node_version64_body' in p['type']][0]
    rets = {}

    def step(ctx, nd, st):
        child, cv, pv, ok_edge, vset, atoms = st
        if nd['k'] == 'BinaryOperator' and nd.get('op') == '=':
            l = f.strip(f.ch(nd)[0])
            r = f.strip(f.ch(nd)[1], casts=True)
            if l is not None and l['k'] == 'DeclRefExpr' and (l.get('ty') or '') == 'yakushima::base_node *':
                if R.const_of(f, f.ch(nd)[1]) == 'null':
                    return ('null', None, None, False, False, frozenset())
                if any(x['k'] == 'MemberExpr' and x.get('name') == R.field_of(facts, Y + 'interior_node', 'std::array<yakushima::base_node *', 'child array') for x in f.walk(f.ch(nd)[1])):
                    return (l['id'], None, None, False, False, frozenset())
        if is_call(nd, cq=occ.STABLE):
            rv = root_var(f, call_recv(f, nd))
            var = R.assigned_var(f, nd)
            if rv == child and child not in (None, 'null'):
                return (child, var, None, False, False, frozenset())
            if rv == 'this' and cv is not None:
                return (child, cv, var, False, False, frozenset())
            if rv == 'this':
                return (child, cv, None, False, False, frozenset())
        if nd['k'] == 'CXXOperatorCallExpr' and nd.get('cn') == 'operator=' and nd.get('mcls') == Y + 'node_version64_body':
            a = [root_var(f, x) for x in nd.get('args', [])]
            if a and a[0] == vparam:
                return (child, cv, pv, ok_edge, a[1] == cv and cv is not None, atoms)
        if nd['k'] == 'ReturnStmt':
            rv = root_var(f, f.ch(nd)[0]) if f.ch(nd) else None
            nonnull = child not in (None, 'null') and rv == child
            d = dict(atoms)
            e = rets.setdefault('return (child %s)' % ('non-null' if nonnull else 'null'),
                                {'ok': True, 'loc': short_loc(nd), 'path': None, 'why': ''})
            if nonnull and not (cv and pv and ok_edge and vset):
                e['ok'] = False
                e['path'] = e['path'] or ctx.witness()
                e['why'] = 'a child is returned without: %s' % ', '.join(
                    w for w, c in (('child version loaded after the pointer', cv), ('parent version re-loaded after it', pv),
                                   ('parent unchanged and child not deleted', ok_edge),
                                   ('caller version := child version', vset)) if not c)
            return None
        return st

    def branch(ctx, blk, idx, st):
        child, cv, pv, ok_edge, vset, atoms = st
        if blk.term and 'cond' in blk.term and len(blk.succ) == 2:
            flip, shape = R.cond_shape(f, blk.term['cond'])
            if shape[0] == 'nonnull' and shape[1] == child and not ((idx == 0) != flip):
                return ('null', None, None, False, False, frozenset())
            c = f.strip(blk.term['cond'], casts=True)
            t = term(f, blk.term['cond'])
            d = dict(atoms)
            if c is not None and c['k'] == 'CXXOperatorCallExpr' and c.get('cn') in ('operator==', 'operator!=') and \
                    c.get('mcls') == Y + 'node_version64_body':
                a = {root_var(f, x) for x in c.get('args', [])}
                if a == {vparam, pv}:
                    d['peq'] = (idx == 0) == (c['cn'] == 'operator==')
            neg = False
            u = t
            while u[0] == 'un' and u[1] == '!':
                neg = not neg
                u = u[2]
            if u[0] == 'call' and u[1] == occ.VB + 'get_deleted' and cv and u[2] == ('var', vname(cv)):
                d['cdel'] = (idx == 0) != neg
            atoms = frozenset(d.items())
            ok_edge = d.get('peq') is True and d.get('cdel') is False
        return (child, cv, pv, ok_edge, vset, atoms)

    Explorer(f, step, branch).run((None, None, None, False, False, frozenset()))
    S.require('R-DESC', 'returns of get_child_of', len(rets), 1)
    for site, e in sorted(rets.items()):
        S.ob('R-DESC', f.qname, site, e['ok'], 'hand-over-hand validated' if e['ok'] else e['why'], loc=e['loc'],
             path=e['path'])
    has_nonnull = any('non-null' in k for k in rets)
    S.ob('R-DESC', f.qname, 'a validated child can be returned', has_nonnull, 'yes' if has_nonnull else
         'get_child_of never returns a child', loc=f.loc)
    g = facts.one(Y + 'find_border')
    res = {}

    child_vars = {v['id'] for n in g.all_nodes() if n['k'] == 'DeclStmt' for v in n.get('vars', [])
                  if 'init' in v and any(is_call(x, cq=Y + 'interior_node::get_child_of') for x in g.walk(v['init']))}
    restarts = {'seen': False, 'bad': None}

    def step2(ctx, nd, st):
        border_known, fs, nullchild = st
        fs = R.track_assign(g, nd, fs, facts)
        if is_call(nd, cq=occ.STABLE) and nullchild:
            # the descent starts over: a fresh stable version is taken (of the root)
            restarts['seen'] = True
            return (False, fs, False)
        if nd['k'] == 'ReturnStmt':
            t = term(g, g.ch(nd)[0]) if g.ch(nd) else None
            isnull = t is not None and t[0] == 'call' and t[3] and t[3][0] == ('null',)
            trail = R.branch_trail(ctx.ex, ctx.key, g, 1)
            e = res.setdefault('return after [%s]' % '; '.join(trail), {'ok': True, 'loc': short_loc(nd), 'path': None})
            if not isnull and not border_known:
                e['ok'] = False
                e['path'] = ctx.witness()
            if nullchild and not isnull and restarts['bad'] is None:
                restarts['bad'] = ctx.witness()
            return None
        return (border_known, fs, nullchild)

    def branch2(ctx, blk, idx, st):
        border_known, fs, nullchild = st
        fs = R.refine(g, blk, idx, fs)
        if fs is None:
            return None
        st = (border_known, fs, nullchild)
        if blk.term and 'cond' in blk.term and len(blk.succ) == 2:
            t = term(g, blk.term['cond'])
            if t[0] == 'bin' and t[1] in ('==', '!=') and ('null',) in (t[2], t[3]):
                o = t[2] if t[3] == ('null',) else t[3]
                if o[0] == 'var' and any(vname(v) == o[1] for v in child_vars) and ((idx == 0) == (t[1] == '==')):
                    return (border_known, fs, True)
            neg = False
            while t[0] == 'un' and t[1] == '!':
                neg = not neg
                t = t[2]
            if t[0] == 'call' and t[1] == occ.VB + 'get_border':
                return (((idx == 0) != neg), fs, nullchild)
            if t[0] == 'call' and t[1] == occ.VB + 'get_deleted' and ((idx == 0) != neg):
                return (True, fs, nullchild)   # deleted root: by construction a border (the empty root), the caller checks
        return st

    Explorer(g, step2, branch2).run((False, frozenset(), False))
    S.require('R-DESC', 'returns of find_border', len(res), 2)
    for site, e in sorted(res.items()):
        S.ob('R-DESC', g.qname, site, e['ok'], 'a node is returned as border only after its border flag (or the '
             'deleted-root case) was tested on the validated version' if e['ok'] else
             'find_border returns a node as border without having tested the border flag of its version',
             loc=e['loc'], path=e['path'])
    restart = restarts['seen'] and restarts['bad'] is None
    S.ob('R-DESC', g.qname, 'restart on a null child', restart,
         'after a null child every path takes a fresh stable version (starts over) before it can return a node' if restart
         else 'find_border no longer restarts when get_child_of detects a structure change', loc=g.loc,
         path=restarts['bad'])


def run(S):
    S.undecided = ['existence of a linearization for every history',
                   'memory-model adequacy of the acquire/release annotations',
                   'that the version comparisons are sufficient (ABA on 29-bit counters)',
                   'uniqueness semantics under races']
    S.assumptions = ['readers are recognised by the events get_lv_of / slot load / get_stable_version and by '
                     'comparisons of node_version64_body getters; a differently structured validation is reported as '
                     'a violation or as analysis-broken, never accepted silently']
    rule_var(S)
    rule_lookup(S)
    rule_desc(S)
    rule_wul(S)
    rule_dbm(S)
    # R-MUL mutate-under-lock and the link/parent pairing (shared with C08, as planned in DESIGN section 5 / C01)
    from checks.C08 import rule_mul, rule_link
    la = lock_analysis(S.facts())
    rule_mul(S, la)
    rule_link(S, la)
    from checks.C08 import rule_move
    rule_move(S)
    # mechanisms this property rests on (checks/shared.py)
    from checks import shared
    shared.version_word(S)
    shared.permutation_word(S)
    shared.key_order(S)
    shared.value_words(S)
    shared.names(S, ('yakushima::get', 'yakushima::put', 'yakushima::remove'))
    shared.gc_safety(S)
