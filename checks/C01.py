"""C01 - point operations (put/get/remove) on a storage are linearizable.

Decided (obligations of the optimistic concurrency protocol, each a necessary condition; DESIGN.md section 5 / C01):
  R-VAR     validate-after-read in get<V> and in the layer descents of put<V> / remove
  R-RV      remove-visible validation of the value exit of get<V> (out-of-line value types)
  R-LOOKUP  border_node::get_lv_of returns only under two equal stable versions around its reads, using one
            permutation snapshot per iteration
  R-WUL     writers re-validate under the lock (and re-look the entry up) before mutating
  R-DBM     dirty-before-mutate: structural stores on a published node happen under a dirty bit
"""
from yk.facts import (AnalysisBroken, CALL_KINDS, call_args, call_recv, is_call, root_var, short_loc, term, vname)
from yk.flow import Explorer
from yk import rules as R
from yk.locks import Y, tok_str
from checks import occ
from checks.lockfam import lock_analysis
from checks.C09 import fname


def ti_overloads(facts, q, idx):
    return [f for f in facts.by_qname(q) if len(f.params) > idx and f.params[idx]['type'] == 'yakushima::tree_instance *']


def rule_var(S):
    facts = S.facts()
    S.rule('R-VAR', 'get<V>, put<V>, remove: a slot word loaded through the link_or_value found by get_lv_of reaches a '
                    'success exit (return OK with the value / descent into the loaded next-layer root) only on paths '
                    'where a stable version of the same border, loaded after the slot, satisfies: vsplit equal to the '
                    'version of the descent, not deleted (or still a root), vinsert_delete equal to the version '
                    'get_lv_of validated')
    S.rule('R-PLC', 'get<V>, put<V>, remove: before the result of get_lv_of is used (slot load, miss report) the version '
                    'it validated is established to have the vsplit of the descent and not to be deleted (unless still '
                    'a root): the border may have been split or unlinked between find_border and the lookup')
    S.rule('R-RV', 'get<V> for out-of-line value types: the value exit additionally establishes that the loaded word '
                   'is not the cleared state (or re-compares the permutation): a remove clears the slot and shrinks '
                   'the permutation without changing the version word')
    ne = nd = nr = 0
    for f in ti_overloads(facts, Y + 'get', 0):
        inl = occ.inline_instantiation(facts, f.targs)
        e, d, r, _ = occ.point_reader(S, f, check_rv=(inl is False))
        if inl is not False:
            S.note('get<%s>: inline value type (or no put instantiation) - R-RV not applicable: delete_at never '
                   'clears an inline slot' % f.targs)
        ne, nd, nr = ne + e, nd + d, nr + (r if inl is False else 0)
    S.require('R-VAR', 'value exits of get', ne, 2)
    S.require('R-VAR', 'layer descents of get', nd, 2)
    S.require('R-RV', 'value exits of get for out-of-line value types', nr, 1)
    nd2 = 0
    for f in ti_overloads(facts, Y + 'put', 1) + ti_overloads(facts, Y + 'remove', 1):
        e, d, r, _ = occ.point_reader(S, f, check_rv=False, success_status={'never'})
        nd2 += d
    S.require('R-VAR', 'layer descents of put / remove', nd2, 3)


def rule_lookup(S):
    facts = S.facts()
    S.rule('R-LOOKUP', 'border_node::get_lv_of: every return is reached through the equal edge of a comparison of two '
                       'stable versions, the second loaded after the last read of keys / permutation / slots of that '
                       'iteration; the out-version is one of the compared versions; the permutation is loaded once per '
                       'iteration into a local and every rank->index lookup uses that local')
    f = facts.one(Y + 'border_node::get_lv_of')
    READS = {Y + 'base_node::get_key_slice_at', Y + 'base_node::get_key_length_at', Y + 'border_node::get_lv_at',
             Y + 'permutation::get_body', Y + 'permutation::get_index_of_rank', Y + 'permutation::get_cnk',
             Y + 'border_node::get_permutation_cnk'}
    rets = {}
    outv = [p['id'] for p in f.params if p['type'].replace(' ', '') == 'yakushima::node_version64_body&']

    def step(ctx, n, st):
        last_sv, dirty, validated, pair, outset = st
        if n['k'] in CALL_KINDS and n.get('cq') in READS:
            rv = root_var(f, call_recv(f, n))
            if rv == 'this' or rv is None:
                return (last_sv, True, False, None, None)
            return st
        if is_call(n, cq=occ.STABLE):
            p = f.parent(n)
            var = None
            if p is not None and p['k'] == 'DeclStmt':
                var = p['vars'][0]['id']
            elif p is not None and p['k'] == 'BinaryOperator' and p.get('op') == '=':
                var = root_var(f, f.ch(p)[0])
            return (var, False, False, None, outset)
        if n['k'] == 'CXXOperatorCallExpr' and n.get('cn') == 'operator=' and n.get('mcls') == 'yakushima::node_version64_body':
            a = [root_var(f, x) for x in n.get('args', [])]
            if outv and a and a[0] == outv[0]:
                return (last_sv, dirty, validated, pair, a[1])
        if n['k'] == 'ReturnStmt':
            site = R.ret_desc(f, n)
            e = rets.setdefault(site, {'ok': True, 'loc': short_loc(n), 'path': None, 'why': ''})
            why = None
            if not validated:
                why = 'returns without two equal stable versions around the reads'
            elif outv and (pair is None or outset not in pair):
                why = 'the reported version is not one of the two compared versions'
            if why:
                e['ok'] = False
                e['why'] = why
                e['path'] = e['path'] or ctx.witness()
            return None
        return st

    def branch(ctx, blk, idx, st):
        last_sv, dirty, validated, pair, outset = st
        if blk.term and 'cond' in blk.term and len(blk.succ) == 2:
            c = f.strip(blk.term['cond'], casts=True)
            if c is not None and c['k'] == 'CXXOperatorCallExpr' and c.get('cn') in ('operator==', 'operator!=') and \
                    c.get('mcls') == 'yakushima::node_version64_body':
                a = [root_var(f, x) for x in c.get('args', [])]
                eq = (idx == 0) == (c['cn'] == 'operator==')
                if eq and last_sv in a and not dirty and len(set(a)) == 2:
                    return (last_sv, dirty, True, tuple(a), outset)
                return (last_sv, dirty, False, None, outset)
        return st

    Explorer(f, step, branch).run((None, True, False, None, None))
    S.require('R-LOOKUP', 'returns of get_lv_of', len(rets), 1)
    for site, e in sorted(rets.items()):
        S.ob('R-LOOKUP', f.qname, site, e['ok'], 'validated lookup' if e['ok'] else e['why'], loc=e['loc'], path=e['path'])
    # one permutation snapshot
    snap_rule(S, f, 'R-LOOKUP')


def snap_rule(S, f, rule):
    """Inside loops of a reader, rank->index lookups use a local permutation snapshot."""
    bad = []
    n = 0
    for x in f.all_nodes():
        if is_call(x, cq={Y + 'permutation::get_index_of_rank', Y + 'permutation::get_cnk'}):
            n += 1
            rv = root_var(f, call_recv(f, x))
            r = f.strip(call_recv(f, x), casts=True)
            local = rv is not None and rv != 'this' and r is not None and r['k'] == 'DeclRefExpr' and \
                'permutation' in (r.get('ty') or '')
            if not local:
                bad.append(x)
    S.ob(rule, f.qname + ('<%s>' % f.targs if f.targs else ''), 'permutation snapshot (%d lookups)' % n,
         not bad and n > 0,
         'every rank lookup uses the local snapshot' if (not bad and n > 0) else
         ('a rank lookup reads the shared permutation word again instead of the snapshot' if bad else
          'no rank lookups found'), loc=short_loc(bad[0]) if bad else f.loc)


def rule_wul(S):
    facts = S.facts()
    S.rule('R-WUL', 'put<V>, remove: insert_lv / link_or_value::set_value / delete_of<true> on the optimistically found '
                    'border are reached only after lock() on it and, on the locked node, the negative edges of '
                    '`deleted && !root`, `vsplit != version of the descent`, `vinsert_delete != version of get_lv_of`; '
                    'the update and remove paths re-look the entry up under the lock and proceed only when it is found')
    kinds = {}
    for f in ti_overloads(facts, Y + 'put', 1) + ti_overloads(facts, Y + 'remove', 1):
        sites = occ.writer_revalidate(S, f)
        for s, e in sites.items():
            kinds[e['kind']] = kinds.get(e['kind'], 0) + 1
    for k in ('insert', 'update', 'remove'):
        if not kinds.get(k):
            raise AnalysisBroken('R-WUL: no %s mutation site found in put/remove' % k)


def rule_dbm(S):
    la = lock_analysis(S.facts())
    S.rule('R-DBM', 'every structural store on a published node (key arrays, permutation insert/split, entry moves, '
                    'children, n_keys, shifts) is reached with inserting_deleting or splitting set on that node by the '
                    'same path (helper requirements are checked at their call sites); frozen exceptions: the border '
                    'remove path (deletes are not counted), slot-word stores (value overwrite, layer-root replacement), '
                    'interior_node::swap_child in the last-sibling promotion')
    n = 0
    for ev in la.events:
        if ev['kind'] == 'mutate' and ev.get('level') == 'D':
            n += 1
            bad = ev['bad']
            S.ob('R-DBM', fname(ev['fn']), '%s on %s at %s' % (ev['callee'].replace(Y, ''), tok_str(ev['token']), ev['loc']),
                 not bad, 'under a dirty bit (%s)' % ('fresh node' if ev.get('fresh') else '/'.join(sorted(ev.get('dirty') or []))) if not bad
                 else ev['what'], loc=ev['loc'], path=ev.get('ctx_path'))
        elif ev['kind'] == 'callneed' and ev.get('level') in ('D', 'F'):
            n += 1
            S.ob('R-DBM', fname(ev['fn']), 'call %s needs %s %s at %s' % (
                ev['callee'].qname.replace(Y, ''), tok_str(ev['token']),
                'dirty' if ev['level'] == 'D' else 'unpublished', ev['loc']), not ev['bad'],
                'requirement of the helper holds at the call site' if not ev['bad'] else ev['what'], loc=ev['loc'],
                path=ev.get('ctx_path'))
    S.require('R-DBM', 'structural store / helper-requirement sites', n, 25)
    sets = [ev for ev in la.events if ev['kind'] == 'setdirty' and ev['on']]
    S.require('R-DBM', 'dirty-bit set sites', len({(e['fn'].fid, e['loc']) for e in sets}), 7)


def run(S):
    S.undecided = ['existence of a linearization for every history',
                   'memory-model adequacy of the acquire/release annotations',
                   'that the version comparisons are sufficient (ABA on 29-bit counters)',
                   'uniqueness semantics under races']
    S.assumptions = ['readers are recognised by the events get_lv_of / slot load / get_stable_version and by '
                     'comparisons of node_version64_body getters; a differently structured validation is reported as '
                     'a violation or as analysis-broken, never accepted silently']
    rule_var(S)
    rule_lookup(S)
    rule_wul(S)
    rule_dbm(S)
