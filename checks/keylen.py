"""R-NARROW (shared by C03, C18): key lengths are compared at full width.

Keys may be up to 30 KiB long, key_length_type is 8 bits wide.  A conversion of a string length (string_view / string
size()) to key_length_type is accepted only
  (a) on a path where that size is established <= 255 (the idiom of the code base: the else-branch of
      `key.size() > sizeof(key_slice_type)`), or
  (b) when the narrowed value is used for nothing but the key-length argument of find_border (a descent hint: a
      truncated length can only move the start border of a forward scan to the left, the per-entry filters use the
      full key).
Every other narrowing - in particular one whose result reaches a comparison - is reported.
"""
from yk.facts import AnalysisBroken, CALL_KINDS, call_args, call_recv, is_call, root_var, short_loc, cv_through, vname
from yk.flow import Explorer
from yk import rules as R

NARROW_TYPES = ('unsigned char', 'yakushima::key_length_type', 'key_length_type', 'std::uint8_t', 'uint8_t')
CASTS = ('ImplicitCastExpr', 'CXXStaticCastExpr', 'CStyleCastExpr', 'CXXFunctionalCastExpr')
SIZE_Q = ('std::basic_string_view<char>::size', 'std::basic_string_view<char>::length',
          'std::basic_string<char>::size', 'std::basic_string<char>::length')
HINT_CALLEE = 'yakushima::find_border'


def _size_call(f, n):
    """the size()/length() call an expression consists of (through casts / parens), else None"""
    x = f.strip(n, casts=True)
    if x is not None and x['k'] in CALL_KINDS and (x.get('cq') in SIZE_Q):
        return x
    return None


def rule_narrow(S, rule='R-NARROW'):
    facts = S.facts()
    S.rule(rule, 'a string length converted to key_length_type (8 bits) is established <= 255 on that path, or the '
                 'narrowed value is used only as the key-length argument of find_border (descent hint); keys are up '
                 'to 30 KiB long, so any other narrowing compares truncated lengths')
    n_sites = 0
    n_funcs = 0
    for f in sorted(facts.functions.values(), key=lambda x: x.fid):
        if not f.blocks or not f.qname.startswith('yakushima::'):
            continue
        cands = []
        for n in f.all_nodes():
            if n['k'] in CASTS and (n.get('ty') or '').replace('const ', '') in NARROW_TYPES and f.ch(n):
                inner = f.ch(n)[0]
                # skip the outer node of static_cast<T>(implicit cast) pairs: take the innermost narrowing only
                ix = f.node(inner) if not isinstance(inner, dict) else inner
                if ix is not None and ix['k'] in CASTS and (ix.get('ty') or '').replace('const ', '') in NARROW_TYPES:
                    continue
                sc = _size_call(f, inner)
                if sc is not None:
                    cands.append((n, sc))
        if not cands:
            continue
        n_funcs += 1
        cand_ids = {id(n): sc for n, sc in cands}
        # consumer of each candidate: the declaration / assignment that stores the narrowed value
        consumer = {}
        for n, sc in cands:
            tgt = R.assigned_var(f, n)
            p = f.parent(n)
            if tgt is not None and p is not None:
                consumer[id(p)] = (id(n), tgt)
        res = {}

        def is_hint_use(u):
            q = f.parent(u)
            return q is not None and q['k'] in CALL_KINDS and (q.get('callee') or '').startswith(HINT_CALLEE)

        def step(ctx, n, st):
            short, pend, taint = st
            if id(n) in cand_ids:
                sc = cand_ids[id(n)]
                rv = root_var(f, call_recv(f, sc))
                e = res.setdefault(id(n), {'node': n, 'bounded': True, 'path': None, 'var': rv, 'bad': None})
                if rv is None or rv not in short:
                    e['bounded'] = False
                    e['path'] = e['path'] or ctx.witness()
                    p = f.parent(n)
                    if R.assigned_var(f, n) is None:
                        if not is_hint_use(n):
                            e['bad'] = e['bad'] or 'the truncated length is used directly in %s' % (p['k'] if p else 'an expression')
                    else:
                        pend = pend | {id(n)}
                return (short, pend, taint)
            if id(n) in consumer:
                cid, tgt = consumer[id(n)]
                taint = frozenset(x for x in taint if x[0] != tgt)
                if cid in pend:
                    pend = pend - {cid}
                    taint = taint | {(tgt, cid)}
                return (short, pend, taint)
            if n['k'] == 'DeclStmt':
                for v in n.get('vars', []):
                    taint = frozenset(x for x in taint if x[0] != v['id'])
                return (short, pend, taint)
            if n['k'] == 'BinaryOperator' and n.get('op') == '=':
                v = root_var(f, f.ch(n)[0])
                if v in short:
                    short = short - {v}
                taint = frozenset(x for x in taint if x[0] != v)
                return (short, pend, taint)
            if n['k'] == 'CXXOperatorCallExpr' and n.get('cn') == 'operator=' and n.get('args'):
                v = root_var(f, f.node(n['args'][0]))
                if v in short:
                    short = short - {v}
                return (short, pend, taint)
            if n['k'] == 'DeclRefExpr' and taint:
                for (v, cid) in taint:
                    if n.get('id') == v:
                        q = f.parent(n)
                        if q is not None and q['k'] == 'BinaryOperator' and q.get('op') == '=' and \
                                f.strip(f.ch(q)[0], casts=True) is n:
                            continue
                        if is_hint_use(n):
                            continue
                        e = res[cid]
                        if e['bad'] is None:
                            e['bad'] = 'the truncated length `%s` is used at %s (%s)' % (
                                vname(v), short_loc(n), (q or {}).get('k', '?') + ' ' + ((q or {}).get('op') or ''))
                            e['path'] = ctx.witness()
            return (short, pend, taint)

        def branch(ctx, blk, idx, st):
            short, pend, taint = st
            t = blk.term
            if not t or len(blk.succ) != 2 or 'cond' not in t:
                return st
            c = f.strip(f.node(t['cond']))
            flip = False
            while c is not None and c['k'] == 'UnaryOperator' and c.get('op') == '!':
                flip = not flip
                c = f.strip(f.ch(c)[0])
            if c is None or c['k'] != 'BinaryOperator' or c.get('op') not in ('<', '<=', '>', '>=', '=='):
                return st
            truth = (idx == 0) != flip
            a, b = f.ch(c)[0], f.ch(c)[1]
            op = c['op']
            sa, sb = _size_call(f, a), _size_call(f, b)
            if sa is not None and sb is None:
                k = cv_through(f, b)
            elif sb is not None and sa is None:
                k = cv_through(f, a)
                op = {'<': '>', '<=': '>=', '>': '<', '>=': '<=', '==': '=='}[op]
                sa = sb
            else:
                return st
            if k is None:
                return st
            if not truth:
                if op == '==':
                    return st
                op = {'<': '>=', '<=': '>', '>': '<=', '>=': '<'}[op]
            bound = None
            if op == '<':
                bound = k - 1
            elif op in ('<=', '=='):
                bound = k
            if bound is not None and bound <= 255:
                v = root_var(f, call_recv(f, sa))
                if v is not None:
                    return (short | {v}, pend, taint)
            return st

        ex = Explorer(f, step, branch)
        ex.run((frozenset(), frozenset(), frozenset()))
        fname = f.qname + ('<%s>' % f.targs if f.targs else '')
        for n, sc in cands:
            e = res.get(id(n))
            if e is None:
                continue  # unreachable
            n_sites += 1
            site = 'narrowing of %s.size() at %s' % (vname(e['var']) if e['var'] else '?', short_loc(n))
            if e['bounded']:
                S.ob(rule, fname, site, True, 'the length is established <= 255 on every path to the conversion',
                     loc=short_loc(n))
                continue
            bad = e['bad']
            S.ob(rule, fname, site, bad is None,
                 'unbounded narrowing used only as the key-length hint of find_border' if bad is None else
                 'a key length of up to 30 KiB is truncated to 8 bits and ' + bad, loc=short_loc(n), path=e['path'])
    S.count(rule + ': narrowing conversions of string lengths to key_length_type', n_sites)
    S.count(rule + ': functions containing one', n_funcs)
    S.require(rule, 'narrowing conversions of string lengths to key_length_type', n_sites, 6)
