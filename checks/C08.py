"""C08 - tree stays coherent: keys reachable by descent and by leaf chain alike.

Decided (structural, necessary condition; DESIGN.md section 5 / C08), from the E-LOCK analysis:
  R-MUL   lock-protects-field: every store to shared node state (keys, slots, permutation, next, children,
          n_keys, parent, prev, root flag, dirty/deleted bits, tree root pointer) happens while the lock that
          protects it is held on that path, or on a node that is not yet published
  R-RAWV  raw version stores (set_version / init) only on unpublished nodes
  (lock balance / order: C09)
"""
from yk.facts import AnalysisBroken, short_loc
from yk.locks import Y, tok_str, MUT
from checks.lockfam import lock_analysis
from checks.C09 import fname

ROOTPTR_EXEMPT = {
    Y + 'destroy': 'single-threaded teardown',
    Y + 'storage::delete_storage': 'the dropped tree is no longer reachable: its name was removed from the catalogue first',
    Y + 'storage::create_storage': 'local tree_instance not yet inserted into the catalogue',
}


def rule_mul(S, la):
    S.rule('R-MUL', 'every mutator call on node X (key arrays, lv slots, permutation, next_, children, n_keys_, '
                    'version bits) is reached only with X locked by the path or X unpublished; parent_ := P needs P '
                    'locked (or P == nullptr with the root lock, or X unpublished); prev_ := Q needs Q locked (named '
                    'exception: a locked leftmost border unlinking itself); root flag needs X locked (named exception: '
                    'last-sibling promotion with {this, parent-or-root} locked); tree root pointer needs the root '
                    'lock (exceptions: teardown, unpublished local tree, CAS from nullptr); helper requirements are '
                    'propagated to call sites and API roots must have none')
    n = 0
    per_class = {}
    for ev in la.events:
        if ev['kind'] not in ('mutate', 'callneed', 'setdirty'):
            continue
        f = ev['fn']
        if ev['kind'] == 'mutate' and ev.get('cls') == 'rootptr':
            ok = ev.get('root_held') or f.qname in ROOTPTR_EXEMPT or ev['callee'].endswith('cas_root_ptr')
            why = 'root lock held' if ev.get('root_held') else (
                ROOTPTR_EXEMPT.get(f.qname) or ('compare-and-swap from nullptr' if ev['callee'].endswith('cas_root_ptr')
                                                else 'tree root pointer stored without the root lock'))
            n += 1
            per_class['rootptr'] = per_class.get('rootptr', 0) + 1
            S.ob('R-MUL', fname(f), 'root pointer store at %s' % ev['loc'], ok, why, loc=ev['loc'],
                 path=ev.get('ctx_path'))
            continue
        if ev['kind'] == 'callneed':
            if ev.get('level') == 'D':
                continue  # dirty requirement is C01 R-DBM
            n += 1
            S.ob('R-MUL', fname(f), 'call %s needs %s at %s' % (ev['callee'].qname.replace(Y, ''),
                                                                tok_str(ev['token']), ev['loc']),
                 not ev['bad'], 'requirement of the helper holds at the call site' if not ev['bad'] else ev['what'],
                 loc=ev['loc'], path=ev.get('ctx_path'))
            continue
        cls = ev.get('cls') or 'bits'
        bad = ev['bad']
        what = ev.get('what')
        if ev['kind'] == 'mutate' and bad and ev.get('level') == 'D':
            # only the dirty part fails? then it is not an R-MUL matter
            if 'without holding its lock' not in (what or ''):
                bad = False
        per_class[cls] = per_class.get(cls, 0) + 1
        n += 1
        S.ob('R-MUL', fname(f), '%s on %s at %s' % ((ev.get('callee') or 'dirty bit').replace(Y, ''),
                                                    tok_str(ev['token']), ev['loc']),
             not bad, ('protected' + (' (named exception: %s)' % ev['exception'] if ev.get('exception') else ''))
             if not bad else what, loc=ev['loc'], path=ev.get('ctx_path'))
    S.counters['R-MUL: mutator sites per state class'] = per_class
    S.require('R-MUL', 'mutator / requirement sites', n, 90)
    # API roots have no entry requirement
    from checks.lockfam import writer_roots
    for f in writer_roots(la.facts):
        sm = la.summary.get(f.fid, {})
        need = sm.get('need', frozenset())
        S.ob('R-MUL', fname(f), 'no entry requirement', not need,
             'API root requires nothing locked at entry' if not need else
             'API root needs %s at entry' % ', '.join(tok_str(t) for t, _ in need), loc=f.loc)


def rule_rawv(S, la):
    S.rule('R-RAWV', 'base_node::set_version (raw store of a version word) is applied only to a node that is not yet '
                     'published, copying the word of a node the path has locked')
    n = 0
    for ev in la.events:
        if ev['kind'] != 'rawversion':
            continue
        n += 1
        ok = ev.get('fresh') and ev.get('src_held')
        S.ob('R-RAWV', fname(ev['fn']), 'set_version on %s at %s' % (tok_str(ev['token']), ev['loc']), bool(ok),
             'fresh node receives the word of a locked node' if ok else
             'raw version store on %s (published=%s, source locked=%s) bypasses the lock protocol' %
             (tok_str(ev['token']), not ev.get('fresh'), ev.get('src_held')), loc=ev['loc'])
    S.require('R-RAWV', 'raw version stores', n, 2)


LINK_PRIMS = {Y + 'interior_node::insert', Y + 'interior_node::swap_child', Y + 'interior_node::set_child_at',
              Y + 'border_node::set_lv_next_layer', Y + 'link_or_value::set_next_layer',
              Y + 'tree_instance::store_root_ptr', Y + 'interior_node::shift_left_children',
              Y + 'interior_node::shift_right_children'}


def rule_link(S, la):
    from yk.facts import call_args, call_recv, is_call
    from yk.flow import Explorer
    from yk import rules as R
    S.rule('R-LINK', 'parent/child links are updated in pairs: on every path of a writer function that stores node X '
                     'as a child of P (set_child_at, interior_node::insert, swap_child, set_next_layer / '
                     'set_lv_next_layer, store_root_ptr) the same path sets X\'s parent pointer to P (nullptr for a '
                     'tree root; a freshly initialised node already has a null parent), or hands X to '
                     'interior_split which does both')
    n = 0
    for f in la.funcs.values():
        if f.qname in LINK_PRIMS or f.is_lambda:
            continue
        fi = la.fi(f)
        has = any(x.get('cq') in LINK_PRIMS for x in f.all_nodes() if x['k'] in ('CXXMemberCallExpr', 'CallExpr'))
        if not has:
            continue
        sites = {}

        def step(ctx, nd, st):
            links, parents = st
            if nd['k'] == 'ReturnStmt':
                for (pt, xt, loc) in links:
                    if (xt, pt) not in parents:
                        e = sites.setdefault(loc, {'ok': True, 'path': None, 'pt': pt, 'xt': xt})
                        e['ok'] = False
                        e['path'] = e['path'] or ctx.witness()
                return None
            if nd['k'] == 'BinaryOperator' and nd.get('op') == '=':
                # pointer copy p = q: what is known about q's parent pointer is known about p's
                l0 = f.strip(f.ch(nd)[0], casts=True)
                r0 = f.strip(f.ch(nd)[1], casts=True)
                if l0 is not None and r0 is not None and l0['k'] == 'DeclRefExpr' and r0['k'] == 'DeclRefExpr':
                    lt, rt = la.tok(fi, l0), la.tok(fi, r0)
                    lts = {lt, ('var', l0.get('id'))}
                    parents = frozenset(x for x in parents if x[0] not in lts) | \
                        frozenset((t, pt) for (xt, pt) in parents if xt in (rt, ('var', r0.get('id'))) for t in lts)
                    return (links, parents)
                return st
            if nd['k'] not in ('CXXMemberCallExpr', 'CallExpr'):
                return st
            cq = nd.get('cq')
            a = call_args(f, nd)
            recv = call_recv(f, nd)
            if cq == Y + 'base_node::set_parent':
                xt = la.tok(fi, recv)
                pt = la.tok(fi, a[0]) if a else ('unk', 'arg')
                return (links, parents | {(xt, pt)})
            link = None
            if cq == Y + 'interior_node::set_child_at' and len(a) == 2:
                link = (la.tok(fi, recv), la.tok(fi, a[1]))
            elif cq == Y + 'interior_node::insert' and a:
                link = (la.tok(fi, recv), la.tok(fi, a[0]))
            elif cq == Y + 'interior_node::swap_child' and len(a) == 2:
                link = (la.tok(fi, recv), la.tok(fi, a[1]))
            elif cq == Y + 'link_or_value::set_next_layer' and a:
                link = (la.tok(fi, recv), la.tok(fi, a[0]))
            elif cq == Y + 'border_node::set_lv_next_layer' and len(a) == 2:
                link = (la.tok(fi, recv), la.tok(fi, a[1]))
            elif cq == Y + 'tree_instance::store_root_ptr' and a:
                link = (('null',), la.tok(fi, a[0]))
            elif cq == Y + 'interior_split' and len(a) >= 3:
                xt = la.tok(fi, a[2])
                return (links, parents | {(xt, '*')})
            g = la.facts.get(nd.get('callee'))
            if g is not None and g.fid in la.summary:
                outs = [t for t in la.summary[g.fid]['keep'] if t[0] == 'out']
                if any(t[0] == 'ret' for t in la.summary[g.fid]['keep']):
                    # the callee returns a node it allocated and initialised (parent == nullptr)
                    p_ = f.parent(nd)
                    rv_ = None
                    if p_ is not None and p_['k'] == 'DeclStmt':
                        rv_ = p_['vars'][0]['id']
                    elif p_ is not None and p_['k'] == 'BinaryOperator' and p_.get('op') == '=':
                        l_ = f.strip(f.ch(p_)[0])
                        rv_ = l_.get('id') if l_ is not None else None
                    if rv_:
                        parents = parents | {(('var', rv_), ('null',))} | {(la.tok(fi, f.ch(p_)[0]) if p_['k'] == 'BinaryOperator' else ('var', rv_), ('null',))}
                        return (links, parents)
                if outs:
                    # the callee hands over a node it allocated and initialised (parent == nullptr)
                    pidx = {p['id']: i for i, p in enumerate(g.params)}
                    for t in outs:
                        i = pidx.get(t[1])
                        if i is not None and i < len(a):
                            for y in f.walk(a[i]):
                                if y['k'] == 'DeclRefExpr' and y.get('dk') == 'var':
                                    parents = parents | {(('var', y['id']), ('null',))}
                    return (links, parents)
            if link is not None:
                pt, xt = link
                if xt == ('null',) or xt == ('child', pt):
                    return st
                if pt == ('null',) and (xt[0] == 'var' and xt[1] in fi.fresh_vars):
                    return st  # fresh root: parent is null by initialisation
                loc = short_loc(nd)
                sites.setdefault(loc, {'ok': True, 'path': None, 'pt': pt, 'xt': xt})
                return (links | {(pt, xt, loc)}, parents)
            return st

        def norm(st):
            return st

        ex = Explorer(f, step)
        ex.run((frozenset(), frozenset()))
        # fall-off exits
        for (links, parents) in ex.exit_states:
            for (pt, xt, loc) in links:
                if (xt, pt) not in parents and (xt, '*') not in parents:
                    sites[loc]['ok'] = False
        for loc, e in sorted(sites.items()):
            # a wildcard parent (interior_split) also matches at returns
            n += 1
            S.ob('R-LINK', fname(f), 'link %s under %s at %s' % (tok_str(e['xt']), tok_str(e['pt']), loc), e['ok'],
                 'the parent pointer of the linked node is set on the same path' if e['ok'] else
                 '%s is stored as a child of %s but its parent pointer is not set to it on this path' %
                 (tok_str(e['xt']), tok_str(e['pt'])), loc=loc, path=e['path'])
    S.require('R-LINK', 'link stores in writer functions', n, 10)


def rule_move(S):
    """R-MOVE: every entry moved into another border has the layer below it re-parented."""
    from yk.facts import call_args, call_recv, is_call, root_var, short_loc, cv_through, CALL_KINDS
    from yk import rules as R
    facts = S.facts()
    Yq = 'yakushima::'
    S.rule('R-MOVE', 'a function that moves entries into another border with border_node::set_lv(slot, entry) sets the '
                     'parent of the layer below each moved entry (when it is a link) to that border: either in the same '
                     'loop iteration (parent update on the next layer of the moved entry), or in a later loop over the '
                     'destination slots that starts at the first slot written and runs up to the number of slots written')
    n = 0
    for f in sorted(facts.functions.values(), key=lambda x: x.fid):
        moves = [x for x in f.all_nodes() if is_call(x, cq=Yq + 'border_node::set_lv')]
        if not moves or f.qname.startswith(Yq + 'border_node::'):
            continue
        for mv in moves:
            n += 1
            dest = root_var(f, call_recv(f, mv))
            a = call_args(f, mv)
            ctr = root_var(f, a[0]) if a else None
            src = a[1] if len(a) > 1 else None
            ok = False
            why = 'no re-parenting of the layers below the moved entries was found'
            # (a) same iteration: set_parent(dest) on get_next_layer() of the moved entry (same source expression)
            src_t = None
            from yk.facts import term
            src_t = term(f, src, res=True) if src is not None else None
            blk_of = {}
            for b, blk in f.blocks.items():
                for e in blk.elems:
                    blk_of[id(f.node(e))] = b
            for sp in f.all_nodes():
                if not is_call(sp, cq=Yq + 'base_node::set_parent'):
                    continue
                pa = call_args(f, sp)
                if not pa or root_var(f, pa[0]) != dest:
                    continue
                recv_t = term(f, call_recv(f, sp), res=True)
                # receiver derives from get_next_layer() of the moved entry
                def mentions(t, sub):
                    if t == sub:
                        return True
                    return isinstance(t, tuple) and any(mentions(x, sub) for x in t if isinstance(x, tuple))
                rv = root_var(f, call_recv(f, sp))
                ini = R.var_decl_init(f, rv) if rv else None
                it = term(f, ini, res=True) if ini is not None else recv_t
                if src_t is not None and mentions(it, src_t):
                    ok = True
                    break
            if not ok:
                # (b) a later counted loop over the destination slots
                cinit = cv_through(f, R.var_decl_init(f, ctr)) if ctr and R.var_decl_init(f, ctr) is not None else None
                for b, blk in f.blocks.items():
                    t = blk.term
                    if not t or t.get('k') != 'ForStmt' or 'cond' not in t or len(blk.succ) != 2:
                        continue
                    c = f.strip(f.node(t['cond']), casts=True)
                    if c is None or c['k'] != 'BinaryOperator' or c.get('op') not in ('<', '!='):
                        continue
                    lv, bv = f.strip(f.ch(c)[0], casts=True), f.strip(f.ch(c)[1], casts=True)
                    if lv is None or lv['k'] != 'DeclRefExpr' or bv is None:
                        continue
                    j = lv.get('id')
                    body_sets = [sp for sp in f.all_nodes() if is_call(sp, cq=Yq + 'base_node::set_parent') and
                                 call_args(f, sp) and root_var(f, call_args(f, sp)[0]) == dest]
                    uses_j = False
                    for sp in body_sets:
                        rv = root_var(f, call_recv(f, sp))
                        ini = R.var_decl_init(f, rv) if rv else None
                        exprs = [call_recv(f, sp)] + ([ini] if ini is not None else [])
                        for ex in exprs:
                            for y in f.walk(ex):
                                if y['k'] == 'DeclRefExpr' and y.get('id') == j:
                                    uses_j = True
                    if not uses_j:
                        continue
                    jinit = R.var_decl_init(f, j)
                    start = cv_through(f, jinit) if jinit is not None else None
                    bound_is_ctr = bv['k'] == 'DeclRefExpr' and bv.get('id') == ctr
                    if start is not None and cinit is not None and start == cinit and bound_is_ctr:
                        ok = True
                    else:
                        why = 'the separate re-parenting loop covers slots [%s, %s) but the move wrote slots starting at %s up ' \
                              'to its counter: a moved link outside that range keeps its old parent' % (
                                  start, 'counter' if bound_is_ctr else 'another bound', cinit)
                    break
            fname = f.qname + ('<%s>' % f.targs if f.targs else '')
            S.ob('R-MOVE', fname, 'entries moved by set_lv at ' + short_loc(mv), ok,
                 'the layer below every moved entry is re-parented to the destination border' if ok else why,
                 loc=short_loc(mv))
    S.require('R-MOVE', 'entry moves between borders', n, 1)


def rule_sib(S):
    """R-SIB: a border that was marked deleted leaves the leaf chain for good or takes no link with it."""
    from yk.facts import call_args, call_recv, is_call, root_var, CALL_KINDS
    from yk.flow import Explorer
    facts = S.facts()
    S.rule('R-SIB', 'a border marked deleted (set_version_deleted(true)) is unlinked from its neighbours by the same '
                    'function; on every path from the mark to an exit the node is either retired (handed to the garbage '
                    'collector: nothing reaches it any more) or - when it stays in the tree as the empty root that the '
                    'next put revives - its own next and prev pointers were reset to nullptr: the node may have become '
                    'root while it was being emptied (its last sibling removed after it unlinked itself), and a revived '
                    'root that still points to the retired sibling hands every backward cursor a deleted node for ever')
    n = 0
    fs = facts.functions if isinstance(facts.functions, list) else list(facts.functions.values())
    for f in fs:
        if f.is_lambda or not (f.qname or '').startswith(Y + 'border_node::'):
            continue
        marks = [x for x in f.all_nodes() if x['k'] in CALL_KINDS and x.get('cq') == Y + 'base_node::set_version_deleted'
                 and root_var(f, call_recv(f, x)) == 'this' and
                 any(y['k'] == 'CXXBoolLiteralExpr' and str(y.get('val')) in ('1', 'True', 'true')
                     for a in call_args(f, x) for y in f.walk(a))]
        if not marks:
            continue
        sites = {}

        def is_null_arg(nd):
            a = call_args(f, nd)
            return bool(a) and any(y['k'] in ('CXXNullPtrLiteralExpr', 'GNUNullExpr') for y in f.walk(a[0]))

        def check(ctx, st, loc):
            if 'del' in st and 'ret' not in st:
                e = sites.setdefault(loc, {'ok': True, 'path': None, 'miss': ''})
                miss = [w for w, k in (('next', 'nn'), ('prev', 'pn')) if k not in st]
                if miss:
                    e['ok'] = False
                    e['miss'] = ' and '.join(miss)
                    e['path'] = e['path'] or ctx.witness()
            elif 'del' in st:
                sites.setdefault(loc, {'ok': True, 'path': None, 'miss': ''})

        def step(ctx, nd, st):
            if nd['k'] == 'ReturnStmt':
                check(ctx, st, short_loc(nd))
                return None
            if nd['k'] not in CALL_KINDS:
                return st
            cq = nd.get('cq')
            own = root_var(f, call_recv(f, nd)) == 'this' if call_recv(f, nd) is not None else False
            if nd in marks:
                return frozenset({'del'})
            if cq == Y + 'base_node::set_version_deleted' and own:
                return frozenset()      # un-deleted again
            if 'del' not in st:
                return st
            if cq == Y + 'border_node::set_next' and own:
                return (st | {'nn'}) if is_null_arg(nd) else (st - {'nn'})
            if cq == Y + 'border_node::set_prev' and own:
                return (st | {'pn'}) if is_null_arg(nd) else (st - {'pn'})
            if nd.get('cn') == 'push_node_container' and \
                    any(y['k'] == 'CXXThisExpr' for a in call_args(f, nd) for y in f.walk(a)):
                return st | {'ret'}
            return st

        ex = Explorer(f, step)
        ex.run(frozenset())
        for st in ex.exit_states:
            class _C:
                @staticmethod
                def witness():
                    return None
            check(_C, st, 'end of function')
        for loc, e in sorted(sites.items()):
            n += 1
            S.ob('R-SIB', fname(f), 'exit at %s after the node was marked deleted' % loc, e['ok'],
                 'the node is retired, or stays with both sibling links reset' if e['ok'] else
                 'the deleted border stays in the tree (it is not retired on this path) and keeps its %s pointer: if it '
                 'became root meanwhile, the put that revives it publishes a link to a retired node' % e['miss'],
                 loc=loc if ':' in loc else f.loc, path=e['path'])
    S.require('R-SIB', 'exits of border-deleting functions', n, 2)


def run(S):
    S.undecided = ['sortedness and uniqueness inside nodes', 'separators bounding their subtrees',
                   'get == scan == reverse iscan at quiescence (all value-dependent)']
    S.assumptions = ['mutator table derived from the @pre / @attention comments of the node classes; a node is '
                     'unpublished from `new` until it is first stored into a shared link',
                     'two different structural tokens denote different nodes']
    la = lock_analysis(S.facts())
    S.count('E-LOCK: functions analysed', len(la.funcs))
    S.count('E-LOCK: CFG visits', la.visits)
    rule_mul(S, la)
    rule_rawv(S, la)
    rule_link(S, la)
    rule_move(S)
    rule_sib(S)
    # sortedness inside nodes and separators bounding their subtrees need every routing / rank / split-side decision
    # to implement the one key order (shared with C18)
    from checks.C18 import rule_cmp
    rule_cmp(S)
    # entries stay unique only if a writer acts on the entry (or absence) it re-validated under the lock (shared with C01)
    from checks.C01 import rule_wul
    rule_wul(S)
