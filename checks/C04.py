"""C04 - concurrent scans are per-key consistent and never lose a stable key.

Decided (OCC obligations of scan_border<V> and the layer scan; DESIGN.md section 5 / C04):
  R-VAR   every pushed tuple / descent into a next layer uses only data validated by a later scan_check_retry OK
  R-SNAP  one permutation snapshot per visit; the visit ends only validated
  R-RBK   rollback-before-retry: a retry never keeps results of the discarded attempt
  R-RV    remove-visible validation of pushed values (out-of-line value types)
"""
from yk.facts import AnalysisBroken, CALL_KINDS, call_args, call_recv, is_call, root_var, short_loc, vname
from yk import rules as R
from checks import occ, scanocc
from checks.C01 import snap_rule

Y = 'yakushima::'


def scan_border_reader(S, f):
    tgt = [p for p in f.params if p['type'].replace(' ', '').startswith('yakushima::border_node**')]
    vfb = [p for p in f.params if p['type'].replace(' ', '') == 'yakushima::node_version64_body&']
    if len(tgt) != 1 or len(vfb) != 1:
        raise AnalysisBroken('scan_border parameters (border_node**, node_version64_body&) not found')
    bvars = []
    for n in f.all_nodes():
        if n['k'] == 'DeclStmt':
            for v in n.get('vars', []):
                if 'init' in v and v['type'].replace('const', '').strip() == 'yakushima::border_node *' and \
                        root_var(f, v['init']) == tgt[0]['id']:
                    bvars.append(v['id'])
    if len(bvars) != 1:
        raise AnalysisBroken('scan_border: no unique local border pointer initialised from *target')
    rr = scanocc.RangeReader(S, f, Y + 'scan_check_retry', bvars[0], vfb[0]['id'], 'scan')
    rr.run()
    return rr


_MEMO = {}


def readers(S):
    facts = S.facts()
    if '_c04_readers' not in facts.__dict__:
        fns = facts.some(Y + 'scan_border', lambda f: not f.is_lambda, 'scan_border<V>')
        facts.__dict__['_c04_readers'] = [(f, scan_border_reader(S, f)) for f in fns]
    return facts.__dict__['_c04_readers']


def emit(S, rule, kind, f, rr, ok_text, minimum=None):
    fname = 'yakushima::scan_border<%s>' % f.targs
    n = 0
    for site, e in sorted(rr.sites[kind].items()):
        n += 1
        S.ob(rule, fname, site, e['ok'], ok_text if e['ok'] else e['why'], loc=e['loc'], path=e['path'])
    return n


def rule_asc(S, rule='R-ASC'):
    """R-ASC: keys leave a left-to-right scan in strictly ascending order (finding F12)."""
    from yk.flow import Explorer
    facts = S.facts()
    S.rule(rule, 'scan_border<V>: every push of an entry to the result list is reached, within the visit of that entry, '
                 'only after the entry\'s key was established greater than the key delivered last (a comparison of the '
                 'key buffer with the key of result.back()), or with the result list found empty, or in a right-to-left '
                 'scan (at most one entry): a border that has absorbed the key range of a deleted left neighbour can hold '
                 'a key the scan has already delivered, and re-reading the border after a failed validation would '
                 'deliver it again behind greater keys')
    n = 0
    for f in [g for g in facts.by_qname(Y + 'scan_border') if not g.is_lambda]:
        strs = {v['id'] for nd in f.all_nodes() if nd['k'] == 'DeclStmt' for v in nd.get('vars', [])
                if (v['type'].replace('const ', '').startswith('std::basic_string<char') or v['type'] == 'std::string')
                and '&' not in v['type']}
        res = [p['id'] for p in f.params if 'std::vector<std::tuple<' in p['type']]
        bools = [p['id'] for p in f.params if p['type'].replace('const ', '') == 'bool']
        if len(res) != 1 or not bools:
            raise AnalysisBroken('%s: result list / direction flag of scan_border not identified' % rule)
        res, rtl = res[0], bools[-1]
        sites = {}

        def mentions(g, n_, ids):
            return any(x['k'] == 'DeclRefExpr' and x.get('id') in ids for x in g.walk(n_))

        def is_back(g, n_, depth=0):
            for x in g.walk(n_):
                if x['k'] in CALL_KINDS and x.get('cn') == 'back' and root_var(g, call_recv(g, x)) == res:
                    return True
                if x['k'] == 'DeclRefExpr' and x.get('dk') == 'var' and x.get('id') not in strs and depth < 3:
                    ini = R.var_decl_init(g, x.get('id'))        # a named reference to result.back()'s key
                    if ini is not None and is_back(g, ini, depth + 1):
                        return True
            return False

        def make(g):
            def step(ctx, nd, st):
                if is_call(nd, cq=Y + 'permutation::get_index_of_rank'):
                    return 'unknown'
                tg = R.lambda_target(facts, g, nd)
                if tg is not None:
                    ex2 = Explorer(tg, *make(tg))
                    ex2.run(st)
                    outs = set(ex2.exit_states) | {s_ for s_, _ in ex2.return_states}
                    return list(outs) or [st]
                if nd['k'] in CALL_KINDS and nd.get('cn') in ('emplace_back', 'push_back') and \
                        root_var(g, call_recv(g, nd)) == res:
                    e = sites.setdefault('push at ' + short_loc(nd), {'ok': True, 'loc': short_loc(nd), 'path': None})
                    if st != 'above':
                        e['ok'] = False
                        e['path'] = e['path'] or ctx.witness()
                if nd['k'] == 'ReturnStmt':
                    return st if g is not f else None
                return st

            def branch(ctx, blk, idx, st):
                if not (blk.term and 'cond' in blk.term and len(blk.succ) == 2):
                    return st
                c = g.strip(blk.term['cond'], casts=True)
                truth = idx == 0
                while c is not None and c['k'] == 'UnaryOperator' and c.get('op') == '!':
                    truth = not truth
                    c = g.strip(g.ch(c)[0], casts=True)
                if c is None:
                    return st
                if c['k'] == 'DeclRefExpr' and c.get('id') == rtl and truth:
                    return 'above'                   # right-to-left: a single entry is delivered
                if c['k'] in CALL_KINDS and c.get('cn') == 'empty' and root_var(g, call_recv(g, c)) == res and truth:
                    return 'above'                   # nothing delivered yet
                op = None
                kids = None
                if c['k'] == 'CXXOperatorCallExpr' and (c.get('cn') or '').startswith('operator') and \
                        c['cn'][8:] in ('<', '<=', '>', '>='):
                    op, kids = c['cn'][8:], [g.node(x) for x in c.get('args', [])]
                elif c['k'] in CALL_KINDS and c.get('cn') == 'compare':
                    return st
                if op and len(kids) == 2:
                    l_key, r_key = mentions(g, kids[0], strs), mentions(g, kids[1], strs)
                    l_back, r_back = is_back(g, kids[0]), is_back(g, kids[1])
                    rel = None                        # relation `key REL back` that holds on this edge
                    if l_key and r_back and not l_back:
                        rel = op if truth else {'<': '>=', '<=': '>', '>': '<=', '>=': '<'}[op]
                    elif r_key and l_back and not r_back:
                        flip = {'<': '>', '<=': '>=', '>': '<', '>=': '<='}[op]
                        rel = flip if truth else {'<': '>=', '<=': '>', '>': '<=', '>=': '<'}[flip]
                    if rel == '>':
                        return 'above'
                return st
            return step, branch

        Explorer(f, *make(f)).run('unknown')
        fname = f.qname + ('<%s>' % f.targs if f.targs else '')
        for site, e in sorted(sites.items()):
            n += 1
            S.ob(rule, fname, site, e['ok'],
                 'the entry\'s key is above the key delivered last (or nothing was delivered, or the scan runs right to '
                 'left)' if e['ok'] else
                 'an entry is pushed without its key having been compared with the key delivered last: a key inserted '
                 'behind the scan position (into a border that absorbed a deleted neighbour\'s range) is delivered again, '
                 'out of order', loc=e['loc'], path=e['path'])
    S.require(rule, 'result pushes in scan_border', n, 3)


def run(S):
    facts = S.facts()
    S.undecided = ['"every returned pair was current at some instant", "no stable key is lost" as statements about all '
                   'interleavings', 'strict ascending order of the result as a statement about all interleavings '
                   '(R-ASC decides its necessary condition: no push without the comparison with the key delivered last)']
    S.assumptions = ['scan_check_retry returning OK means the border version equals the validated one (decided by C06 R-EQ)']
    S.rule('R-VAR', 'scan_border<V>: at every tuple_list.emplace_back and at every nested scan of a next layer, every '
                    'load of the visited border (next pointer, permutation, key slice/length, slot word) is followed '
                    'by a scan_check_retry(bn, v_at_fb) whose result is established to be OK on that path')
    S.rule('R-SNAP', 'scan_border<V>: every rank->index lookup uses the local permutation snapshot; every non-retry '
                     'return is reached with all loads covered by an OK check')
    S.rule('R-RBK', 'scan_border<V>: at every `goto retry` and `return OK_RETRY_*` nothing pushed by this visit remains '
                    '(clean_up_tuple_list_nvc after the last push); layer scan: the roll-back before `goto retry` uses '
                    'the sizes recorded at function entry')
    S.rule('R-RV', 'scan_border<V> for out-of-line value types: a pushed value word was tested against the cleared '
                   'state (removes do not change the version word)')
    np = nr = nt = 0
    for f, rr in readers(S):
        S.count('RangeReader: CFG visits', rr.visits)
        np += emit(S, 'R-VAR', 'push', f, rr, 'only validated data is pushed / followed')
        nr += emit(S, 'R-SNAP', 'ret', f, rr, 'the visit ends validated')
        nt += emit(S, 'R-RBK', 'retry', f, rr, 'nothing of the discarded attempt remains')
        snap_rule(S, f, 'R-SNAP')
        inl = occ.inline_instantiation(facts, f.targs)
        if inl is False:
            emit(S, 'R-RV', 'rv', f, rr, 'pushed value validated against a concurrent remove')
        else:
            S.note('scan_border<%s>: inline value type - R-RV not applicable' % f.targs)
    S.require('R-VAR', 'push / descent sites of scan_border', np, 4)
    S.require('R-SNAP', 'non-retry returns of scan_border', nr, 8)
    S.require('R-RBK', 'retry edges of scan_border', nt, 4)
    rule_rbk_layer(S)
    rule_rbk_sizes(S)
    rule_end_layer(S)
    rule_key(S)
    rule_asc(S)
    # every visited border applies the walk's own endpoints (shared with C03): "inside the requested interval"
    from checks.C03 import rule_lft, rule_flt, rule_dsc
    rule_lft(S)
    rule_flt(S)
    rule_dsc(S)
    # the validation primitive itself: a split sends the reader back to the root (shared with C06)
    from checks.C06 import rule_eq
    rule_eq(S)
    # mechanisms this property rests on (checks/shared.py)
    from checks import shared
    shared.version_word(S)
    shared.permutation_word(S)
    shared.descent(S)
    shared.writers_dirty(S)
    shared.structure(S)
    shared.names(S, ('yakushima::scan',))
    shared.gc_safety(S)


def rule_key(S, rule='R-KEY'):
    """R-KEY: the key reported for an entry is rebuilt for that entry (finding of seed C13e)."""
    from yk.flow import Explorer
    facts = S.facts()
    S.rule(rule, 'scan_border<V>: the std::string holding the full key of the visited entry is (re)defined - declared, '
                 'assigned, or cut back to the layer prefix (assign / replace / resize / erase / clear / operator=) - on '
                 'every path from the start of an entry visit (the rank -> slot lookup) to its use in a push or a nested '
                 'scan; an append alone extends whatever the previous entry (or the aborted pass before a retry) left')
    REDEF = ('assign', 'replace', 'resize', 'erase', 'clear', 'operator=')
    n = 0
    for f in [g for g in facts.by_qname(Y + 'scan_border') if not g.is_lambda]:
        # the key buffer: a std::string local that is handed to the result push / the nested scan
        strs = {v['id']: v['name'] for nd in f.all_nodes() if nd['k'] == 'DeclStmt' for v in nd.get('vars', [])
                if v['type'].replace('const ', '').startswith('std::basic_string<char') or v['type'] == 'std::string'}
        lambdas = list(facts.lambdas_of(f))
        used = set()
        for g in [f] + lambdas:
            for nd in g.all_nodes():
                if nd['k'] in CALL_KINDS and (nd.get('cn') in ('emplace_back', 'push_back', 'make_tuple') or
                                             (nd.get('callee') or '').startswith(Y + 'scan')):
                    for a in call_args(g, nd):
                        for x in g.walk(a):
                            if x['k'] == 'DeclRefExpr' and x.get('id') in strs:
                                used.add(x['id'])
        if len(used) != 1:
            raise AnalysisBroken('%s: the full-key buffer of scan_border was not identified (%d candidates)' % (rule, len(used)))
        key = next(iter(used))
        sites = {}

        def uses_key(g, nd):
            return any(x['k'] == 'DeclRefExpr' and x.get('id') == key for a in call_args(g, nd) for x in g.walk(a))

        def make_step(g):
            def step(ctx, nd, st):
                if is_call(nd, cq=Y + 'permutation::get_index_of_rank'):
                    return 'stale'        # a new entry visit begins
                if nd['k'] == 'DeclStmt' and any(v['id'] == key for v in nd.get('vars', [])):
                    return 'fresh'
                if nd['k'] in CALL_KINDS and nd.get('cn') in REDEF and root_var(g, call_recv(g, nd)) == key:
                    return 'fresh'
                if nd['k'] == 'CXXOperatorCallExpr' and nd.get('cn') == 'operator=' and nd.get('args') and \
                        root_var(g, g.node(nd['args'][0])) == key:
                    return 'fresh'
                tg = R.lambda_target(facts, g, nd)
                if tg is not None:
                    ex2 = Explorer(tg, make_step(tg), None)
                    ex2.run(st)
                    outs = set(ex2.exit_states) | {s_ for s_, _ in ex2.return_states}
                    return list(outs) or [st]
                if nd['k'] in CALL_KINDS and (nd.get('cn') in ('emplace_back', 'push_back') or
                                             (nd.get('callee') or '').startswith(Y + 'scan')) and uses_key(g, nd):
                    e = sites.setdefault('%s at %s' % (nd.get('cn') or 'call', short_loc(nd)), {'ok': True, 'loc': short_loc(nd), 'path': None})
                    if st != 'fresh':
                        e['ok'] = False
                        e['path'] = e['path'] or ctx.witness()
                if nd['k'] == 'ReturnStmt':
                    return st if g is not f else None
                return st
            return step

        Explorer(f, make_step(f), None).run('stale')
        fname = f.qname + '<%s>' % f.targs
        for site, e in sorted(sites.items()):
            n += 1
            S.ob(rule, fname, 'key handed to ' + site, e['ok'],
                 'rebuilt for the visited entry on every path' if e['ok'] else
                 'the key buffer is not rebuilt on some path of an entry visit (e.g. an entry with an empty slice): the '
                 'entry is reported under the key left by the previous entry or by the pass before a retry',
                 loc=e['loc'], path=e['path'])
    S.require(rule, 'uses of the full key in scan_border', n, 2)


SHRINKS = ('erase', 'resize', 'pop_back', 'clear')


def rule_rbk_sizes(S, rule='R-RBK'):
    """Every shrink inside a roll-back closure restores the container to the size that was recorded for *that*
    container (a closure parameter bound at the call sites, or a by-value capture, defined from C.size())."""
    facts = S.facts()
    fns = [f for f in facts.by_qname(Y + 'scan') if f.params and f.params[0]['type'].startswith('yakushima::base_node *')]
    fns += [f for f in facts.by_qname(Y + 'scan_border') if not f.is_lambda]
    n = 0
    for f in fns:
        defs = {}   # local of f -> set of containers whose size() it was defined from ('?' = something else)
        for nd in f.all_nodes():
            tgt = src = None
            if nd['k'] == 'DeclStmt':
                for v in nd.get('vars', []):
                    if 'init' in v and _is_size_t(v['type']):
                        defs.setdefault(v['id'], set()).add(_size_container(f, f.node(v['init'])))
            elif nd['k'] == 'BinaryOperator' and nd.get('op') == '=':
                l = f.strip(f.ch(nd)[0], casts=True)
                if l is not None and l['k'] == 'DeclRefExpr' and _is_size_t(l.get('ty') or ''):
                    defs.setdefault(l['id'], set()).add(_size_container(f, f.ch(nd)[1]))
        for g in facts.lambdas_of(f):
            shr = [x for x in g.all_nodes() if x['k'] == 'CXXMemberCallExpr' and x.get('cn') in SHRINKS]
            if not shr:
                continue
            gparams = [p['id'] for p in g.params]
            ginit = {}
            for nd in g.all_nodes():
                if nd['k'] == 'DeclStmt':
                    for v in nd.get('vars', []):
                        if 'init' in v:
                            ginit[v['id']] = f.node(v['init']) if False else g.node(v['init'])
            calls = [(h, c) for h in [f] + list(facts.lambdas_of(f)) for c in h.all_nodes()
                     if R.lambda_target(facts, h, c) is not None and R.lambda_target(facts, h, c).fid == g.fid]
            for x in shr:
                cont = root_var(g, call_recv(g, x))
                carriers = set()
                seen = set()
                work = [a for a in call_args(g, x)]
                while work:
                    a = work.pop()
                    for y in g.walk(a):
                        if y['k'] == 'DeclRefExpr' and y.get('id') not in seen:
                            seen.add(y['id'])
                            if y['id'] in gparams or (y['id'] in defs and y['id'] not in ginit):
                                carriers.add(y['id'])
                            elif y['id'] in ginit:
                                work.append(ginit[y['id']])
                n += 1
                fname = f.qname + '<%s>' % f.targs
                site = '%s of %s in the roll-back closure at %s' % (x.get('cn'), vname(cont) if cont else '?', short_loc(x))
                if x.get('cn') == 'clear' and not carriers:
                    S.ob(rule, fname, site, False, 'the roll-back empties the container instead of restoring the size recorded at entry (results of enclosing levels are lost)', loc=short_loc(x))
                    continue
                if len(carriers) != 1:
                    S.ob(rule, fname, site, False, 'the shrink does not depend on exactly one recorded size (%s)' % ', '.join(sorted(vname(c) for c in carriers)), loc=short_loc(x))
                    continue
                car = next(iter(carriers))
                recorded_for = set()
                if car in gparams:
                    i = gparams.index(car)
                    for (h, c) in calls:
                        a = call_args(h, c)
                        if c['k'] == 'CXXOperatorCallExpr':
                            a = a[1:]   # the closure object itself
                        av = root_var(h, a[i]) if i < len(a) else None
                        recorded_for |= defs.get(av, {'?'})
                    if not calls:
                        recorded_for.add('?')
                else:
                    recorded_for |= defs.get(car, {'?'})
                recorded_for.discard('0')
                ok = recorded_for == {cont}
                S.ob(rule, fname, site, ok,
                     'restores the size recorded for this container' if ok else
                     'the container is cut back to a size that was recorded for %s: the roll-back removes entries of '
                     'enclosing levels (or leaves entries of the discarded attempt)' % ', '.join(sorted(vname(c) if c not in ('?',) else 'something else' for c in recorded_for)),
                     loc=short_loc(x))
    S.require(rule, 'shrinks in roll-back closures', n, 4)


def _is_size_t(t):
    return t.replace('const', '').strip() in ('std::size_t', 'unsigned long', 'size_t')


def _size_container(f, nd):
    x = f.strip(nd, casts=True)
    if x is not None and x['k'] == 'InitListExpr' and f.ch(x):
        x = f.strip(f.ch(x)[0], casts=True)
    if x is not None and x['k'] in CALL_KINDS and x.get('cn') == 'size':
        return root_var(f, call_recv(f, x)) or '?'
    if x is None or (x['k'] == 'InitListExpr' and not f.ch(x)):
        return '0'
    from yk.facts import cv_through
    if cv_through(f, x) == 0:
        return '0'
    return '?'


def rule_rbk_layer(S):
    facts = S.facts()
    fns = facts.some(Y + 'scan', lambda f: f.params and f.params[0]['type'].startswith('yakushima::base_node *'),
                     'layer scan<V>(base_node*, ...)')
    n = 0
    for f in fns:
        # variables declared outside every loop (function-level sizes)
        cyc = _cyclic_blocks(f)
        pos = f.positions()
        entry_vars = set()
        for b, blk in f.blocks.items():
            if b in cyc:
                continue
            for e in blk.elems:
                nd = f.node(e)
                if nd['k'] == 'DeclStmt':
                    for v in nd.get('vars', []):
                        entry_vars.add(v['id'])
        lambdas = {g.fid: g for g in facts.lambdas_of(f)}
        rb = {fid for fid, g in lambdas.items() if any(x['k'] == 'CXXMemberCallExpr' and x.get('cn') in SHRINKS
                                                       for x in g.all_nodes())}
        sites = {}
        from yk.flow import Explorer

        def step(ctx, nd, st):
            clean, fs = st
            fs = R.track_assign(f, nd, fs, facts)
            if is_call(nd, cq=Y + 'scan_border'):
                return ('dirty', fs)
            tg = R.lambda_target(facts, f, nd)
            if tg is not None and tg.fid in rb:
                a = [root_var(f, x) for x in call_args(f, nd)]
                good = bool(a) and all(x in entry_vars for x in a)
                return ('entry' if good else 'partial', fs)
            if nd['k'] == 'ReturnStmt':
                return None
            return (clean, fs)

        def branch(ctx, blk, idx, st):
            clean, fs = st
            fs2 = R.refine(f, blk, idx, fs)
            if fs2 is None:
                return None
            if blk.term and blk.term.get('k') == 'GotoStmt':
                e = sites.setdefault('goto %s at %s' % (blk.term.get('label'), short_loc(blk.term)),
                                     {'ok': True, 'loc': short_loc(blk.term), 'path': None})
                if clean != 'entry':
                    e['ok'] = False
                    e['path'] = e['path'] or ctx.witness()
            return (clean, fs2)

        Explorer(f, step, branch).run(('entry', frozenset()))
        for site, e in sorted(sites.items()):
            n += 1
            S.ob('R-RBK', 'yakushima::scan<%s>(base_node*)' % f.targs, site, e['ok'],
                 'the retry from the layer root rolls back to the sizes recorded at entry' if e['ok'] else
                 'the layer scan retries from its root without rolling back to the sizes recorded at entry',
                 loc=e['loc'], path=e['path'])
    S.require('R-RBK', 'retry edges of the layer scan', n, 2)


def rule_end_layer(S):
    """R-END: a scan level reports success only after a border visit ended with OK_SCAN_END."""
    facts = S.facts()
    from yk.flow import Explorer
    S.rule('R-END', 'layer scan<V>(base_node*, ...): `return status::OK` is reached only with the result of the last '
                    'scan_border call established to be OK_SCAN_END (a layer is never reported scanned without having '
                    'been scanned: a deleted-but-still-root interior layer root is being collapsed and its surviving '
                    'child holds keys)')
    fns = facts.some(Y + 'scan', lambda f: f.params and f.params[0]['type'].startswith('yakushima::base_node *'))
    n = 0
    for f in fns:
        exits = {}
        is_status = lambda t: (t or '').replace('const ', '').strip() == 'yakushima::status'

        def step(ctx, nd, st):
            var, fs = st
            fs = R.track_assign(f, nd, fs, facts, tracked_types=(is_status,))
            if is_call(nd, cq=Y + 'scan_border'):
                return (R.assigned_var(f, nd), fs)
            if nd['k'] == 'ReturnStmt':
                if R.ret_const(f, nd, fs) == Y + 'status::OK':
                    trail = R.branch_trail(ctx.ex, ctx.key, f, 1)
                    e = exits.setdefault('%s after [%s]' % (R.ret_desc(f, nd), '; '.join(trail)),
                                         {'ok': True, 'loc': short_loc(nd), 'path': None})
                    good = var is not None and R.facts_get(fs, var) == 'in:' + Y + 'status::OK_SCAN_END'
                    if not good:
                        e['ok'] = False
                        e['path'] = e['path'] or ctx.witness()
                return None
            return (var, fs)

        def branch(ctx, blk, idx, st):
            fs2 = R.refine(f, blk, idx, st[1], tracked=is_status)
            return None if fs2 is None else (st[0], fs2)

        Explorer(f, step, branch).run((None, frozenset()))
        for site, e in sorted(exits.items()):
            n += 1
            S.ob('R-END', 'yakushima::scan<%s>(base_node*)' % f.targs, site, e['ok'],
                 'success only after a border visit ended the range' if e['ok'] else
                 'the layer scan reports OK without (or not as the outcome of) scanning a border of that layer: keys '
                 'of the layer are silently missing from the result and from the node set', loc=e['loc'], path=e['path'])
    S.require('R-END', 'OK exits of the layer scan', n, 2)


def _cyclic_blocks(f):
    """Blocks that lie on a CFG cycle."""
    reach = {}
    for b in f.blocks:
        seen = set()
        st = [s for s in f.blocks[b].succ if s is not None]
        while st:
            x = st.pop()
            if x in seen:
                continue
            seen.add(x)
            st.extend(s for s in f.blocks[x].succ if s is not None)
        reach[b] = seen
    return {b for b in f.blocks if b in reach[b]}
