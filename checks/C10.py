"""C10 - the cursor API (iscan) enumerates the scan interval in both directions.

Decided (structural, necessary conditions; DESIGN.md section 5 / C10):
  R-VAL  iscan_open validates its arguments exactly like scan, before any tree access, and normalises an INF left end
  R-VAR  only validated data is yielded or descended into (iscan_findnext: RangeReader typestate with
         iscan_check_retry; iscan_findfirst: validate-after-read typestate)  / R-RV remove-visible validation
  R-ORD  neighbour pointer, version and permutation are loaded before the final check and handed over unchanged
  R-EA   with early_abort a failed version check is never followed by a silent retry
  R-CB   the node-version callback is invoked before the cursor leaves a border (shared with C05)
  R-RES  the resume state is written on every yielding exit
"""
from yk.facts import (AnalysisBroken, CALL_KINDS, call_args, call_recv, is_call, root_var, short_loc, term, term_str,
                      vname)
from yk.flow import Explorer
from yk import rules as R
from checks import occ, scanocc, C03

Y = 'yakushima::'
OKS = Y + 'status::OK'
INCL = Y + 'scan_endpoint::INCLUSIVE'


_FN_MEMO = {}


def findnext_reader(S):
    facts = S.facts()
    if '_c10_findnext' not in facts.__dict__:
        facts.__dict__['_c10_findnext'] = _findnext_reader(S)
    return facts.__dict__['_c10_findnext']


def _findnext_reader(S):
    facts = S.facts()
    f = facts.one(Y + 'iscan_findnext')
    bn = [v['id'] for n in f.all_nodes() if n['k'] == 'DeclStmt' for v in n['vars']
          if v['type'] == 'yakushima::border_node *' and 'init' in v and
          any(x['k'] == 'MemberExpr' and x.get('name') == 'bn' for x in f.walk(v['init']))]
    vfb = [v['id'] for n in f.all_nodes() if n['k'] == 'DeclStmt' for v in n['vars']
           if v['type'] == 'yakushima::node_version64_body' and 'init' in v and
           any(x['k'] == 'MemberExpr' and x.get('name') == 'v_prev' for x in f.walk(v['init']))]
    if len(bn) != 1 or len(vfb) != 1:
        raise AnalysisBroken('iscan_findnext: cursor locals (border, validated version) not found')
    rr = scanocc.RangeReader(S, f, Y + 'iscan_check_retry', bn[0], vfb[0], 'iscan')
    rr.run()
    return f, rr


def rule_var(S):
    facts = S.facts()
    S.rule('R-VAR', 'iscan_findnext: every yielded value and every descent into a next layer uses only node data loaded '
                    'before an iscan_check_retry(bn, v_at_fb, perm) established OK; iscan_findfirst: a slot value / '
                    'next-layer link reaches a success exit only after a later valid stable-version re-check')
    S.rule('R-RV', 'values yielded by the cursor are validated against a concurrent remove: iscan_check_retry '
                   're-compares the permutation word; the inclusive-start hit of iscan_findfirst re-compares the '
                   'permutation word loaded before the lookup')
    S.rule('R-ORD', 'iscan_findnext hand-over (bn = to_bn; v_at_fb = to_version; perm := to_perm_body): the values were '
                    'loaded before the final check, the final check is established OK, nothing is re-loaded afterwards')
    f, rr = findnext_reader(S)
    S.count('RangeReader(iscan): CFG visits', rr.visits)
    n = 0
    for kind, rule, okt in (('push', 'R-VAR', 'only validated data is yielded / followed'),
                            ('ret', 'R-VAR', 'the visit ends validated'),
                            ('rv', 'R-RV', 'validated against a concurrent remove'),
                            ('hand', 'R-ORD', 'values loaded before the validated final check are handed over')):
        for site, e in sorted(rr.sites[kind].items()):
            n += 1
            S.ob(rule, f.qname, site, e['ok'], okt if e['ok'] else e['why'], loc=e['loc'], path=e['path'])
    S.require('R-VAR', 'sites of iscan_findnext', n, 8)
    S.require('R-ORD', 'hand-over stores of iscan_findnext', len(rr.sites['hand']), 2)
    g = facts.one(Y + 'iscan_findfirst')
    e, d, r, nf = occ.point_reader(S, g, check_rv=True)
    S.require('R-VAR', 'value exits of iscan_findfirst', e, 1)
    S.require('R-VAR', 'layer descents of iscan_findfirst', d, 1)


def rule_val(S):
    facts = S.facts()
    S.rule('R-VAL', 'iscan_open(storage name, ...): same null-data tests and check_empty_scan_range(l_key,l_end,r_key,'
                    'r_end) as scan, before the storage lookup; rejecting conditions return ERR_BAD_USAGE; every '
                    'non-forwarding return sets context = nullptr; the call of the tree-level iscan_open is reached only '
                    'with l_end != INF (an INF left end is normalised to ("", INCLUSIVE))')
    fns = [f for f in facts.by_qname(Y + 'iscan_open') if f.params and C03.is_sv(f.params[0]['type'])]
    if len(fns) != 1:
        raise AnalysisBroken('R-VAL: name-based iscan_open not found')
    f = fns[0]
    C03.validate_function(S, f, f.qname + '(storage name)', rule='R-VAL', need_rtl=False)
    prs = C03.pairs_of(f)
    (_, lk, le) = prs[0]
    ctxp = [p['id'] for p in f.params if 'iscan_context' in p['type']]
    res = {'fw': {}, 'ctx': {}}

    def step(ctx, nd, st):
        fs, ctxnull = st
        fs = R.track_assign(f, nd, fs, facts, tracked_types=(C03.is_ep,))
        if nd['k'] == 'BinaryOperator' and nd.get('op') == '=' and ctxp and root_var(f, f.ch(nd)[0]) == ctxp[0]:
            return (fs, R.const_of(f, f.ch(nd)[1]) == 'null')
        if is_call(nd, cq=Y + 'iscan_open'):
            e = res['fw'].setdefault(short_loc(nd), {'ok': True, 'path': None})
            if not C03.excludes_inf(fs, le):
                e['ok'] = False
                e['path'] = ctx.witness()
            return (fs, ctxnull)
        if nd['k'] == 'ReturnStmt':
            c = f.strip(f.ch(nd)[0], casts=True) if f.ch(nd) else None
            if not (c is not None and is_call(c, cq=Y + 'iscan_open')):
                e = res['ctx'].setdefault(R.ret_desc(f, nd), {'ok': True, 'loc': short_loc(nd), 'path': None})
                if not ctxnull:
                    e['ok'] = False
                    e['path'] = ctx.witness()
            return None
        return (fs, ctxnull)

    def branch(ctx, blk, idx, st):
        fs2 = R.refine(f, blk, idx, st[0], tracked=C03.is_ep)
        return None if fs2 is None else (fs2, st[1])

    Explorer(f, step, branch).run((frozenset(), False))
    S.require('R-VAL', 'forwarding calls of iscan_open', len(res['fw']), 1)
    for loc, e in sorted(res['fw'].items()):
        S.ob('R-VAL', f.qname, 'forward at ' + loc, e['ok'],
             'the tree-level cursor is opened only with a bounded (normalised) left end' if e['ok'] else
             'the tree-level iscan_open can be reached with l_end == INF and the caller\'s left key', loc=loc, path=e['path'])
    for site, e in sorted(res['ctx'].items()):
        S.ob('R-VAL', f.qname, site + ' clears context', e['ok'],
             'context = nullptr before the early return' if e['ok'] else 'an early return leaves `context` unset',
             loc=e['loc'], path=e['path'])


def rule_ea(S):
    facts = S.facts()
    S.rule('R-EA', 'iscan_findnext with early_abort == true: after an iscan_check_retry whose result is not OK no '
                   '`goto retry_*` is taken (the next exit is `return WARN_CONCURRENT_OPERATIONS`); not covered: the '
                   'neighbour-link consistency retries and iscan_findfirst')
    f = facts.one(Y + 'iscan_findnext')
    ea = [v['id'] for n in f.all_nodes() if n['k'] == 'DeclStmt' for v in n['vars'] if v['type'] == 'bool' and
          'init' in v and any(is_call(x, cq=Y + 'iscan_context::get_early_abort') for x in f.walk(v['init']))]
    if len(ea) != 1:
        raise AnalysisBroken('R-EA: early_abort local not found')
    ea = ea[0]
    sites = {}
    checks = {}
    is_status = scanocc.is_status

    def step(ctx, nd, st):
        fs, chk = st
        fs = R.track_assign(f, nd, fs, facts, tracked_types=(is_status,))
        if is_call(nd, cq=Y + 'iscan_check_retry'):
            v = R.assigned_var(f, nd)
            checks.setdefault(short_loc(nd), True)
            return (fs, v)
        if nd['k'] == 'ReturnStmt':
            return None
        return (fs, chk)

    def branch(ctx, blk, idx, st):
        fs, chk = st
        fs2 = R.refine(f, blk, idx, fs, assume={ea: 'T'}, tracked=lambda t: is_status(t) or t == 'bool')
        if fs2 is None:
            return None
        if blk.term and blk.term.get('k') == 'GotoStmt' and (blk.term.get('label') or '').startswith('retry'):
            v = R.facts_get(fs2, chk) if chk else None
            failed = v is not None and v.startswith('in:') and OKS not in v[3:].split('|')
            e = sites.setdefault('goto %s at %s' % (blk.term['label'], short_loc(blk.term)),
                                 {'ok': True, 'loc': short_loc(blk.term), 'path': None})
            if failed:
                e['ok'] = False
                e['path'] = e['path'] or ctx.witness()
            return (fs2, None)
        return (fs2, chk)

    Explorer(f, step, branch).run((frozenset([(ea, 'T')]), None))
    S.require('R-EA', 'version checks in iscan_findnext reachable with early_abort', len(checks), 3)
    S.require('R-EA', 'retry edges examined', len(sites), 4)
    for site, e in sorted(sites.items()):
        S.ob('R-EA', f.qname, site, e['ok'],
             'not reachable after a failed version check when early_abort is set' if e['ok'] else
             'with early_abort set, a failed version check is followed by a silent retry instead of '
             'WARN_CONCURRENT_OPERATIONS', loc=e['loc'], path=e['path'])


def is_cb_call(f, nd, cbp):
    return nd['k'] == 'CXXOperatorCallExpr' and (nd.get('cq') or '').startswith('std::function') and \
        nd.get('args') and root_var(f, nd['args'][0]) == cbp


def rule_cb(S, rule='R-CB'):
    facts = S.facts()
    S.rule(rule, 'iscan_findnext: every exit of the per-border iteration (value yield, descent, range end, neighbour '
                 'hand-over, end of layer) is preceded by bnv_cb(bn->get_version_ptr(), v_at_fb) on the current border, '
                 'except on the path that established eep == INCLUSIVE && last_key == ekt (empty callback range); a '
                 'true callback result returns WARN_ABORTED_BY_USER. iscan_findfirst: the empty-tree exit calls the '
                 'callback; an exit that hands the border to iscan_findnext without a callback either has a start '
                 'endpoint that is not INCLUSIVE or took the negative edge of the same skip condition '
                 '(get_end_point() == INCLUSIVE && key_tup == <end tuple>) that iscan_findnext will evaluate')
    f, rr = findnext_reader(S)
    cbp = [p['id'] for p in f.params if 'std::function' in p['type']][0]
    bnv = rr.bn
    sites = {}
    abort_ok = {'ok': True}
    ep_vars = {v['id'] for n in f.all_nodes() if n['k'] == 'DeclStmt' for v in n['vars']
               if v['type'].replace('const ', '') == 'yakushima::scan_endpoint'}

    def need(ctx, nd, st, what):
        cb, fs, a_true = st
        e = sites.setdefault(what, {'ok': True, 'loc': short_loc(nd), 'path': None})
        if cb not in ('Y', 'X'):
            e['ok'] = False
            e['path'] = e['path'] or ctx.witness()

    def step(ctx, nd, st):
        cb, fs, a_true = st
        if is_cb_call(f, nd, cbp):
            a = call_args(f, nd)
            good = len(a) >= 2 and any(is_call(x, cq=Y + 'base_node::get_version_ptr') and
                                       root_var(f, call_recv(f, x)) == bnv for x in f.walk(a[0])) and \
                root_var(f, a[1]) == rr.vfb
            return ('Y' if good else cb, fs, a_true)
        if nd['k'] == 'BinaryOperator' and nd.get('op') == '=':
            lhs = f.strip(f.ch(nd)[0])
            if lhs is not None and lhs['k'] == 'DeclRefExpr' and lhs.get('id') == bnv:
                need(ctx, nd, st, 'neighbour hand-over at ' + short_loc(nd))
                return ('N', fs, a_true)
            if lhs is not None and lhs['k'] == 'DeclRefExpr' and lhs.get('id') in rr.out_params:
                need(ctx, nd, st, 'value yield at ' + short_loc(nd))
        if nd['k'] == 'DeclStmt' and any(v['id'] == bnv for v in nd.get('vars', [])):
            return ('N', fs, a_true)
        if is_call(nd, cq=Y + 'iscan_context::stack'):
            need(ctx, nd, st, 'descent at ' + short_loc(nd))
            return ('N', fs, a_true)
        if nd['k'] == 'ReturnStmt':
            rc = R.ret_const(f, nd, fs)
            if rc in (Y + 'status::OK_SCAN_END', Y + 'status::OK_SCAN_CONTINUE'):
                trail = R.branch_trail(ctx.ex, ctx.key, f, 1)
                if not any('new_mt_root' in t for t in trail):
                    need(ctx, nd, st, '%s after [%s]' % (R.ret_desc(f, nd), '; '.join(trail)))
            return None
        return (cb, fs, a_true)

    def is_skip_cond(t):
        """(eep == INCLUSIVE) && (last_key == ekt), possibly negated: returns (core term, negated)"""
        neg = False
        while t[0] == 'un' and t[1] == '!':
            neg = not neg
            t = t[2]
        if t[0] == 'bin' and t[1] == '&&':
            parts = [t[2], t[3]]
            has_incl = any(p[0] == 'bin' and p[1] == '==' and p[3] == ('enum', INCL) for p in parts)
            has_eq = any(p[0] == 'call' and (p[1] or '').endswith('key_tuple::operator==') for p in parts)
            if has_incl and has_eq:
                return t, neg
        return None, neg

    def branch(ctx, blk, idx, st):
        cb, fs, atoms = st
        fs2 = fs
        if blk.term and blk.term.get('k') == 'GotoStmt' and blk.term.get('label') in ('retry_from_root', 'retry_after_fb'):
            return ('N', fs2, atoms)
        if blk.term and blk.term.get('k') == 'GotoStmt' and blk.term.get('label') == 'next_layer':
            return ('N', fs2, frozenset())
        if blk.term and 'cond' in blk.term and len(blk.succ) == 2:
            t = term(f, blk.term['cond'])
            core, neg = is_skip_cond(t)
            if core is not None:
                v = R.eval_bool(core, dict(atoms))
                taken_core_true = (idx == 0) != neg
                if v is not None and v != taken_core_true:
                    return None  # infeasible: contradicts the atoms established on this path
                if taken_core_true:
                    return ('X', fs2, atoms)
                return (cb, fs2, atoms)
            if (t[0] == 'bin' and t[1] == '==' and t[3] == ('enum', INCL)) or \
                    (t[0] == 'call' and (t[1] or '').endswith('key_tuple::operator==')):
                d = dict(atoms)
                d[t] = (idx == 0)
                return (cb, fs2, frozenset(d.items()))
        return (cb, fs2, atoms)

    Explorer(f, step, branch).run(('N', frozenset(), frozenset()))
    S.require(rule, 'exits of the per-border iteration of iscan_findnext', len(sites), 5)
    for site, e in sorted(sites.items()):
        S.ob(rule, f.qname, site, e['ok'],
             'the border was reported to the callback (or the callback range is empty)' if e['ok'] else
             'the cursor leaves / stops in a border without having invoked the node-version callback for it', loc=e['loc'],
             path=e['path'])
    # a true callback result aborts
    ab = 0
    for b, blk in f.blocks.items():
        if blk.term and 'cond' in blk.term and len(blk.succ) == 2:
            c = f.strip(blk.term['cond'], casts=True)
            if c is not None and is_cb_call(f, c, cbp):
                tb = f.blocks[blk.succ[0]] if blk.succ[0] is not None else None
                rets = [f.node(e) for e in (tb.elems if tb else []) if f.node(e)['k'] == 'ReturnStmt']
                ok = bool(rets) and R.ret_const(f, rets[0]) == Y + 'status::WARN_ABORTED_BY_USER'
                ab += 1
                S.ob(rule, f.qname, 'callback result at ' + short_loc(c), ok,
                     'true aborts with WARN_ABORTED_BY_USER' if ok else 'a true callback result does not abort the cursor',
                     loc=short_loc(c))
    S.require(rule, 'callback sites of iscan_findnext', ab, 4)

    # ---- iscan_findfirst --------------------------------------------------------------------------
    g = facts.one(Y + 'iscan_findfirst')
    cbp2 = [p['id'] for p in g.params if 'std::function' in p['type']][0]
    ep = [v['id'] for n in g.all_nodes() if n['k'] == 'DeclStmt' for v in n['vars']
          if v['type'].replace('const ', '') == 'yakushima::scan_endpoint']
    sites2 = {}

    def step2(ctx, nd, st):
        cb, fs, mirror = st
        fs = R.track_assign(g, nd, fs, facts)
        if is_cb_call(g, nd, cbp2):
            return ('Y', fs, mirror)
        if is_call(nd, cq=Y + 'find_border'):
            return ('N', fs, False)
        if nd['k'] == 'ReturnStmt':
            rc = R.ret_const(g, nd, fs)
            if rc in (Y + 'status::OK_SCAN_CONTINUE', Y + 'status::OK_SCAN_END'):
                trail = R.branch_trail(ctx.ex, ctx.key, g, 1)
                if any('(root == nullptr)' in t for t in trail):
                    return None  # no tree: nothing to report
                start_incl_possible = True
                for e_ in ep:
                    v = R.facts_get(fs, e_)
                    if v and ((v.startswith('in:') and INCL not in v[3:].split('|')) or
                              (v.startswith('!') and INCL in v[1:].split('|'))):
                        start_incl_possible = False
                ok = cb == 'Y' or mirror or (rc.endswith('CONTINUE') and not start_incl_possible)
                e = sites2.setdefault('%s after [%s]' % (R.ret_desc(g, nd), '; '.join(trail)),
                                      {'ok': True, 'loc': short_loc(nd), 'path': None})
                if not ok:
                    e['ok'] = False
                    e['path'] = e['path'] or ctx.witness()
            return None
        return (cb, fs, mirror)

    def branch2(ctx, blk, idx, st):
        cb, fs, mirror = st
        fs2 = R.refine(g, blk, idx, fs)
        if fs2 is None:
            return None
        if blk.term and 'cond' in blk.term and len(blk.succ) == 2 and idx == 1:
            t = term(g, blk.term['cond'])
            if t[0] == 'bin' and t[1] == '==' and t[3] == ('enum', INCL) and t[2][0] == 'call' and \
                    (t[2][1] or '').endswith('iscan_context::get_end_point'):
                mirror = True
            if t[0] == 'call' and (t[1] or '').endswith('key_tuple::operator==') and \
                    any(x == ('var', 'key_tup') or (x[0] == 'var') for x in ([t[2]] + list(t[3]))):
                mirror = True
        return (cb, fs2, mirror)

    Explorer(g, step2, branch2).run(('N', frozenset(), False))
    S.require(rule, 'exits of iscan_findfirst that stop or pass on', len(sites2), 3)
    for site, e in sorted(sites2.items()):
        S.ob(rule, g.qname, site, e['ok'],
             'the border is reported here, or iscan_findnext is going to report it' if e['ok'] else
             'the border is handed to iscan_findnext without a callback although iscan_findnext may skip its own '
             '(end point INCLUSIVE and the position equals the end tuple): the node-version set can be empty',
             loc=e['loc'], path=e['path'])


def rule_res(S):
    facts = S.facts()
    S.rule('R-RES', 'iscan_findnext: before `return OK` (value yield) and before pushing a child layer the stack top '
                    'receives bn, key and perm_rank (resume after this entry); the neighbour hand-over stores bn, '
                    'perm_rank, v_prev and perm_prev')
    f = facts.one(Y + 'iscan_findnext')
    sites = {}

    def top_field(nd):
        """field name if nd writes a field of ctx->stack_top()"""
        if nd['k'] == 'BinaryOperator' and nd.get('op') == '=':
            l = f.strip(f.ch(nd)[0])
        elif nd['k'] == 'CXXOperatorCallExpr' and nd.get('cn') == 'operator=':
            l = f.strip(f.node(nd['args'][0]))
        elif nd['k'] == 'CXXMemberCallExpr' and nd.get('cn') == 'set_body':
            l = f.strip(call_recv(f, nd))
        else:
            return None
        if l is not None and l['k'] == 'MemberExpr':
            r = f.strip(l, casts=True)
            names = []
            while r is not None and r['k'] == 'MemberExpr':
                names.append(r['name'])
                r = f.strip(f.ch(r)[0], casts=True)
            if r is not None and (is_call(r, cq=Y + 'iscan_context::stack_top') or
                                  (r['k'] == 'DeclRefExpr' and r.get('name') == 'st')):
                return names[0]
        return None

    def step(ctx, nd, st):
        fld = top_field(nd)
        if fld:
            return st | {fld}
        if is_call(nd, cq=Y + 'iscan_check_retry'):
            return frozenset()
        if is_call(nd, cq=Y + 'iscan_context::stack'):
            e = sites.setdefault('descent at ' + short_loc(nd), {'ok': True, 'loc': short_loc(nd), 'path': None, 'miss': ''})
            miss = {'bn', 'key', 'perm_rank'} - st
            if miss:
                e['ok'] = False
                e['miss'] = ', '.join(sorted(miss))
                e['path'] = ctx.witness()
            return st
        if nd['k'] == 'ReturnStmt':
            if R.ret_const(f, nd) == OKS:
                e = sites.setdefault('yield at ' + short_loc(nd), {'ok': True, 'loc': short_loc(nd), 'path': None, 'miss': ''})
                miss = {'bn', 'key', 'perm_rank'} - st
                if miss:
                    e['ok'] = False
                    e['miss'] = ', '.join(sorted(miss))
                    e['path'] = ctx.witness()
            return None
        return st

    def branch(ctx, blk, idx, st):
        if blk.term and blk.term.get('k') == 'GotoStmt' and blk.term.get('label') == 'from_neighbor':
            e = sites.setdefault('neighbour hand-over', {'ok': True, 'loc': short_loc(blk.term), 'path': None, 'miss': ''})
            miss = {'bn', 'perm_rank', 'v_prev', 'perm_prev'} - st
            if miss:
                e['ok'] = False
                e['miss'] = ', '.join(sorted(miss))
                e['path'] = ctx.witness()
        return st

    Explorer(f, step, branch).run(frozenset())
    S.require('R-RES', 'yielding exits of iscan_findnext', len(sites), 3)
    for site, e in sorted(sites.items()):
        S.ob('R-RES', f.qname, site, e['ok'], 'resume state stored' if e['ok'] else
             'the cursor leaves without storing %s in the stack top: the next call resumes at the wrong place' % e['miss'],
             loc=e['loc'], path=e['path'])


def rule_eq(S):
    """iscan_check_retry: the cursor's validation primitive (sibling of scan_check_retry, C06 R-EQ)."""
    facts = S.facts()
    S.rule('R-EQ', 'iscan_check_retry(bn, v_at_fb, perm): `return OK` only when the stable version equals v_at_fb AND the '
                   'permutation word equals perm (negative edges of both inequality tests); the permutation word is read '
                   'between two equal stable versions; `return OK_RETRY_AFTER_FB` only with vsplit equal and not '
                   'deleted, after refreshing both v_at_fb and perm; otherwise OK_RETRY_FROM_ROOT')
    f = facts.one(Y + 'iscan_check_retry')
    vfb = [p['id'] for p in f.params if 'node_version64_body' in p['type']][0]
    perm = [p['id'] for p in f.params if 'permutation' in p['type']][0]
    rets = {}

    def step(ctx, nd, st):
        veq, peq, atoms, rv, rp, sandwich = st
        if is_call(nd, cq=Y + 'permutation::get_body') and root_var(f, call_recv(f, nd)) != perm:
            return (veq, peq, atoms, rv, rp, 'perm-read')
        if is_call(nd, cq=occ.STABLE) and sandwich == 'perm-read':
            return (veq, peq, atoms, rv, rp, 'reverified')
        if nd['k'] == 'CXXOperatorCallExpr' and nd.get('cn') == 'operator=' and nd.get('mcls') == Y + 'node_version64_body':
            a = [root_var(f, x) for x in nd.get('args', [])]
            if a and a[0] == vfb:
                return (veq, peq, atoms, True, rp, sandwich)
        if is_call(nd, cq=Y + 'permutation::set_body') and root_var(f, call_recv(f, nd)) == perm:
            return (veq, peq, atoms, rv, True, sandwich)
        if nd['k'] == 'ReturnStmt':
            rc = R.ret_const(f, nd)
            d = dict(atoms)
            ok, why = True, ''
            if rc == OKS:
                ok = veq is True and peq is True
                why = 'returns OK without version word (%s) and permutation word (%s) both established equal' % (veq, peq)
            elif rc == Y + 'status::OK_RETRY_AFTER_FB':
                ok = d.get('vsplit_eq') is True and d.get('deleted') is False and rv and rp
                why = 'OK_RETRY_AFTER_FB although a split / deletion is not excluded, or v_at_fb / perm not refreshed'
            e = rets.setdefault(R.ret_desc(f, nd), {'ok': True, 'loc': short_loc(nd), 'path': None, 'why': ''})
            if not ok:
                e['ok'] = False
                e['why'] = why
                e['path'] = e['path'] or ctx.witness()
            return None
        return st

    def branch(ctx, blk, idx, st):
        veq, peq, atoms, rv, rp, sandwich = st
        if blk.term and 'cond' in blk.term and len(blk.succ) == 2:
            c = f.strip(blk.term['cond'], casts=True)
            t = term(f, blk.term['cond'])
            if c is not None and c['k'] == 'CXXOperatorCallExpr' and c.get('cn') in ('operator==', 'operator!=') and \
                    c.get('mcls') == Y + 'node_version64_body':
                a = {root_var(f, x) for x in c.get('args', [])}
                if vfb in a:
                    veq = (idx == 0) == (c['cn'] == 'operator==')
            if t[0] == 'bin' and t[1] in ('==', '!=') and any(
                    x[0] == 'call' and x[1] == Y + 'permutation::get_body' for x in (t[2], t[3])):
                peq = (idx == 0) == (t[1] == '==')
            d = dict(atoms)
            for (atom, val, subj, other, direct) in occ.atoms_from_branch(f, blk, idx, None):
                d[atom] = val
            atoms = frozenset(d.items())
        return (veq, peq, atoms, rv, rp, sandwich)

    Explorer(f, step, branch).run((None, None, frozenset(), False, False, None))
    S.require('R-EQ', 'returns of iscan_check_retry', len(rets), 3)
    for site, e in sorted(rets.items()):
        S.ob('R-EQ', f.qname, site, e['ok'], 'as specified' if e['ok'] else e['why'], loc=e['loc'], path=e['path'])


def run(S):
    S.undecided = ['that the sequence of produced keys equals the interval (state machine over depth x direction)',
                   'full-key reconstruction', 'monotonicity under concurrent writers',
                   'early abort in iscan_findfirst and at the neighbour-link consistency retries']
    S.assumptions = ['iscan_check_retry returning OK means version word and permutation word are unchanged '
                     '(its body is covered by the same shape rule as scan_check_retry only through R-RV\'s permutation test)']
    rule_val(S)
    rule_var(S)
    rule_ea(S)
    rule_cb(S)
    rule_res(S)
    rule_eq(S)
