"""C10 - the cursor API (iscan) enumerates the scan interval in both directions.

Decided (structural, necessary conditions; DESIGN.md section 5 / C10):
  R-VAL  iscan_open validates its arguments exactly like scan, before any tree access, and normalises an INF left end
  R-VAR  only validated data is yielded or descended into (iscan_findnext: RangeReader typestate with
         iscan_check_retry; iscan_findfirst: validate-after-read typestate)  / R-RV remove-visible validation
  R-ORD  neighbour pointer, version and permutation are loaded before the final check and handed over unchanged
  R-EA   with early_abort a failed version check is never followed by a silent retry
  R-CB   the node-version callback is invoked before the cursor leaves a border (shared with C05)
  R-RES  the resume state is written on every yielding exit
  R-POP  a layer of the cursor stack is abandoned only when its enumeration ended (iscan_next: iscan_findnext returned
         OK_SCAN_CONTINUE) or a fresh, validated lookup of the layer's link in the upper layers found it gone
         (iscan_findnext: null result of a link-resolving descent); a stale version flag of the *saved* layer root is
         not such evidence (root split / interior root collapse leave the layer populated)
  R-END0  the cursor reports the end of the scan from its stale-root handling only for an empty tree (saved root
         flagged deleted and still the published root)
  R-BACK  the neighbour's back link is tested after the neighbour's version snapshot, on every path to the hand-over
  R-CACHE  a local that only mirrors the saved state of the current stack element (never written back) and is
         changed to the child's value is read by nothing but the push of the child element until it is re-read
  R-LROOT  the layer root saved in a stack element is the root its border was found from (iscan_findfirst / findnext)
  R-STALE  locals of iscan_findnext copied from the stack top are not used after the stack changed (pop / push) unless
         they were re-read from the new stack top
"""
from yk.facts import (AnalysisBroken, CALL_KINDS, call_args, call_recv, is_call, root_var, short_loc, term, term_str,
                      vname)
from yk.flow import Explorer
from yk import rules as R
from checks import occ, scanocc, C03

Y = 'yakushima::'
OKS = Y + 'status::OK'
INCL = Y + 'scan_endpoint::INCLUSIVE'


_FN_MEMO = {}


def cursor_fields(facts):
    """Roles of the fields of the cursor's resume state, found by type in the record layouts (not by name):
    stack_element {key_tuple key; base_node* layer_root; border_node* bn; int compare_to_end; <iterate state> bi},
    iterate state {node_version64_body v_prev; permutation perm_prev; size_t perm_rank}."""
    if '_c10_fields' in facts.__dict__:
        return facts.__dict__['_c10_fields']
    se = None
    for k, v in facts.records.items():
        if k.startswith(Y + 'iscan_context::'):
            tys = [x['type'] for x in v.get('fields', [])]
            if Y + 'border_node *' in tys and Y + 'base_node *' in tys:
                se = v
    if se is None:
        raise AnalysisBroken('cursor stack element record (a border_node* and a base_node* field) not found')
    roles = {}

    def one(rec, ty, role):
        c = [x['name'] for x in rec.get('fields', []) if x['type'] == ty]
        if len(c) != 1:
            raise AnalysisBroken('cursor resume state: no unique field of type %s' % ty)
        roles[role] = c[0]
    one(se, Y + 'border_node *', 'bn')
    one(se, Y + 'base_node *', 'layer_root')
    one(se, Y + 'base_node::key_tuple', 'key')
    one(se, 'int', 'compare_to_end')
    bi = [x for x in se.get('fields', []) if x['type'].startswith(Y + 'iscan_context::')]
    if len(bi) != 1:
        raise AnalysisBroken('cursor stack element: iterate-state field not found')
    roles['bi'] = bi[0]['name']
    br = facts.records.get(bi[0]['type'])
    if br is None:
        raise AnalysisBroken('cursor iterate-state record not found')
    one(br, Y + 'node_version64_body', 'v_prev')
    one(br, Y + 'permutation', 'perm_prev')
    one(br, 'unsigned long', 'perm_rank')
    facts.__dict__['_c10_fields'] = roles
    return roles


def findnext_reader(S):
    facts = S.facts()
    if '_c10_findnext' not in facts.__dict__:
        facts.__dict__['_c10_findnext'] = _findnext_reader(S)
    return facts.__dict__['_c10_findnext']


def _findnext_reader(S):
    facts = S.facts()
    f = facts.one(Y + 'iscan_findnext')
    cf = cursor_fields(facts)
    bn = [v['id'] for n in f.all_nodes() if n['k'] == 'DeclStmt' for v in n['vars']
          if v['type'] == 'yakushima::border_node *' and 'init' in v and
          any(x['k'] == 'MemberExpr' and x.get('name') == cf['bn'] for x in f.walk(v['init']))]
    vfb = [v['id'] for n in f.all_nodes() if n['k'] == 'DeclStmt' for v in n['vars']
           if v['type'] == 'yakushima::node_version64_body' and 'init' in v and
           any(x['k'] == 'MemberExpr' and x.get('name') == cf['v_prev'] for x in f.walk(v['init']))]
    if len(bn) != 1 or len(vfb) != 1:
        raise AnalysisBroken('iscan_findnext: cursor locals (border, validated version) not found')
    rr = scanocc.RangeReader(S, f, Y + 'iscan_check_retry', bn[0], vfb[0], 'iscan')
    rr.run()
    return f, rr


def rule_var(S):
    facts = S.facts()
    S.rule('R-VAR', 'iscan_findnext: every yielded value and every descent into a next layer uses only node data loaded '
                    'before an iscan_check_retry(bn, v_at_fb, perm) established OK; iscan_findfirst: a slot value / '
                    'next-layer link reaches a success exit only after a later valid stable-version re-check')
    S.rule('R-RV', 'values yielded by the cursor are validated against a concurrent remove: iscan_check_retry '
                   're-compares the permutation word; the inclusive-start hit of iscan_findfirst re-compares the '
                   'permutation word loaded before the lookup')
    S.rule('R-ORD', 'iscan_findnext hand-over (bn = to_bn; v_at_fb = to_version; perm := to_perm_body): the values were '
                    'loaded before the final check, the final check is established OK, nothing is re-loaded afterwards')
    f, rr = findnext_reader(S)
    S.count('RangeReader(iscan): CFG visits', rr.visits)
    n = 0
    for kind, rule, okt in (('push', 'R-VAR', 'only validated data is yielded / followed'),
                            ('ret', 'R-VAR', 'the visit ends validated'),
                            ('rv', 'R-RV', 'validated against a concurrent remove'),
                            ('hand', 'R-ORD', 'values loaded before the validated final check are handed over')):
        for site, e in sorted(rr.sites[kind].items()):
            n += 1
            S.ob(rule, f.qname, site, e['ok'], okt if e['ok'] else e['why'], loc=e['loc'], path=e['path'])
    S.require('R-VAR', 'sites of iscan_findnext', n, 8)
    S.require('R-ORD', 'hand-over stores of iscan_findnext', len(rr.sites['hand']), 2)
    g = facts.one(Y + 'iscan_findfirst')
    e, d, r, nf = occ.point_reader(S, g, check_rv=True)
    S.require('R-VAR', 'value exits of iscan_findfirst', e, 1)
    S.require('R-VAR', 'layer descents of iscan_findfirst', d, 1)


def rule_val(S):
    facts = S.facts()
    S.rule('R-VAL', 'iscan_open(storage name, ...): same null-data tests and check_empty_scan_range(l_key,l_end,r_key,'
                    'r_end) as scan, before the storage lookup; rejecting conditions return ERR_BAD_USAGE; every '
                    'non-forwarding return sets context = nullptr; the call of the tree-level iscan_open is reached only '
                    'with l_end != INF (an INF left end is normalised to ("", INCLUSIVE))')
    fns = [f for f in facts.by_qname(Y + 'iscan_open') if f.params and C03.is_sv(f.params[0]['type'])]
    if len(fns) != 1:
        raise AnalysisBroken('R-VAL: name-based iscan_open not found')
    f = fns[0]
    C03.validate_function(S, f, f.qname + '(storage name)', rule='R-VAL', need_rtl=False)
    prs = C03.pairs_of(f)
    (_, lk, le) = prs[0]
    ctxp = [p['id'] for p in f.params if 'iscan_context' in p['type']]
    res = {'fw': {}, 'ctx': {}}

    def step(ctx, nd, st):
        fs, ctxnull = st
        fs = R.track_assign(f, nd, fs, facts, tracked_types=(C03.is_ep,))
        if nd['k'] == 'BinaryOperator' and nd.get('op') == '=' and ctxp and root_var(f, f.ch(nd)[0]) == ctxp[0]:
            return (fs, R.const_of(f, f.ch(nd)[1]) == 'null')
        if is_call(nd, cq=Y + 'iscan_open'):
            e = res['fw'].setdefault(short_loc(nd), {'ok': True, 'path': None})
            if not C03.excludes_inf(fs, le):
                e['ok'] = False
                e['path'] = ctx.witness()
            return (fs, ctxnull)
        if nd['k'] == 'ReturnStmt':
            c = f.strip(f.ch(nd)[0], casts=True) if f.ch(nd) else None
            if not (c is not None and is_call(c, cq=Y + 'iscan_open')):
                e = res['ctx'].setdefault(R.ret_desc(f, nd), {'ok': True, 'loc': short_loc(nd), 'path': None})
                if not ctxnull:
                    e['ok'] = False
                    e['path'] = ctx.witness()
            return None
        return (fs, ctxnull)

    def branch(ctx, blk, idx, st):
        fs2 = R.refine(f, blk, idx, st[0], tracked=C03.is_ep)
        return None if fs2 is None else (fs2, st[1])

    Explorer(f, step, branch).run((frozenset(), False))
    S.require('R-VAL', 'forwarding calls of iscan_open', len(res['fw']), 1)
    for loc, e in sorted(res['fw'].items()):
        S.ob('R-VAL', f.qname, 'forward at ' + loc, e['ok'],
             'the tree-level cursor is opened only with a bounded (normalised) left end' if e['ok'] else
             'the tree-level iscan_open can be reached with l_end == INF and the caller\'s left key', loc=loc, path=e['path'])
    for site, e in sorted(res['ctx'].items()):
        S.ob('R-VAL', f.qname, site + ' clears context', e['ok'],
             'context = nullptr before the early return' if e['ok'] else 'an early return leaves `context` unset',
             loc=e['loc'], path=e['path'])


def rule_ea(S):
    facts = S.facts()
    S.rule('R-EA', 'iscan_findnext with early_abort == true: after an iscan_check_retry whose result is not OK no '
                   '`goto retry_*` is taken (the next exit is `return WARN_CONCURRENT_OPERATIONS`); not covered: the '
                   'neighbour-link consistency retries and iscan_findfirst')
    f = facts.one(Y + 'iscan_findnext')
    ea = [v['id'] for n in f.all_nodes() if n['k'] == 'DeclStmt' for v in n['vars'] if v['type'] == 'bool' and
          'init' in v and any(is_call(x, cq=Y + 'iscan_context::get_early_abort') for x in f.walk(v['init']))]
    if len(ea) != 1:
        raise AnalysisBroken('R-EA: early_abort local not found')
    ea = ea[0]
    sites = {}
    checks = {}
    is_status = scanocc.is_status

    def step(ctx, nd, st):
        fs, chk = st
        fs = R.track_assign(f, nd, fs, facts, tracked_types=(is_status,))
        if is_call(nd, cq=Y + 'iscan_check_retry'):
            v = R.assigned_var(f, nd)
            checks.setdefault(short_loc(nd), True)
            return (fs, v)
        if nd['k'] == 'ReturnStmt':
            return None
        return (fs, chk)

    def branch(ctx, blk, idx, st):
        fs, chk = st
        fs2 = R.refine(f, blk, idx, fs, assume={ea: 'T'}, tracked=lambda t: is_status(t) or t == 'bool')
        if fs2 is None:
            return None
        if blk.term and blk.term.get('k') == 'GotoStmt' and (blk.term.get('label') or '').startswith('retry'):
            v = R.facts_get(fs2, chk) if chk else None
            failed = v is not None and v.startswith('in:') and OKS not in v[3:].split('|')
            e = sites.setdefault('goto %s at %s' % (blk.term['label'], short_loc(blk.term)),
                                 {'ok': True, 'loc': short_loc(blk.term), 'path': None})
            if failed:
                e['ok'] = False
                e['path'] = e['path'] or ctx.witness()
            return (fs2, None)
        return (fs2, chk)

    Explorer(f, step, branch).run((frozenset([(ea, 'T')]), None))
    S.require('R-EA', 'version checks in iscan_findnext reachable with early_abort', len(checks), 3)
    S.require('R-EA', 'retry edges examined', len(sites), 4)
    for site, e in sorted(sites.items()):
        S.ob('R-EA', f.qname, site, e['ok'],
             'not reachable after a failed version check when early_abort is set' if e['ok'] else
             'with early_abort set, a failed version check is followed by a silent retry instead of '
             'WARN_CONCURRENT_OPERATIONS', loc=e['loc'], path=e['path'])


def is_cb_call(f, nd, cbp):
    return nd['k'] == 'CXXOperatorCallExpr' and (nd.get('cq') or '').startswith('std::function') and \
        nd.get('args') and root_var(f, nd['args'][0]) == cbp


def rule_cb(S, rule='R-CB'):
    facts = S.facts()
    S.rule(rule, 'iscan_findnext: every exit of the per-border iteration (value yield, descent, range end, neighbour '
                 'hand-over, end of layer) is preceded by bnv_cb(bn->get_version_ptr(), v_at_fb) on the current border, '
                 'except on the path that established eep == INCLUSIVE && last_key == ekt (empty callback range); a '
                 'true callback result returns WARN_ABORTED_BY_USER. iscan_findfirst: the empty-tree exit calls the '
                 'callback; an exit that hands the border to iscan_findnext without a callback either has a start '
                 'endpoint that is not INCLUSIVE or took the negative edge of the same skip condition '
                 '(get_end_point() == INCLUSIVE && key_tup == <end tuple>) that iscan_findnext will evaluate')
    f, rr = findnext_reader(S)
    cbp = [p['id'] for p in f.params if 'std::function' in p['type']][0]
    bnv = rr.bn
    sites = {}
    abort_ok = {'ok': True}
    ep_vars = {v['id'] for n in f.all_nodes() if n['k'] == 'DeclStmt' for v in n['vars']
               if v['type'].replace('const ', '') == 'yakushima::scan_endpoint'}

    def need(ctx, nd, st, what):
        cb, fs, a_true = st
        e = sites.setdefault(what, {'ok': True, 'loc': short_loc(nd), 'path': None})
        if cb not in ('Y', 'X'):
            e['ok'] = False
            e['path'] = e['path'] or ctx.witness()

    def step(ctx, nd, st):
        cb, fs, a_true = st
        if is_cb_call(f, nd, cbp):
            a = call_args(f, nd)
            good = len(a) >= 2 and any(is_call(x, cq=Y + 'base_node::get_version_ptr') and
                                       root_var(f, call_recv(f, x)) == bnv for x in f.walk(a[0])) and \
                root_var(f, a[1]) == rr.vfb
            return ('Y' if good else cb, fs, a_true)
        if nd['k'] == 'BinaryOperator' and nd.get('op') == '=':
            lhs = f.strip(f.ch(nd)[0])
            if lhs is not None and lhs['k'] == 'DeclRefExpr' and lhs.get('id') == bnv:
                need(ctx, nd, st, 'neighbour hand-over at ' + short_loc(nd))
                return ('N', fs, a_true)
            if lhs is not None and lhs['k'] == 'DeclRefExpr' and lhs.get('id') in rr.out_params:
                need(ctx, nd, st, 'value yield at ' + short_loc(nd))
        if nd['k'] == 'DeclStmt' and any(v['id'] == bnv for v in nd.get('vars', [])):
            return ('N', fs, a_true)
        if is_call(nd, cq=Y + 'iscan_context::stack'):
            need(ctx, nd, st, 'descent at ' + short_loc(nd))
            return ('N', fs, a_true)
        if nd['k'] == 'ReturnStmt':
            rc = R.ret_const(f, nd, fs)
            if rc in (Y + 'status::OK_SCAN_END', Y + 'status::OK_SCAN_CONTINUE'):
                trail = R.branch_trail(ctx.ex, ctx.key, f, 1)
                if not any('new_mt_root' in t for t in trail):
                    need(ctx, nd, st, '%s after [%s]' % (R.ret_desc(f, nd), '; '.join(trail)))
            return None
        return (cb, fs, a_true)

    def is_skip_cond(t):
        """(eep == INCLUSIVE) && (last_key == ekt), possibly negated: returns (core term, negated)"""
        neg = False
        while t[0] == 'un' and t[1] == '!':
            neg = not neg
            t = t[2]
        if t[0] == 'bin' and t[1] == '&&':
            parts = [t[2], t[3]]
            has_incl = any(p[0] == 'bin' and p[1] == '==' and p[3] == ('enum', INCL) for p in parts)
            has_eq = any(p[0] == 'call' and (p[1] or '').endswith('key_tuple::operator==') for p in parts)
            if has_incl and has_eq:
                return t, neg
        return None, neg

    def branch(ctx, blk, idx, st):
        cb, fs, atoms = st
        fs2 = fs
        if blk.term and blk.term.get('k') == 'GotoStmt' and blk.term.get('label') in ('retry_from_root', 'retry_after_fb'):
            return ('N', fs2, atoms)
        if blk.term and blk.term.get('k') == 'GotoStmt' and blk.term.get('label') == 'next_layer':
            return ('N', fs2, frozenset())
        if blk.term and 'cond' in blk.term and len(blk.succ) == 2:
            t = term(f, blk.term['cond'])
            core, neg = is_skip_cond(t)
            if core is not None:
                v = R.eval_bool(core, dict(atoms))
                taken_core_true = (idx == 0) != neg
                if v is not None and v != taken_core_true:
                    return None  # infeasible: contradicts the atoms established on this path
                if taken_core_true:
                    return ('X', fs2, atoms)
                return (cb, fs2, atoms)
            if (t[0] == 'bin' and t[1] == '==' and t[3] == ('enum', INCL)) or \
                    (t[0] == 'call' and (t[1] or '').endswith('key_tuple::operator==')):
                d = dict(atoms)
                d[t] = (idx == 0)
                # the skip condition written as a short-circuit `if (a && b)`: both conjuncts established true on this path
                if idx == 0 and t[0] == 'call' and any(k_[0] == 'bin' and k_[1] == '==' and k_[3] == ('enum', INCL) and v_
                                                       for k_, v_ in d.items()):
                    return ('X', fs2, frozenset(d.items()))
                return (cb, fs2, frozenset(d.items()))
        return (cb, fs2, atoms)

    Explorer(f, step, branch).run(('N', frozenset(), frozenset()))
    S.require(rule, 'exits of the per-border iteration of iscan_findnext', len(sites), 5)
    for site, e in sorted(sites.items()):
        S.ob(rule, f.qname, site, e['ok'],
             'the border was reported to the callback (or the callback range is empty)' if e['ok'] else
             'the cursor leaves / stops in a border without having invoked the node-version callback for it', loc=e['loc'],
             path=e['path'])
    # a true callback result aborts: on the true edge of a test of the callback's result (directly, or of the local /
    # helper result that holds it) the next return is WARN_ABORTED_BY_USER
    cb_sites = {}

    def astep(ctx, nd, st):
        if nd['k'] == 'ReturnStmt':
            if st is not None and st != 'no':
                e = cb_sites[st]
                if R.ret_const(f, nd) != Y + 'status::WARN_ABORTED_BY_USER':
                    e['ok'] = False
                    e['path'] = e['path'] or ctx.witness()
            return None
        return st

    def abranch(ctx, blk, idx, st):
        if blk.term and blk.term.get('k') == 'GotoStmt' and st not in (None, 'no'):
            cb_sites[st]['ok'] = False
            return 'no'
        if blk.term and 'cond' in blk.term and len(blk.succ) == 2:
            c = f.strip(f.node(blk.term['cond']), casts=True)
            truth = idx == 0
            while c is not None and c['k'] == 'UnaryOperator' and c.get('op') == '!':
                truth = not truth
                c = f.strip(f.ch(c)[0], casts=True)
            if c is not None and is_cb_call(f, c, cbp):
                site = short_loc(c)
                cb_sites.setdefault(site, {'ok': True, 'path': None, 'loc': site})
                return site if truth else 'no'
        return st

    Explorer(f, astep, abranch).run('no')
    ab = len(cb_sites)
    for site, e in sorted(cb_sites.items()):
        S.ob(rule, f.qname, 'callback result at ' + site, e['ok'],
             'true aborts with WARN_ABORTED_BY_USER' if e['ok'] else 'a true callback result does not abort the cursor',
             loc=site, path=e['path'])
    S.require(rule, 'callback sites of iscan_findnext', ab, 4)

    # ---- iscan_findfirst --------------------------------------------------------------------------
    g = facts.one(Y + 'iscan_findfirst')
    cbp2 = [p['id'] for p in g.params if 'std::function' in p['type']][0]
    ep = [v['id'] for n in g.all_nodes() if n['k'] == 'DeclStmt' for v in n['vars']
          if v['type'].replace('const ', '') == 'yakushima::scan_endpoint']
    sites2 = {}

    def step2(ctx, nd, st):
        cb, fs, mirror = st
        fs = R.track_assign(g, nd, fs, facts)
        if is_cb_call(g, nd, cbp2):
            return ('Y', fs, mirror)
        if is_call(nd, cq=Y + 'find_border'):
            return ('N', fs, False)
        if nd['k'] == 'ReturnStmt':
            rc = R.ret_const(g, nd, fs)
            if rc in (Y + 'status::OK_SCAN_CONTINUE', Y + 'status::OK_SCAN_END'):
                trail = R.branch_trail(ctx.ex, ctx.key, g, 1)
                if any('(root == nullptr)' in t for t in trail):
                    return None  # no tree: nothing to report
                start_incl_possible = True
                for e_ in ep:
                    v = R.facts_get(fs, e_)
                    if v and ((v.startswith('in:') and INCL not in v[3:].split('|')) or
                              (v.startswith('!') and INCL in v[1:].split('|'))):
                        start_incl_possible = False
                ok = cb == 'Y' or mirror or (rc.endswith('CONTINUE') and not start_incl_possible)
                e = sites2.setdefault('%s after [%s]' % (R.ret_desc(g, nd), '; '.join(trail)),
                                      {'ok': True, 'loc': short_loc(nd), 'path': None})
                if not ok:
                    e['ok'] = False
                    e['path'] = e['path'] or ctx.witness()
            return None
        return (cb, fs, mirror)

    def branch2(ctx, blk, idx, st):
        cb, fs, mirror = st
        fs2 = R.refine(g, blk, idx, fs)
        if fs2 is None:
            return None
        if blk.term and 'cond' in blk.term and len(blk.succ) == 2 and idx == 1:
            t = term(g, blk.term['cond'])
            if t[0] == 'bin' and t[1] == '==' and t[3] == ('enum', INCL) and t[2][0] == 'call' and \
                    (t[2][1] or '').endswith('iscan_context::get_end_point'):
                mirror = True
            if t[0] == 'call' and (t[1] or '').endswith('key_tuple::operator==') and \
                    any(x == ('var', 'key_tup') or (x[0] == 'var') for x in ([t[2]] + list(t[3]))):
                mirror = True
        return (cb, fs2, mirror)

    Explorer(g, step2, branch2).run(('N', frozenset(), False))
    S.require(rule, 'exits of iscan_findfirst that stop or pass on', len(sites2), 3)
    for site, e in sorted(sites2.items()):
        S.ob(rule, g.qname, site, e['ok'],
             'the border is reported here, or iscan_findnext is going to report it' if e['ok'] else
             'the border is handed to iscan_findnext without a callback although iscan_findnext may skip its own '
             '(end point INCLUSIVE and the position equals the end tuple): the node-version set can be empty',
             loc=e['loc'], path=e['path'])


def rule_res(S):
    facts = S.facts()
    S.rule('R-RES', 'iscan_findnext: before `return OK` (value yield) and before pushing a child layer the stack top '
                    'receives bn, key and perm_rank (resume after this entry); the neighbour hand-over stores bn, '
                    'perm_rank, v_prev and perm_prev')
    f = facts.one(Y + 'iscan_findnext')
    sites = {}
    rolename = {v: k for k, v in cursor_fields(facts).items()}

    def top_field(nd):
        """field name if nd writes a field of ctx->stack_top()"""
        if nd['k'] == 'BinaryOperator' and nd.get('op') == '=':
            l = f.strip(f.ch(nd)[0])
        elif nd['k'] == 'CXXOperatorCallExpr' and nd.get('cn') == 'operator=':
            l = f.strip(f.node(nd['args'][0]))
        elif nd['k'] == 'CXXMemberCallExpr' and nd.get('cn') == 'set_body':
            l = f.strip(call_recv(f, nd))
        else:
            return None
        if l is not None and l['k'] == 'MemberExpr':
            r = f.strip(l, casts=True)
            names = []
            while r is not None and r['k'] == 'MemberExpr':
                names.append(r['name'])
                r = f.strip(f.ch(r)[0], casts=True)
            if r is not None and (is_call(r, cq=Y + 'iscan_context::stack_top') or
                                  (r['k'] == 'DeclRefExpr' and 'stack_element' in (r.get('ty') or ''))):
                return rolename.get(names[0], names[0])
        return None

    f_, rr_ = findnext_reader(S)
    bnvar = rr_.bn if hasattr(rr_, 'bn') else None

    def step(ctx, nd, st):
        fld = top_field(nd)
        if fld:
            return st | {fld}
        if nd['k'] == 'BinaryOperator' and nd.get('op') == '=' and bnvar is not None:
            l = f.strip(f.ch(nd)[0], casts=True)
            if l is not None and l['k'] == 'DeclRefExpr' and l.get('id') == bnvar:
                return st | {'#handover'}   # bn = <neighbour>: the next goto is the hand-over edge
        if is_call(nd, cq=Y + 'iscan_check_retry'):
            return frozenset()
        if is_call(nd, cq=Y + 'iscan_context::stack'):
            e = sites.setdefault('descent at ' + short_loc(nd), {'ok': True, 'loc': short_loc(nd), 'path': None, 'miss': ''})
            miss = {'bn', 'key', 'perm_rank'} - st
            if miss:
                e['ok'] = False
                e['miss'] = ', '.join(sorted(miss))
                e['path'] = ctx.witness()
            return st
        if nd['k'] == 'ReturnStmt':
            if R.ret_const(f, nd) == OKS:
                e = sites.setdefault('yield at ' + short_loc(nd), {'ok': True, 'loc': short_loc(nd), 'path': None, 'miss': ''})
                miss = {'bn', 'key', 'perm_rank'} - st
                if miss:
                    e['ok'] = False
                    e['miss'] = ', '.join(sorted(miss))
                    e['path'] = ctx.witness()
            return None
        return st

    def branch(ctx, blk, idx, st):
        if blk.term and blk.term.get('k') == 'GotoStmt' and '#handover' in st:
            e = sites.setdefault('neighbour hand-over', {'ok': True, 'loc': short_loc(blk.term), 'path': None, 'miss': ''})
            miss = {'bn', 'perm_rank', 'v_prev', 'perm_prev'} - st
            if miss:
                e['ok'] = False
                e['miss'] = ', '.join(sorted(miss))
                e['path'] = ctx.witness()
            return st - {'#handover'}
        return st

    Explorer(f, step, branch).run(frozenset())
    S.require('R-RES', 'yielding exits of iscan_findnext', len(sites), 3)
    for site, e in sorted(sites.items()):
        S.ob('R-RES', f.qname, site, e['ok'], 'resume state stored' if e['ok'] else
             'the cursor leaves without storing %s in the stack top: the next call resumes at the wrong place' % e['miss'],
             loc=e['loc'], path=e['path'])


def rule_layer(S):
    """R-POP / R-STALE: the resume stack of the cursor (finding F7)."""
    facts = S.facts()
    S.rule('R-POP', 'cursor stack: `stack_pop()` in iscan_next only with the result of iscan_findnext established '
                    'OK_SCAN_CONTINUE; in iscan_findnext only on the null edge of the result of a link-resolving descent '
                    '(a yakushima function returning base_node* that reaches link_or_value::get_next_layer), evaluated '
                    'since the last stack change; that descent validates the link like get() (R-VAR typestate)')
    S.rule('R-STALE', 'iscan_findnext: a local whose value was read from ctx->stack_top() (directly or through the alias '
                      'pointer to the top element) is not read after stack_pop() / stack() / stack_clear() unless it '
                      'was assigned again')
    S.rule('R-CACHE', 'iscan_findnext: a stack-derived local that is never written back to the stack element (a pure '
                      'mirror of the saved state, e.g. the end-comparison state) may be assigned a value not read from '
                      'the stack only to hand it to ctx->stack(...) (the child element); any other read before it is '
                      're-read from the stack top - in particular after a retry edge - sees the state of a layer the '
                      'cursor did not enter')
    f = facts.one(Y + 'iscan_findnext')
    g = facts.one(Y + 'iscan_next')
    CHG = (Y + 'iscan_context::stack_pop', Y + 'iscan_context::stack', Y + 'iscan_context::stack_clear')
    POP = Y + 'iscan_context::stack_pop'
    GNL = Y + 'link_or_value::get_next_layer'

    # link-resolving descents: yakushima functions with a body that return base_node* and reach get_next_layer
    def is_resolver(fid):
        memo = facts.__dict__.setdefault('_c10_resolver', {})
        if fid not in memo:
            h = facts.get(fid)
            ok = False
            if h is not None and h.blocks and (h.raw.get('ret') or '').replace(' ', '') == 'yakushima::base_node*':
                reach = R.reachable_funcs(facts, [h])
                ok = any(is_call(n, cq=GNL) for r in reach.values() for n in r.all_nodes())
            memo[fid] = ok
        return memo[fid]

    # ---- iscan_findnext ----
    # alias pointers to the top element and locals derived from the top element
    def reads_top(h, n, aliases):
        for x in h.walk(n):
            if is_call(x, cq=Y + 'iscan_context::stack_top'):
                return True
            if x['k'] == 'DeclRefExpr' and x.get('id') in aliases:
                return True
        return False

    aliases = set()
    derived = {}
    for _ in range(2):
        for n in f.all_nodes():
            if n['k'] == 'DeclStmt':
                for v in n.get('vars', []):
                    if 'init' in v and reads_top(f, f.node(v['init']), aliases):
                        derived[v['id']] = v.get('name') or vname(v['id'])
                        if v['type'].rstrip().endswith('*') and 'stack_element' in v['type']:
                            aliases.add(v['id'])
    if len(derived) < 3:
        raise AnalysisBroken('R-STALE: fewer than 3 locals of iscan_findnext are read from the stack top')
    stale_sites = {}
    pop_sites = {}
    uses = [0]

    def top_rooted(h, n):
        r = h.strip(n, casts=True)
        while r is not None and r['k'] == 'MemberExpr':
            r = h.strip(h.ch(r)[0], casts=True)
        return r is not None and (is_call(r, cq=Y + 'iscan_context::stack_top') or
                                  (r['k'] == 'DeclRefExpr' and r.get('id') in aliases))

    written_back = set()
    assigned = set()
    for n in f.all_nodes():
        lhs = rhs = None
        if n['k'] == 'BinaryOperator' and n.get('op') == '=':
            lhs, rhs = f.ch(n)[0], [f.ch(n)[1]]
        elif n['k'] == 'CXXOperatorCallExpr' and n.get('cn') == 'operator=' and len(n.get('args', [])) == 2:
            lhs, rhs = f.node(n['args'][0]), [f.node(n['args'][1])]
        elif n['k'] == 'CXXMemberCallExpr' and n.get('cn') in ('set_body',):
            lhs, rhs = call_recv(f, n), call_args(f, n)
        if lhs is None:
            continue
        l = f.strip(lhs, casts=True)
        if l is not None and l['k'] == 'DeclRefExpr' and l.get('id') in derived:
            assigned.add(l['id'])
        if top_rooted(f, lhs):
            for r in rhs:
                for x in f.walk(r):
                    if x['k'] == 'DeclRefExpr' and x.get('id') in derived:
                        written_back.add(x['id'])
    for n in f.all_nodes():   # by-reference out-parameters of the validation primitive count as write-backs handled by R-RES
        if n['k'] in CALL_KINDS and (n.get('callee') or '').startswith(Y + 'iscan_check_retry'):
            for a in call_args(f, n):
                x = f.strip(a, casts=True)
                if x is not None and x['k'] == 'DeclRefExpr' and x.get('id') in derived:
                    written_back.add(x['id'])
    mirrors = {v for v in derived if v in assigned and v not in written_back and v not in aliases}
    cache_sites = {}

    def lhs_of_assign(h, n):
        p = h.parent(n)
        if p is None:
            return False
        if p['k'] == 'BinaryOperator' and p.get('op') == '=':
            return h.strip(h.ch(p)[0], casts=True) is n
        if p['k'] == 'CXXOperatorCallExpr' and p.get('cn') == 'operator=' and p.get('args'):
            return h.strip(h.node(p['args'][0]), casts=True) is n
        return False

    def step(ctx, n, st):
        stale, nullv, nnv = st
        if n['k'] in CALL_KINDS and n.get('callee', '').split('(')[0] in CHG:
            if n.get('callee', '').split('(')[0] == POP:
                e = pop_sites.setdefault('stack_pop at ' + short_loc(n), {'ok': True, 'loc': short_loc(n), 'path': None})
                if not nullv:
                    e['ok'] = False
                    e['path'] = e['path'] or ctx.witness()
            return (frozenset(derived), frozenset(), frozenset())
        if n['k'] == 'DeclStmt':
            for v in n.get('vars', []):
                stale = stale - {v['id']}
                nullv = nullv - {v['id']}
                nnv = nnv - {v['id']}
            return (stale, nullv, nnv)
        if n['k'] == 'DeclRefExpr' and n.get('id') in derived:
            if lhs_of_assign(f, n):
                return (stale - {n['id']}, nullv, nnv)
            uses[0] += 1
            if n['id'] in stale:
                site = 'use of %s' % derived[n['id']]
                e = stale_sites.setdefault(site, {'loc': short_loc(n), 'path': ctx.witness()})
        return (stale, nullv, nnv)

    res_vars = set()
    for n in f.all_nodes():
        if n['k'] in CALL_KINDS and is_resolver(n.get('callee')):
            v = R.assigned_var(f, n)
            if v is not None:
                res_vars.add(v)

    def branch(ctx, blk, idx, st):
        stale, nullv, nnv = st
        t = blk.term
        if t and len(blk.succ) == 2 and 'cond' in t:
            flip, shape = R.cond_shape(f, t['cond'])
            if shape[0] == 'nonnull' and shape[1] in res_vars:
                truth = (idx == 0) != flip
                if truth:
                    if shape[1] in nullv:
                        return None
                    nnv = nnv | {shape[1]}
                else:
                    if shape[1] in nnv:
                        return None
                    nullv = nullv | {shape[1]}
        return (stale, nullv, nnv)

    ex = Explorer(f, step, branch)
    ex.run((frozenset(), frozenset(), frozenset()))
    S.count('R-STALE: CFG visits', ex.visits)

    # R-CACHE: pure mirrors of the saved element state
    def cstep(ctx, n, div):
        if n['k'] == 'DeclStmt':
            for v in n.get('vars', []):
                div = div - {v['id']}
            return div
        if n['k'] == 'BinaryOperator' and n.get('op') == '=':
            l = f.strip(f.ch(n)[0], casts=True)
            if l is not None and l['k'] == 'DeclRefExpr' and l.get('id') in mirrors:
                if reads_top(f, f.ch(n)[1], aliases):
                    return div - {l['id']}
                return div | {l['id']}
            return div
        if n['k'] == 'DeclRefExpr' and n.get('id') in div and not lhs_of_assign(f, n):
            q = f.parent(n)
            if q is not None and is_call(q, cq=Y + 'iscan_context::stack'):
                return div
            if q is not None and q.get('inl'):
                return div       # the argument of a spliced helper call: its use is the one inside the spliced body
            site = 'read of %s' % derived[n['id']]
            if site not in cache_sites:
                cache_sites[site] = {'loc': short_loc(n), 'path': ctx.witness()}
        if n['k'] == 'ReturnStmt':
            return None
        return div

    if mirrors:
        cex = Explorer(f, cstep, None)
        cex.run(frozenset())
        S.count('R-CACHE: CFG visits', cex.visits)
    S.ob('R-CACHE', f.qname, 'pure mirrors of the saved element state: %s' % (', '.join(sorted(derived[v] for v in mirrors)) or 'none'),
         not cache_sites, 'a value not read from the stack is only handed to the push of the child element' if not cache_sites
         else 'after being set to the state of a child layer that was not entered, the local is read again (%s): the '
              'current layer continues with the wrong state, e.g. without its end bound' % ', '.join(sorted(cache_sites)),
         loc=(sorted(cache_sites.values(), key=lambda e: e['loc'])[0]['loc'] if cache_sites else None),
         path=(sorted(cache_sites.values(), key=lambda e: e['loc'])[0]['path'] if cache_sites else None))
    S.require('R-CACHE', 'pure mirrors of the saved element state in iscan_findnext', len(mirrors), 1)
    S.count('R-STALE: locals read from the stack top', len(derived))
    S.count('R-POP: link-resolving descents called by iscan_findnext', len(res_vars))
    S.ob('R-STALE', f.qname, 'reads of %d stack-derived locals (%s)' % (len(derived), ', '.join(sorted(derived.values()))),
         not stale_sites, 'every read follows a (re-)assignment made after the last stack change' if not stale_sites else
         'stale copies are read after the stack changed: ' + ', '.join(sorted(stale_sites)),
         loc=(sorted(stale_sites.values(), key=lambda e: e['loc'])[0]['loc'] if stale_sites else None),
         path=(sorted(stale_sites.values(), key=lambda e: e['loc'])[0]['path'] if stale_sites else None))
    for site, e in sorted(stale_sites.items()):
        S.ob('R-STALE', f.qname, site, False,
             'read after stack_pop()/stack() without being re-read from the new stack top: the upper layer is resumed '
             'with the state of the abandoned layer', loc=e['loc'], path=e['path'])
    for site, e in sorted(pop_sites.items()):
        S.ob('R-POP', f.qname, site, e['ok'],
             'the layer is abandoned only after a fresh link lookup found it gone' if e['ok'] else
             'a layer is abandoned without a fresh lookup of its link in the upper layers having found it gone: a root '
             'split or an interior-root collapse leaves the layer populated and its remaining keys are skipped',
             loc=e['loc'], path=e['path'])
    # the resolvers validate their link reads
    nres = 0
    for fid in sorted(k for k in facts.__dict__.get('_c10_resolver', {}) if k):
        if facts.__dict__['_c10_resolver'][fid]:
            h = facts.get(fid)
            if any(n['k'] in CALL_KINDS and n.get('callee') == fid for n in f.all_nodes()):
                nres += 1
                e_, d_, r_, nf_ = occ.point_reader(S, h, check_rv=False)
                S.require('R-VAR', 'layer descents of %s' % h.qname, d_, 1)

    # ---- iscan_next ----
    rcv = [v['id'] for n in g.all_nodes() if n['k'] == 'DeclStmt' for v in n.get('vars', [])
           if 'init' in v and any(is_call(x, cq=Y + 'iscan_findnext') for x in g.walk(g.node(v['init'])))]
    if len(rcv) != 1:
        raise AnalysisBroken('R-POP: iscan_next does not bind the result of iscan_findnext to one local')
    rcv = rcv[0]
    npop = {}

    def gstep(ctx, n, fs):
        fs = R.track_assign(g, n, fs, facts)
        if n['k'] in CALL_KINDS and n.get('callee', '').split('(')[0] == POP:
            e = npop.setdefault('stack_pop at ' + short_loc(n), {'ok': True, 'loc': short_loc(n), 'path': None})
            if R.facts_get(fs, rcv) != 'in:' + Y + 'status::OK_SCAN_CONTINUE':
                e['ok'] = False
                e['path'] = ctx.witness()
        if n['k'] == 'ReturnStmt':
            return None
        return fs

    def gbranch(ctx, blk, idx, fs):
        return R.refine(g, blk, idx, fs)

    Explorer(g, gstep, gbranch).run(frozenset())
    for site, e in sorted(npop.items()):
        S.ob('R-POP', g.qname, site, e['ok'],
             'the layer is left after iscan_findnext reported its enumeration complete (OK_SCAN_CONTINUE)' if e['ok']
             else 'a layer is popped although iscan_findnext did not report OK_SCAN_CONTINUE', loc=e['loc'], path=e['path'])
    S.require('R-POP', 'stack_pop sites of iscan_next', len(npop), 1)


def rule_lroot(S):
    """R-LROOT: ctx->stack(key, layer_root, border, ...) saves the root the border was found from (finding F8)."""
    facts = S.facts()
    S.rule('R-LROOT', 'iscan_findfirst / iscan_findnext: at every ctx->stack(key, layer_root, border, ...) the layer_root '
                      'argument is the variable that was the root argument of the last find_border call on the path and '
                      'has not been assigned since (the saved root is what retry_from_root re-descends from)')
    n = 0
    for q in ('iscan_findfirst', 'iscan_findnext'):
        f = facts.one(Y + q)
        sites = {}

        def step(ctx, nd, st):
            last, dirty = st
            if is_call(nd, cq=Y + 'find_border'):
                a = call_args(f, nd)
                return (root_var(f, a[0]) if a else None, False)
            if nd['k'] == 'BinaryOperator' and nd.get('op') == '=':
                if last is not None and root_var(f, f.ch(nd)[0]) == last and \
                        f.strip(f.ch(nd)[0], casts=True)['k'] == 'DeclRefExpr':
                    return (last, True)
            if nd['k'] == 'DeclStmt' and last is not None and any(v['id'] == last for v in nd.get('vars', [])):
                return (None, False)
            if is_call(nd, cq=Y + 'iscan_context::stack'):
                a = call_args(f, nd)
                e = sites.setdefault('push at ' + short_loc(nd), {'ok': True, 'loc': short_loc(nd), 'path': None, 'why': ''})
                rv = root_var(f, a[1]) if len(a) > 1 else None
                why = None
                if last is None:
                    why = 'no find_border call precedes the push on this path'
                elif rv != last:
                    why = 'the saved layer root (%s) is not the root of the last find_border call (%s)' % (
                        vname(rv) if rv else '?', vname(last))
                elif dirty:
                    why = 'the root variable %s was assigned after the find_border call that found the border: the ' \
                          'element names another layer' % vname(last)
                if why and e['ok']:
                    e['ok'] = False
                    e['why'] = why
                    e['path'] = ctx.witness()
                return st
            if nd['k'] == 'ReturnStmt':
                return None
            return st

        Explorer(f, step, None).run((None, False))
        for site, e in sorted(sites.items()):
            n += 1
            S.ob('R-LROOT', f.qname, site, e['ok'], 'the element saves the root its border was found from' if e['ok']
                 else e['why'], loc=e['loc'], path=e['path'])
    S.require('R-LROOT', 'pushes of cursor stack elements', n, 5)


def rule_back(S):
    """R-BACK: neighbour hand-over of iscan_findnext - back-link test after the neighbour's version snapshot."""
    facts = S.facts()
    S.rule('R-BACK', 'iscan_findnext: on every path to the hand-over `bn = to_bn` the test that the neighbour links back '
                     'to bn (to_bn->get_next() / get_prev() == bn) was evaluated after the neighbour\'s stable version '
                     'was taken: a neighbour that split towards bn before the snapshot is then noticed (its upper half '
                     'would otherwise be skipped by a right-to-left cursor); a split after the snapshot is caught by '
                     'the version check of the next visit')
    f = facts.one(Y + 'iscan_findnext')
    bnf = cursor_fields(facts)['bn']
    bn = [v['id'] for n in f.all_nodes() if n['k'] == 'DeclStmt' for v in n['vars']
          if v['type'] == 'yakushima::border_node *' and 'init' in v and
          any(x['k'] == 'MemberExpr' and x.get('name') == bnf for x in f.walk(v['init']))]
    if len(bn) != 1:
        raise AnalysisBroken('R-BACK: the border variable of iscan_findnext was not found')
    bn = bn[0]
    hand = []
    for n in f.all_nodes():
        if n['k'] == 'BinaryOperator' and n.get('op') == '=':
            l, r = f.strip(f.ch(n)[0], casts=True), f.strip(f.ch(n)[1], casts=True)
            if l is not None and l['k'] == 'DeclRefExpr' and l.get('id') == bn and r is not None and \
                    r['k'] == 'DeclRefExpr' and (r.get('ty') or '').replace(' ', '') == 'yakushima::border_node*':
                hand.append((n, r['id']))
    if len(hand) != 1:
        raise AnalysisBroken('R-BACK: expected exactly one hand-over assignment bn = <neighbour>')
    hnode, T = hand[0]
    sites = {}
    seen = {'snap': 0, 'back': 0}

    def step(ctx, n, st):
        snap, back, fs = st
        if is_call(n, cq=occ.STABLE) and root_var(f, call_recv(f, n)) == T:
            seen['snap'] += 1
            return (True, False, fs)
        if n['k'] == 'BinaryOperator' and n.get('op') == '=':
            l = f.strip(f.ch(n)[0], casts=True)
            if l is not None and l['k'] == 'DeclRefExpr' and l.get('id') == T:
                return (False, False, frozenset())
            if n is hnode:
                e = sites.setdefault('hand-over at ' + short_loc(n), {'ok': True, 'loc': short_loc(n), 'path': None})
                if not back:
                    e['ok'] = False
                    e['path'] = e['path'] or ctx.witness()
        if n['k'] == 'DeclStmt' and any(v['id'] == T for v in n.get('vars', [])):
            return (False, False, frozenset())
        if n['k'] == 'ReturnStmt':
            return None
        return (snap, back, fs)

    def is_backlink(x):
        for y in f.walk(x):
            if y['k'] in CALL_KINDS and y.get('cn') in ('get_next', 'get_prev') and root_var(f, call_recv(f, y)) == T:
                return True
        return False

    def branch(ctx, blk, idx, st):
        snap, back, fs = st
        fs = R.refine(f, blk, idx, fs, ptrs={vname(T)})   # null-ness of the neighbour pointer only
        if fs is None:
            return None
        t = blk.term
        if t and len(blk.succ) == 2 and 'cond' in t:
            c = f.strip(f.node(t['cond']))
            flip = False
            while c is not None and c['k'] == 'UnaryOperator' and c.get('op') == '!':
                flip = not flip
                c = f.strip(f.ch(c)[0])
            if c is not None and c['k'] == 'BinaryOperator' and c.get('op') in ('==', '!='):
                a, b = f.ch(c)[0], f.ch(c)[1]
                for x, y in ((a, b), (b, a)):
                    ys = f.strip(y, casts=True)
                    if is_backlink(x) and ys is not None and ys['k'] == 'DeclRefExpr' and ys.get('id') == bn:
                        seen['back'] += 1
                        truth = (idx == 0) != flip
                        equal = truth if c['op'] == '==' else not truth
                        if equal and snap:
                            back = True
        return (snap, back, fs)

    Explorer(f, step, branch).run((False, False, frozenset()))
    S.require('R-BACK', 'neighbour snapshots in iscan_findnext', seen['snap'], 1)
    S.require('R-BACK', 'back-link tests in iscan_findnext', seen['back'], 1)
    for site, e in sorted(sites.items()):
        S.ob('R-BACK', f.qname, site, e['ok'],
             'the neighbour was confirmed to link back to bn after its version snapshot' if e['ok'] else
             'the hand-over is reached without a back-link test made after the neighbour\'s version snapshot: a '
             'neighbour that split towards bn in between is handed over with its post-split version and the keys it '
             'moved are skipped', loc=e['loc'], path=e['path'])
    S.require('R-BACK', 'hand-over sites', len(sites), 1)


def rule_rew(S):
    """R-REW: the saved rank belongs to the permutation word it was saved with."""
    facts = S.facts()
    S.rule('R-REW', 'iscan_findnext: iscan_check_retry may replace the local permutation snapshot (and the validated '
                    'version) with the current words; on every path from such a call to the place where the per-entry '
                    'walk takes its start rank from the resume state, the stored rank was set to 0 (or the cursor moved '
                    'to another stack element): a rank counted in the old word is not a position in the new one - a '
                    'remove below the cursor together with an insert above it keeps the count and shifts a present key '
                    'under the saved rank')
    f = facts.one(Y + 'iscan_findnext')
    cf = cursor_fields(facts)
    rankf = cf['perm_rank']

    def rank_store(nd):
        """(True, is_zero) when nd stores into the rank field of a stack element"""
        if nd['k'] == 'BinaryOperator' and nd.get('op') == '=':
            l = f.strip(f.ch(nd)[0])
            if l is not None and l['k'] == 'MemberExpr' and l.get('name') == rankf:
                r = f.strip(f.ch(nd)[1], casts=True)
                return True, (r is not None and r['k'] == 'IntegerLiteral' and str(r.get('val')) in ('0', 'False'))
        return False, False

    def reads_rank(nd):
        if nd['k'] == 'DeclStmt':
            for v in nd.get('vars', []):
                if 'init' in v and any(x['k'] == 'MemberExpr' and x.get('name') == rankf for x in f.walk(v['init'])):
                    return True
        if nd['k'] == 'BinaryOperator' and nd.get('op') == '=':
            if any(x['k'] == 'MemberExpr' and x.get('name') == rankf for x in f.walk(f.ch(nd)[1])):
                return True
        return False

    sites = {}
    seen = {'chk': 0, 'zero': 0}

    def step(ctx, nd, st):
        if is_call(nd, cq=Y + 'iscan_check_retry'):
            seen['chk'] += 1
            return True
        if is_call(nd, cq=Y + 'iscan_context::stack') or is_call(nd, cq=Y + 'iscan_context::stack_pop'):
            return False
        isst, zero = rank_store(nd)
        if isst:
            if zero:
                seen['zero'] += 1
                return False
            return st
        if reads_rank(nd):
            e = sites.setdefault('start rank read at ' + short_loc(nd), {'ok': True, 'loc': short_loc(nd), 'path': None})
            if st:
                e['ok'] = False
                e['path'] = e['path'] or ctx.witness()
            return st
        if nd['k'] == 'ReturnStmt':
            return None
        return st

    Explorer(f, step, None).run(False)
    S.require('R-REW', 'iscan_check_retry calls in iscan_findnext', seen['chk'], 2)
    S.require('R-REW', 'rank resets', seen['zero'], 1)
    S.require('R-REW', 'places where the walk takes its start rank', len(sites), 1)
    for site, e in sorted(sites.items()):
        S.ob('R-REW', f.qname, site, e['ok'],
             'every path from a re-snapshot to this read resets the stored rank' if e['ok'] else
             'the walk resumes at the saved rank although the permutation snapshot may have been replaced since the rank '
             'was counted: entries that moved below that rank in the new word are never looked at (a key present '
             'throughout the iteration is skipped)', loc=e['loc'], path=e['path'])


def rule_end0(S):
    """R-END0: the stale-root handling of iscan_findnext at layer 0 - scan end only for the empty tree, and no retry
    on the empty tree without progress."""
    facts = S.facts()
    S.rule('R-END0', 'iscan_findnext: a `return OK_SCAN_END` reached after re-reading the tree root pointer (stale saved '
                     'root, layer 0) requires the version of the saved root to be established deleted on that path (a '
                     'deleted root that is still the published root is the empty tree; a root that merely lost its root '
                     'flag is in the middle of a root split); and with the saved root established deleted a retry edge '
                     'after the re-read is taken only when the re-read pointer differs from the saved one (nobody is '
                     'obliged to revive an empty tree: an unconditional retry never returns)')
    f = facts.one(Y + 'iscan_findnext')
    rvs = {v['id'] for n in f.all_nodes() if n['k'] == 'DeclStmt' for v in n.get('vars', [])
           if 'init' in v and 'node_version64_body' in v['type'] and
           any(is_call(x, cq=occ.STABLE) for x in f.walk(f.node(v['init'])))}
    sites = {}
    retry_sites = {}
    seen = {'reload': 0}

    def step(ctx, nd, st):
        reload_, deleted, changed = st
        if nd['k'] == 'DeclStmt' and any(v['id'] in rvs for v in nd.get('vars', [])):
            return (False, '?', '?')
        if is_call(nd, cq=Y + 'tree_instance::load_root_ptr'):
            seen['reload'] += 1
            return (True, deleted, '?')
        if is_call(nd, cq=Y + 'find_border'):
            return (False, '?', '?')
        if nd['k'] == 'ReturnStmt':
            if R.ret_const(f, nd) == Y + 'status::OK_SCAN_END' and reload_:
                e = sites.setdefault('return OK_SCAN_END at ' + short_loc(nd), {'ok': True, 'loc': short_loc(nd), 'path': None})
                if deleted != 'T':
                    e['ok'] = False
                    e['path'] = e['path'] or ctx.witness()
            return None
        return st

    def branch(ctx, blk, idx, st):
        reload_, deleted, changed = st
        t = blk.term
        if t and t.get('k') == 'GotoStmt':
            if reload_ and deleted == 'T':
                e = retry_sites.setdefault('goto %s at %s' % (t.get('label'), short_loc(t)), {'ok': True, 'loc': short_loc(t), 'path': None})
                if changed != 'T':
                    e['ok'] = False
                    e['path'] = e['path'] or ctx.witness()
            return st
        if t and 'cond' in t and len(blk.succ) == 2:
            c = f.strip(f.node(t['cond']))
            flip = False
            while c is not None and c['k'] == 'UnaryOperator' and c.get('op') == '!':
                flip = not flip
                c = f.strip(f.ch(c)[0])
            truth = (idx == 0) != flip
            if c is not None and c['k'] in CALL_KINDS and c.get('cn') == 'get_deleted' and \
                    root_var(f, call_recv(f, c)) in rvs:
                return (reload_, 'T' if truth else 'F', changed)
            if reload_ and c is not None and c['k'] == 'BinaryOperator' and c.get('op') in ('==', '!=') and \
                    all((f.strip(x, casts=True) or {}).get('ty', '').replace(' ', '').endswith('base_node*') for x in f.ch(c)):
                differs = truth if c['op'] == '!=' else not truth
                return (reload_, deleted, 'T' if differs else 'F')
        return st

    Explorer(f, step, branch).run((False, '?', '?'))
    S.require('R-END0', 'root-pointer reloads in iscan_findnext', seen['reload'], 1)
    for site, e in sorted(sites.items()):
        S.ob('R-END0', f.qname, site, e['ok'], 'only for a deleted (empty) root' if e['ok'] else
             'the scan is reported finished although the saved root is not established deleted: during a root split '
             '(root flag cleared, root pointer not yet replaced) the cursor stops with most of the interval undelivered',
             loc=e['loc'], path=e['path'])
    for site, e in sorted(retry_sites.items()):
        S.ob('R-END0', f.qname, site + ' (saved root deleted)', e['ok'],
             'retried only with a different root pointer' if e['ok'] else
             'with the saved root deleted the cursor re-reads the root pointer and retries even when it is unchanged: on '
             'an emptied tree (deleted root kept as the root) iscan_next never returns', loc=e['loc'], path=e['path'])
    S.require('R-END0', 'scan-end returns / retries of the stale-root handling', len(sites) + len(retry_sites), 1)


def rule_eq(S):
    """iscan_check_retry: the cursor's validation primitive (sibling of scan_check_retry, C06 R-EQ)."""
    facts = S.facts()
    S.rule('R-EQ', 'iscan_check_retry(bn, v_at_fb, perm): `return OK` only when the stable version equals v_at_fb AND the '
                   'permutation word equals perm (negative edges of both inequality tests); the permutation word is read '
                   'between two equal stable versions; `return OK_RETRY_AFTER_FB` only with vsplit equal and not '
                   'deleted, after refreshing both v_at_fb and perm; otherwise OK_RETRY_FROM_ROOT')
    f = facts.one(Y + 'iscan_check_retry')
    vfb = [p['id'] for p in f.params if 'node_version64_body' in p['type']][0]
    perm = [p['id'] for p in f.params if 'permutation' in p['type']][0]
    rets = {}

    def step(ctx, nd, st):
        veq, peq, atoms, rv, rp, sandwich = st
        if is_call(nd, cq=Y + 'permutation::get_body') and root_var(f, call_recv(f, nd)) != perm:
            return (veq, peq, atoms, rv, rp, 'perm-read')
        if is_call(nd, cq=occ.STABLE) and sandwich == 'perm-read':
            return (veq, peq, atoms, rv, rp, 'reverified')
        if nd['k'] == 'CXXOperatorCallExpr' and nd.get('cn') == 'operator=' and nd.get('mcls') == Y + 'node_version64_body':
            a = [root_var(f, x) for x in nd.get('args', [])]
            if a and a[0] == vfb:
                return (veq, peq, atoms, True, rp, sandwich)
        if is_call(nd, cq=Y + 'permutation::set_body') and root_var(f, call_recv(f, nd)) == perm:
            return (veq, peq, atoms, rv, True, sandwich)
        if nd['k'] == 'ReturnStmt':
            rc = R.ret_const(f, nd)
            d = dict(atoms)
            ok, why = True, ''
            if rc == OKS:
                ok = veq is True and peq is True
                why = 'returns OK without version word (%s) and permutation word (%s) both established equal' % (veq, peq)
            elif rc == Y + 'status::OK_RETRY_AFTER_FB':
                ok = d.get('vsplit_eq') is True and d.get('deleted') is False and rv and rp
                why = 'OK_RETRY_AFTER_FB although a split / deletion is not excluded, or v_at_fb / perm not refreshed'
            e = rets.setdefault(R.ret_desc(f, nd), {'ok': True, 'loc': short_loc(nd), 'path': None, 'why': ''})
            if not ok:
                e['ok'] = False
                e['why'] = why
                e['path'] = e['path'] or ctx.witness()
            return None
        return st

    def branch(ctx, blk, idx, st):
        veq, peq, atoms, rv, rp, sandwich = st
        if blk.term and 'cond' in blk.term and len(blk.succ) == 2:
            c = f.strip(blk.term['cond'], casts=True)
            t = term(f, blk.term['cond'])
            if c is not None and c['k'] == 'CXXOperatorCallExpr' and c.get('cn') in ('operator==', 'operator!=') and \
                    c.get('mcls') == Y + 'node_version64_body':
                a = {root_var(f, x) for x in c.get('args', [])}
                if vfb in a:
                    veq = (idx == 0) == (c['cn'] == 'operator==')
            if t[0] == 'bin' and t[1] in ('==', '!=') and any(
                    x[0] == 'call' and x[1] == Y + 'permutation::get_body' for x in (t[2], t[3])):
                peq = (idx == 0) == (t[1] == '==')
            d = dict(atoms)
            for (atom, val, subj, other, direct) in occ.atoms_from_branch(f, blk, idx, None):
                d[atom] = val
            atoms = frozenset(d.items())
        return (veq, peq, atoms, rv, rp, sandwich)

    Explorer(f, step, branch).run((None, None, frozenset(), False, False, None))
    S.require('R-EQ', 'returns of iscan_check_retry', len(rets), 3)
    for site, e in sorted(rets.items()):
        S.ob('R-EQ', f.qname, site, e['ok'], 'as specified' if e['ok'] else e['why'], loc=e['loc'], path=e['path'])


def run(S):
    S.undecided = ['that the sequence of produced keys equals the interval (state machine over depth x direction)',
                   'full-key reconstruction', 'monotonicity under concurrent writers',
                   'early abort in iscan_findfirst and at the neighbour-link consistency retries']
    S.assumptions = ['iscan_check_retry returning OK means version word and permutation word are unchanged '
                     '(its body is covered by the same shape rule as scan_check_retry only through R-RV\'s permutation test)']
    rule_val(S)
    rule_var(S)
    rule_ea(S)
    rule_cb(S)
    rule_res(S)
    rule_layer(S)
    rule_lroot(S)
    rule_end0(S)
    rule_back(S)
    rule_rew(S)
    from checks.C01 import snap_rule
    S.rule('R-SNAP', 'iscan_findnext: every rank / count lookup uses the local permutation snapshot (shared with C04)')
    snap_rule(S, S.facts().one(Y + 'iscan_findnext'), 'R-SNAP')
    rule_eq(S)
    # mechanisms this property rests on (checks/shared.py)
    from checks import shared
    shared.version_word(S)
    shared.permutation_word(S)
    shared.descent(S)
    shared.key_order(S)
    shared.structure(S)
    shared.gc_safety(S)
