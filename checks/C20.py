"""C20 - mem_usage reports the real shape and footprint of a storage.

Decided (accumulator effects, weak; DESIGN.md section 5 / C20):
  R-ACC  each node-level mem_usage makes sure its level exists before indexing it, counts the node exactly once on
         every path, adds sizeof of its own class to `reserved`, and adds to `used` that same size minus a
         non-negative term (so used <= reserved); values add their allocated size to both
  R-LVL  children of an interior node and next-layer roots are accounted one level below, values at the level of
         their border; the iterations cover ranks 0..cnk-1 (through the permutation) and children 0..n_keys
  R-STG  the entry point resolves the storage first and starts at level 0 (shared with C13)
"""
from yk.facts import (AnalysisBroken, CALL_KINDS, call_args, call_recv, cv_through, is_call, root_var, short_loc, term,
                      term_str)
from yk.flow import Explorer
from yk import rules as R

Y = 'yakushima::'


def unc(t):
    while t and t[0] == 'cast':
        t = t[2]
    return t


def acc_updates(f):
    """[(binding name, op, rhs term, node)] for ++x / x += e on structured bindings of mem_stat.at(level)."""
    out = []
    for n in f.all_nodes():
        if n['k'] == 'UnaryOperator' and n.get('op') == '++':
            x = f.strip(f.ch(n)[0])
            if x is not None and x['k'] == 'DeclRefExpr' and x.get('dk') == 'binding':
                out.append((x['name'], '++', None, n))
        if n['k'] == 'CompoundAssignOperator' and n.get('op') == '+=':
            x = f.strip(f.ch(n)[0])
            if x is not None and x['k'] == 'DeclRefExpr' and x.get('dk') == 'binding':
                out.append((x['name'], '+=', unc(term(f, f.ch(n)[1], res=True)), n))
    return out


def binding_order(f):
    for n in f.all_nodes():
        if n['k'] == 'DeclStmt':
            for v in n.get('vars', []):
                if v.get('bindings') and len(v['bindings']) == 3:
                    return [b['name'] for b in v['bindings']], v
    return None, None


def node_rule(S, f, cls_size, what):
    names, decl = binding_order(f)
    fname = f.qname
    if names is None:
        S.ob('R-ACC', fname, 'accumulator', False, 'no (node_num, used, reserved) binding of mem_stat.at(level)', loc=f.loc)
        return
    cnt, used, resv = names
    lvl = f.params[0]['id']
    # (a) level exists before it is indexed
    guard = False
    for b, blk in f.blocks.items():
        if blk.term and 'cond' in blk.term:
            t = term(f, blk.term['cond'])
            if t[0] == 'bin' and t[1] in ('<=', '<') and t[2][0] == 'call' and (t[2][1] or '').endswith('::size') and \
                    unc(t[3]) == ('var', f.params[0]['name']):
                tb = blk.succ[0]
                if tb is not None and any(f.node(e)['k'] == 'CXXMemberCallExpr' and f.node(e).get('cn') == 'emplace_back'
                                          for e in f.blocks[tb].elems):
                    guard = t[1] == '<='
    at_level = decl is not None and any(x['k'] == 'DeclRefExpr' and x.get('id') == lvl for x in f.walk(decl['init']))
    S.ob('R-ACC', fname, 'level exists before indexing', guard and at_level,
         'mem_stat grows to level+1 entries before at(level)' if (guard and at_level) else
         'mem_stat.at(level) can be indexed before the level exists / not indexed by `level`', loc=f.loc)
    # (b) exactly one ++node_num per path
    paths = []

    def step(ctx, nd, st):
        if nd['k'] == 'UnaryOperator' and nd.get('op') == '++':
            x = f.strip(f.ch(nd)[0])
            if x is not None and x.get('name') == cnt and x.get('dk') == 'binding':
                return min(st + 1, 3)
        if nd['k'] == 'ReturnStmt':
            paths.append(st)
            return None
        return st

    ex = Explorer(f, step)
    ex.run(0)
    paths += list(ex.exit_states)
    S.ob('R-ACC', fname, 'node counted once', bool(paths) and all(p == 1 for p in paths),
         'exactly one ++%s on every path' % cnt if (paths and all(p == 1 for p in paths)) else
         'the node count of the level is incremented %s times on some path' % sorted(set(paths)), loc=f.loc)
    ups = acc_updates(f)
    r = [u for u in ups if u[0] == resv and u[1] == '+=']
    u_ = [u for u in ups if u[0] == used and u[1] == '+=']
    okr = len(r) == 1 and r[0][2] == ('const', cls_size)
    S.ob('R-ACC', fname, 'reserved += sizeof(own class)', okr,
         'reserved grows by %d = sizeof(%s)' % (cls_size, what) if okr else
         'reserved is not increased by exactly sizeof(%s) = %d: %s' % (what, cls_size, [term_str(x[2]) for x in r]), loc=f.loc)
    oku = len(u_) == 1 and u_[0][2][0] == 'bin' and u_[0][2][1] == '-' and unc(u_[0][2][2]) == ('const', cls_size) and \
        _nonneg(unc(u_[0][2][3]))
    S.ob('R-ACC', fname, 'used <= reserved', oku,
         'used grows by sizeof(%s) minus a product of non-negative terms' % what if oku else
         'the used-bytes term is not `sizeof(%s) - <non-negative>`: %s' % (what, [term_str(x[2]) for x in u_]), loc=f.loc)
    # the free capacity is counted against the node's own slot array: (extent - occupied) * sizeof(element)
    import re as _re
    facts = S.facts()
    rec = facts.records.get(Y + what) or {}
    want = None
    for fld in rec.get('fields', []):
        m = _re.match(r'std::array<(.*), (\d+)>$', fld.get('type') or '')
        if m and (m.group(1) == Y + 'link_or_value' or m.group(1) == Y + 'base_node *'):
            esz = (facts.records.get(m.group(1)) or {}).get('size') if m.group(1) == Y + 'link_or_value' else 8
            want = (int(m.group(2)), esz)
    if want is None:
        raise AnalysisBroken('R-ACC: slot array of %s not found in its record layout' % what)
    consts = []

    def collect(t):
        t = unc(t)
        if t[0] == 'const':
            consts.append(t[1])
        elif t[0] == 'bin':
            collect(t[2])
            collect(t[3])
    if oku:
        collect(unc(u_[0][2][3]))
    okc = oku and want[0] in consts and (want[1] in consts or want[1] is None)
    S.ob('R-ACC', fname, 'free capacity of the node\'s own slot array', okc,
         'unused part = (%d - occupied) * %s bytes' % want if okc else
         'the unused part is not computed as (%d - occupied) * %s (extent and element size of %s\'s slot array): '
         'constants used %s - with a smaller extent a full node reports more used than reserved bytes' % (
             want[0], want[1], what, sorted(set(consts))), loc=f.loc)


def _nonneg(t):
    t = unc(t)
    if t[0] == 'const':
        return t[1] >= 0
    if t[0] == 'bin' and t[1] == '*':
        return _nonneg(t[2]) and _nonneg(t[3])
    if t[0] == 'bin' and t[1] == '-':
        # (capacity - occupied) with occupied <= capacity by construction of the node
        return unc(t[2])[0] == 'const'
    if t[0] in ('var', 'trait'):
        return True
    return False


def rule_acc(S):
    facts = S.facts()
    S.rule('R-ACC', 'border_node / interior_node::mem_usage: `if (mem_stat.size() <= level) emplace_back` precedes '
                    'mem_stat.at(level); exactly one ++node_num per path; reserved += sizeof(own class); used += '
                    'sizeof(own class) - (free capacity * element size); link_or_value::mem_usage adds the allocated '
                    'size (second component of value::get_gc_info) of a value to both used and reserved')
    for cls in ('border_node', 'interior_node'):
        f = facts.one(Y + cls + '::mem_usage')
        rec = facts.records.get(Y + cls)
        if rec is None:
            raise AnalysisBroken('R-ACC: record %s not found' % cls)
        node_rule(S, f, rec['size'], cls)
    lv = facts.one(Y + 'link_or_value::mem_usage')
    names, decl = binding_order(lv)
    ups = acc_updates(lv)
    src_ok = False
    for n in lv.all_nodes():
        if n['k'] == 'DeclStmt':
            for v in n.get('vars', []):
                if 'init' in v:
                    t = unc(term(lv, v['init'], res=True))
                    if t[0] == 'call' and t[1] == 'std::get' and t[3] and t[3][0][0] == 'call' and \
                            t[3][0][1] == Y + 'value::get_gc_info':
                        src_ok = v['name']
    def _is_len(t):
        # the allocated size: the local that holds it, or (looked through a constant local) get<..>(get_gc_info(v))
        return t == ('var', src_ok) or (t[0] == 'call' and t[1] == 'std::get' and t[3] and t[3][0][0] == 'call' and
                                        t[3][0][1] == Y + 'value::get_gc_info')
    both = names is not None and {u[0] for u in ups if u[1] == '+=' and _is_len(u[2])} == {names[1], names[2]}
    from checks.C15 import get_index
    idx_ok = any(get_index(lv, v['init']) and get_index(lv, v['init'])[0] == 1 for n in lv.all_nodes()
                 if n['k'] == 'DeclStmt' for v in n.get('vars', []) if 'init' in v)
    S.ob('R-ACC', lv.qname, 'value accounted with its allocated size', bool(src_ok) and both and idx_ok,
         'used and reserved both grow by get<1>(get_gc_info(v))' if (src_ok and both and idx_ok) else
         'a stored value is not added with its allocated size to both used and reserved', loc=lv.loc)


def rule_lvl(S):
    facts = S.facts()
    S.rule('R-LVL', 'interior_node::mem_usage recurses into children 0..n_keys with level + 1; border_node::mem_usage '
                    'visits ranks 0..cnk-1 through the permutation and passes its own level to the slot; '
                    'link_or_value::mem_usage passes level + 1 to a next-layer root and accounts a value at level')
    it = facts.one(Y + 'interior_node::mem_usage')
    lvl = it.params[0]['name']
    ok = False
    for n in it.all_nodes():
        if n['k'] == 'CXXMemberCallExpr' and n.get('cn') == 'mem_usage' and n.get('virtual'):
            a = call_args(it, n)
            t = unc(term(it, a[0]))
            if t[0] == 'var':
                ini = None
                for m in it.all_nodes():
                    if m['k'] == 'DeclStmt':
                        for v in m.get('vars', []):
                            if v['name'] == t[1] and 'init' in v:
                                ini = unc(term(it, v['init']))
                t = ini or t
            ok = t[0] == 'bin' and t[1] == '+' and {unc(t[2]), unc(t[3])} == {('var', lvl), ('const', 1)} and \
                is_call(_through_local(it, it.strip(call_recv(it, n), casts=True)), cq=Y + 'interior_node::get_child_at')
    bound = False
    for b, blk in it.blocks.items():
        if blk.term and blk.term.get('k') == 'ForStmt' and 'cond' in blk.term:
            t = term(it, blk.term['cond'])
            if t[0] == 'bin' and t[1] == '<' and t[3][0] == 'var':
                for m in it.all_nodes():
                    if m['k'] == 'DeclStmt':
                        for v in m.get('vars', []):
                            if v['name'] == t[3][1] and 'init' in v:
                                ti = unc(term(it, v['init']))
                                if ti[0] == 'bin' and ti[1] == '+' and ('const', 1) in (unc(ti[2]), unc(ti[3])) and \
                                        any(x['k'] == 'MemberExpr' and x.get('name') == R.field_of(facts, Y + 'interior_node', 'std::atomic<unsigned char>', 'key count') for x in it.walk(v['init'])):
                                    bound = True
    S.ob('R-LVL', it.qname, 'children one level below', ok and bound,
         'children 0..n_keys are accounted at level + 1' if (ok and bound) else
         'interior children are not all accounted at level + 1 [level=%s bound=%s]' % (ok, bound), loc=it.loc)
    bd = facts.one(Y + 'border_node::mem_usage')
    lvlb = bd.params[0]['name']
    okb = False
    for n in bd.all_nodes():
        if is_call(n, cq=Y + 'link_or_value::mem_usage'):
            a = call_args(bd, n)
            okb = unc(term(bd, a[0])) == ('var', lvlb) and \
                any(is_call(x, cq=Y + 'permutation::get_index_of_rank') for m in bd.all_nodes() if m['k'] == 'DeclStmt'
                    for v in m.get('vars', []) if 'init' in v for x in bd.walk(v['init']))
    from checks.C11 import _loop_bound
    S.ob('R-LVL', bd.qname, 'slots at the border level', okb and _loop_bound(bd, {'cnk'}, facts),
         'occupied ranks 0..cnk-1 are visited through the permutation at the border\'s level' if okb else
         'the border does not account its occupied slots at its own level', loc=bd.loc)
    lv = facts.one(Y + 'link_or_value::mem_usage')
    lvll = lv.params[0]['name']
    okc = False
    for n in lv.all_nodes():
        if n['k'] == 'CXXMemberCallExpr' and n.get('cn') == 'mem_usage' and n.get('virtual'):
            t = unc(term(lv, call_args(lv, n)[0]))
            okc = t[0] == 'bin' and t[1] == '+' and {unc(t[2]), unc(t[3])} == {('var', lvll), ('const', 1)}
    names, decl = binding_order(lv)
    okv = decl is not None and any(x['k'] == 'DeclRefExpr' and x.get('name') == lvll for x in lv.walk(decl['init']))
    S.ob('R-LVL', lv.qname, 'next layer one level below, value at level', okc and okv,
         'as specified' if (okc and okv) else 'next-layer root / value accounted at the wrong level', loc=lv.loc)
    ep = facts.one(Y + 'mem_usage')
    ok0 = any(n['k'] == 'CXXMemberCallExpr' and n.get('cn') == 'mem_usage' and cv_through(ep, call_args(ep, n)[0]) == 0
              for n in ep.all_nodes())
    S.ob('R-LVL', ep.qname, 'root at level 0', ok0, 'the root node is level 0' if ok0 else
         'the entry point does not start the walk at level 0', loc=ep.loc)


def _through_local(f, n):
    """A local that is defined once (its declaration) and never assigned is a name for its initialiser."""
    hops = 0
    while n is not None and n['k'] == 'DeclRefExpr' and n.get('dk') == 'var' and hops < 4:
        vid = n.get('id')
        inits = [v['init'] for m in f.all_nodes() if m['k'] == 'DeclStmt' for v in m.get('vars', [])
                 if v['id'] == vid and 'init' in v]
        assigned = any(m['k'] in ('BinaryOperator', 'CompoundAssignOperator') and m.get('op', '').endswith('=') and
                       m.get('op') not in ('==', '!=', '<=', '>=') and
                       (f.strip(f.ch(m)[0], casts=True) or {}).get('id') == vid for m in f.all_nodes())
        if len(inits) != 1 or assigned:
            break
        n = f.strip(f.node(inits[0]), casts=True)
        hops += 1
    return n


STACK_TY = 'std::vector<std::tuple<unsigned long, unsigned long, unsigned long>>'
GROW = ('emplace_back', 'push_back', 'resize', 'insert', 'emplace', 'reserve', 'clear', 'pop_back', 'erase', 'assign',
        'shrink_to_fit', 'operator=', 'swap')


def rule_ref(S):
    facts = S.facts()
    S.rule('R-REF', 'the mem_usage family (every function that receives the per-level stack by non-const reference): a '
                    'reference or structured binding taken into an element of the stack (at / operator[] / back / front) '
                    'is not used after a call that can grow the stack - a growing member call on it, or a call that '
                    'passes the stack on by non-const reference (the recursion into children / next layers): the '
                    'element has moved, the update is lost and the write lands in freed memory')
    n_f = 0
    n_refs = 0
    for f in sorted(facts.functions.values(), key=lambda x: x.fid):
        if not f.blocks or not f.qname.startswith(Y):
            continue
        stacks = {p['id'] for p in f.params if STACK_TY in (p.get('type') or p.get('ty') or '') and
                  '&' in (p.get('type') or p.get('ty') or '') and
                  not (p.get('type') or p.get('ty') or '').startswith('const ')}
        stacks |= {v['id'] for m in f.all_nodes() if m['k'] == 'DeclStmt' for v in m.get('vars', [])
                   if (v.get('type') or '').replace('yakushima::memory_usage_stack', STACK_TY).startswith(STACK_TY) and
                   '&' not in (v.get('type') or '')}
        if not stacks:
            continue
        n_f += 1
        sites = {}

        def is_stack(nd):
            x = f.strip(nd, casts=True)
            return x is not None and x['k'] == 'DeclRefExpr' and x.get('id') in stacks

        def elem_ref(init):
            # the initialiser denotes an element of the stack
            for x in f.walk(init):
                if x['k'] in ('CXXMemberCallExpr', 'CXXOperatorCallExpr') and \
                        x.get('cn') in ('at', 'operator[]', 'back', 'front'):
                    r = call_recv(f, x) if x['k'] == 'CXXMemberCallExpr' else f.node(x['args'][0])
                    if r is not None and is_stack(r):
                        return True
            return False

        def step(ctx, nd, st):
            k = nd['k']
            if k == 'DeclStmt':
                for v in nd.get('vars', []):
                    ty = v.get('type') or ''
                    if 'init' in v and '&' in ty and elem_ref(v['init']):
                        ids = [b['id'] for b in v.get('bindings', [])] or [v['id']]
                        st = frozenset(x for x in st if x[0] not in ids) | {(i, 'live') for i in ids}
                return st
            if k in CALL_KINDS:
                grows = False
                if k == 'CXXMemberCallExpr' and nd.get('cn') in GROW:
                    r = call_recv(f, nd)
                    grows = r is not None and is_stack(r)
                else:
                    args = call_args(f, nd)
                    g = facts.get(nd.get('callee'))
                    for i, a in enumerate(args):
                        if is_stack(a):
                            # passed on: by non-const reference unless the callee's parameter says otherwise
                            pty = None
                            if g is not None and i < len(g.params):
                                pty = g.params[i].get('type') or g.params[i].get('ty') or ''
                            if pty is None or ('&' in pty and not pty.startswith('const ')):
                                grows = True
                if grows:
                    return frozenset((i, 'stale') for i, _ in st)
                return st
            if k == 'DeclRefExpr' and nd.get('dk') in ('binding', 'var'):
                if (nd.get('id'), 'stale') in st:
                    e = sites.setdefault(short_loc(nd), {'name': nd.get('name'), 'path': ctx.witness()})
                return st
            return st

        Explorer(f, step).run(frozenset())
        refs = sum(1 for m in f.all_nodes() if m['k'] == 'DeclStmt' for v in m.get('vars', [])
                   if 'init' in v and '&' in (v.get('type') or '') and elem_ref(v['init']))
        n_refs += refs
        S.ob('R-REF', f.qname, 'element references stay valid', not sites,
             '%d reference(s) into the stack, none used after a growth' % refs if not sites else
             '`%s` refers to an element of the stack and is used at %s after a call that can grow (reallocate) the '
             'stack' % (sorted(sites.items())[0][1]['name'], sorted(sites)[0]),
             loc=sorted(sites)[0] if sites else f.loc, path=sorted(sites.items())[0][1]['path'] if sites else None)
    S.require('R-REF', 'functions that hold or receive the per-level stack', n_f, 4)
    S.require('R-REF', 'references into the stack', n_refs, 3)


def run(S):
    S.undecided = ['equality with an independent walk of the tree', 'monotonicity in the number of occupied slots']
    S.assumptions = ['free capacity (key_slice_length - cnk, child_length - n_keys) is non-negative by construction of the nodes']
    rule_acc(S)
    rule_lvl(S)
    rule_ref(S)
    from checks.C13 import rule_stg
    rule_stg(S, only=(Y + 'mem_usage',))
    from checks import C19
    C19.rule_idx(S)
