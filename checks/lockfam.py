"""Shared construction of the E-LOCK analysis for C01/C08/C09/C12 (one run per fact base)."""
from yk.locks import LockAnalysis, Y

_MEMO = {}


def writer_roots(facts):
    roots = []
    roots += [f for f in facts.by_qname(Y + 'put') if f.params and len(f.params) > 1 and
              f.params[1]['type'] == 'yakushima::tree_instance *']
    roots += [f for f in facts.by_qname(Y + 'remove') if len(f.params) > 1 and
              f.params[1]['type'] == 'yakushima::tree_instance *']
    roots += facts.by_qname(Y + 'storage::create_storage') + facts.by_qname(Y + 'storage::delete_storage')
    return roots


def lock_analysis(facts):
    if '_lock_analysis' not in facts.__dict__:
        la = LockAnalysis(facts, writer_roots(facts))
        la.run()
        facts.__dict__['_lock_analysis'] = la
    return facts.__dict__['_lock_analysis']
