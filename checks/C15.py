"""C15 - values round-trip with exact bytes, length, alignment; updates are atomic.

Decided (layout and size agreement; DESIGN.md section 5 / C15):
  R-LAY  layout witnesses: header fits the minimum alignment pad, trivially destructible, one-word slot, inline types
  R-SZ   one size / alignment formula: allocation, release, GC triple and GC releases denote (base, len+align, align);
         the minimum-alignment clamp dominates size computation and header construction; body = base + align;
         exactly v_len bytes are copied into the body; get_len reports the header length
  R-IMM  published blocks are immutable: len_/align_ written only by the constructor, need_delete_ only by the
         constructor and remove_delete_flag; only create_value writes through get_body()
  R-ONE  an overwrite is one atomic word: link_or_value::set_value performs exactly one release store of the new word
         on every path and reports created_value_ptr from the stored word
  R-RV   an OK read never yields a null value (C01 / C04)
"""
import re

from yk.facts import (AnalysisBroken, CALL_KINDS, call_args, call_recv, cv_through, is_call, root_var, short_loc, term,
                      term_str, vname)
from yk.flow import Explorer
from yk import rules as R
from yk import witness

Y = 'yakushima::'
V = Y + 'value'
LEN = ('member', ('var', 'v'), V + '::len_')
ALN = ('member', ('var', 'v'), V + '::align_')


def rule_lay(S):
    facts = S.facts()
    S.rule('R-LAY', 'compile-time witnesses: sizeof(value) <= 8 (header inside the minimum alignment pad), value trivially '
                    'destructible, link_or_value is one machine word, is_inlinable<T> for T*, uintptr_t and not for char / '
                    'tree_instance; record layout: length field >= 32 bits, alignment field >= 13 bits')
    n = witness.emit(S, 'C15', 'R-LAY')
    S.require('R-LAY', 'witnesses', n, 8)
    rec = facts.records.get(V)
    if rec is None:
        raise AnalysisBroken('R-LAY: record value not found')
    fl = {f['name']: f for f in rec['fields']}

    def bits(f):
        t = f['type']
        return f.get('bit_width') or {'unsigned int': 32, 'unsigned short': 16, 'unsigned long': 64, 'bool': 8,
                                      'unsigned char': 8}.get(t, 0)
    ok = 'len_' in fl and bits(fl['len_']) >= 32 and 'align_' in fl and bits(fl['align_']) >= 13
    S.ob('R-LAY', V, 'field widths', ok, 'len_ >= 32 bits, align_ >= 13 bits' if ok else
         'header fields too narrow for the documented ranges: %s' % {k: bits(v) for k, v in fl.items()}, loc=rec.get('loc'))


def get_index(f, n):
    n = f.strip(n, casts=True)
    if n is not None and n['k'] == 'DeclRefExpr' and n.get('dk') == 'binding':
        # a structured binding: component i of the decomposed object
        for z in f.all_nodes():
            if z['k'] == 'DeclStmt':
                for v in z.get('vars', []):
                    for i, b in enumerate(v.get('bindings', [])):
                        if b['id'] == n.get('id') and 'init' in v:
                            return i, term(f, v['init'], res=True)
        return None
    for _ in range(3):   # look through locals that are defined once (`void* const block = std::get<1>(elem);`)
        if n is not None and n['k'] == 'DeclRefExpr':
            from yk.facts import const_local_init
            ini = const_local_init(f, n.get('id'))
            if ini is None and n.get('dk') == 'var':
                inits = [v['init'] for z in f.all_nodes() if z['k'] == 'DeclStmt' for v in z.get('vars', [])
                         if v['id'] == n.get('id') and 'init' in v]
                ini = f.node(inits[0]) if len(inits) == 1 else None
            if ini is None:
                break
            n = f.strip(ini, casts=True)
    if n is not None and n['k'] in CALL_KINDS and (n.get('cq') or '') == 'std::get':
        m = re.match(r'std::get<(\d+)', n.get('callee') or '')
        if m:
            return int(m.group(1)), term(f, call_args(f, n)[0], res=True)
    return None


def rule_copy(S, rule='R-COPY'):
    """No mutation of a by-value copy of shared node state (finding of seed C02f)."""
    facts = S.facts()
    S.rule(rule, 'library code (yakushima::): no local object of type link_or_value, node_version64, border_node or '
                 'interior_node that was copied by value from a node is mutated (a non-const member function called on '
                 'it, or assigned to): the update stays in the copy and never reaches the node - e.g. a slot cleared on '
                 'a copy keeps its retired value pointer in the node, and a later insert into that slot frees it again')
    SHARED = (Y + 'link_or_value', Y + 'node_version64', Y + 'border_node', Y + 'interior_node')
    n_f = 0
    bad = []
    for f in sorted(facts.functions.values(), key=lambda x: x.fid):
        if not f.blocks or not f.qname.startswith(Y):
            continue
        n_f += 1
        copies = {}
        for n in f.all_nodes():
            if n['k'] == 'DeclStmt':
                for v in n.get('vars', []):
                    t = (v.get('type') or '').replace('const ', '').strip()
                    if t in SHARED and 'init' in v:
                        copies[v['id']] = (v['name'], short_loc(n), (v.get('type') or '').startswith('const '))
        if not copies:
            continue
        for n in f.all_nodes():
            if n['k'] == 'CXXMemberCallExpr':
                r = f.strip(call_recv(f, n), casts=True)
                if r is not None and r['k'] == 'DeclRefExpr' and r.get('id') in copies and \
                        not (n.get('callee') or '').rstrip().endswith('const'):
                    bad.append((f, n, copies[r['id']]))
    S.ob(rule, 'yakushima::*', 'mutated copies of node state', not bad,
         'none in %d functions' % n_f if not bad else
         '%s: `%s` (declared at %s) is a by-value copy of node state and %s is applied to the copy, not to the node' % (
             bad[0][0].qname, bad[0][2][0], bad[0][2][1], bad[0][1].get('cn')),
         loc=short_loc(bad[0][1]) if bad else None)
    S.require(rule, 'library functions examined', n_f, 200)


def rule_sz(S):
    facts = S.facts()
    S.rule('R-SZ', 'create_value<false>: ::operator new(v_len + align, align) after align := max(v_align, 8), header '
                   'value{v_len, align} constructed in that block, memcpy(get_body(v), in_ptr, v_len); delete_value: '
                   '::operator delete(v, len_ + align_, align_); get_gc_info: {v, len_ + align_, align_}; the four GC '
                   'releases pass std::get<1>, <2>, <3> of one element; get_body = base + align_; get_len = len_')
    n = 0
    cv = [f for f in facts.by_qname(V + '::create_value') if f.targs.strip() == 'false']
    if len(cv) != 1:
        raise AnalysisBroken('R-SZ: create_value<false> not found')
    f = cv[0]
    names = {p['name']: p['id'] for p in f.params}
    res = {'new': None, 'hdr': None, 'copy': None}
    size_clamped = {}

    def step(ctx, nd, st):
        clamped, fs = st
        fs = R.track_assign(f, nd, fs, facts)
        if nd['k'] == 'DeclStmt':
            for v in nd.get('vars', []):
                if 'init' in v and any(x['k'] == 'DeclRefExpr' and x.get('id') == names.get('v_align')
                                       for x in f.walk(v['init'])):
                    size_clamped[v['name']] = size_clamped.get(v['name'], True) and clamped
        if nd['k'] == 'BinaryOperator' and nd.get('op') == '=' and root_var(f, f.ch(nd)[0]) == names.get('v_align'):
            rhs = f.ch(nd)[1]
            if any(x['k'] in CALL_KINDS and (x.get('cq') or '').startswith('std::max') for x in f.walk(rhs)) and \
                    any(x['k'] == 'DeclRefExpr' and x.get('id') == names.get('v_align') for x in f.walk(rhs)):
                return (True, fs)            # v_align = std::max(v_align, minimum)
            if cv_through(f, f.ch(nd)[1]) is not None or R.var_decl_init(f, root_var(f, f.ch(nd)[1])) is not None:
                return (True, fs)
        if nd['k'] in CALL_KINDS and nd.get('cq') == 'operator new' and len(call_args(f, nd)) == 2:
            a = call_args(f, nd)
            t0 = term(f, a[0])
            if t0[0] == 'var' and not size_clamped.get(t0[1], True):
                res['new'] = (False, short_loc(nd), 'the size %s is computed before the minimum-alignment clamp' % t0[1])
                return (clamped, fs)
            if t0[0] == 'var':
                ini = R.var_decl_init(f, next((v['id'] for x in f.all_nodes() if x['k'] == 'DeclStmt'
                                                for v in x['vars'] if v['name'] == t0[1]), None))
                t0 = term(f, ini) if ini is not None else t0
            want = {('var', 'v_len'), ('var', 'v_align')}
            size_ok = t0[0] == 'bin' and t0[1] == '+' and {_unc(t0[2]), _unc(t0[3])} == want
            al_ok = _unc(term(f, a[1])) == ('var', 'v_align')
            res['new'] = (size_ok and al_ok and clamped, short_loc(nd),
                          'size=%s align=%s clamped=%s' % (term_str(t0), term_str(term(f, a[1])), clamped))
        if nd['k'] == 'CXXNewExpr' and nd.get('placement'):
            c = [term(f, x) for x in f.ch(nd)]
            ctor = [t for t in c if t[0] == 'ctor']
            ok = bool(ctor) and [_unc(x) for x in ctor[0][2]] == [('var', 'v_len'), ('var', 'v_align')] and clamped
            res['hdr'] = (ok, short_loc(nd), 'header args %s clamped=%s' % ([term_str(x) for x in (ctor[0][2] if ctor else [])], clamped))
        if nd['k'] in CALL_KINDS and nd.get('cq') == 'memcpy':
            a = [term(f, x) for x in call_args(f, nd)]
            ok = a[0][0] == 'call' and a[0][1] == V + '::get_body' and _unc(a[1]) == ('var', 'in_ptr') and \
                _unc(a[2]) == ('var', 'v_len')
            res['copy'] = (ok, short_loc(nd), 'memcpy(%s)' % ', '.join(term_str(x) for x in a))
        return (clamped, fs)

    def branch(ctx, blk, idx, st):
        clamped, fs = st
        if blk.term and 'cond' in blk.term and len(blk.succ) == 2:
            t = term(f, blk.term['cond'])
            if t[0] == 'bin' and t[1] in ('<', '<=') and _unc(t[2]) == ('var', 'v_align') and idx == 1:
                cst = t[3]
                if cst[0] == 'const' or cst[0] == 'var':
                    return (True, fs)
            if t[0] == 'bin' and t[1] in ('>=', '>') and _unc(t[2]) == ('var', 'v_align') and idx == 0:
                return (True, fs)
        return st

    Explorer(f, step, branch).run((False, frozenset()))
    for key, what in (('new', 'allocation'), ('hdr', 'header construction'), ('copy', 'body copy')):
        n += 1
        r = res[key]
        S.ob('R-SZ', f.qname + '<false>', what, bool(r and r[0]),
             'uses (v_len + align, align) after the minimum-alignment clamp' if (r and r[0]) else
             ('%s not found' % what if r is None else '%s deviates: %s' % (what, r[2])), loc=r[1] if r else f.loc)
    # delete_value
    d = facts.one(V + '::delete_value')
    dels = [x for x in d.all_nodes() if x['k'] in CALL_KINDS and x.get('cq') == 'operator delete']
    okd = False
    detail = ''
    for x in dels:
        a = call_args(d, x)
        t = [term(d, y, res=True) for y in a]
        al = t[2]
        if al[0] == 'var':
            ini = R.var_decl_init(d, next((v['id'] for z in d.all_nodes() if z['k'] == 'DeclStmt'
                                           for v in z['vars'] if v['name'] == al[1]), None))
            al = term(d, ini) if ini is not None else al
        okd = t[0] == ('var', 'v') and _sum(t[1]) == {LEN, ALN} and _unc(al) == ALN
        detail = ', '.join(term_str(y) for y in t)
    n += 1
    S.ob('R-SZ', d.qname, 'release', okd, '::operator delete(v, len_ + align_, align_)' if okd else
         'release size/alignment differs from the allocation formula: (%s)' % detail, loc=d.loc)
    g = facts.one(V + '::get_gc_info')
    okg = False
    for x in g.all_nodes():
        if x['k'] == 'ReturnStmt' and g.ch(x):
            t = term(g, g.ch(x)[0])
            if t[0] == 'ctor' and len(t[2]) == 3 and t[2][0] == ('var', 'v'):
                okg = _sum(t[2][1]) == {LEN, ALN} and _unc(t[2][2]) == ALN
    n += 1
    S.ob('R-SZ', g.qname, 'GC triple', okg, '{v, len_ + align_, align_}' if okg else
         'the triple handed to the GC does not denote (base, len + align, align)', loc=g.loc)
    gb = facts.one(V + '::get_body')
    okb = any(x['k'] == 'ReturnStmt' and gb.ch(x) and _has_idx(term(gb, gb.ch(x)[0])) for x in gb.all_nodes())
    n += 1
    S.ob('R-SZ', gb.qname, 'body address', okb, 'base + align_' if okb else 'get_body no longer returns base + align_', loc=gb.loc)
    gl = facts.one(V + '::get_len')
    okl = any(x['k'] == 'ReturnStmt' and gl.ch(x) and _unc(term(gl, gl.ch(x)[0])) == LEN for x in gl.all_nodes())
    n += 1
    S.ob('R-SZ', gl.qname, 'reported length', okl, 'header length' if okl else 'get_len does not return len_', loc=gl.loc)
    # GC release sites
    GCq = Y + 'garbage_collection'
    ng = 0
    for q in ('fin', 'gc_value'):
        h = facts.one(GCq + '::' + q)
        for x in h.all_nodes():
            if x['k'] in CALL_KINDS and x.get('cq') == 'operator delete':
                ng += 1
                idx = [get_index(h, a) for a in call_args(h, x)]
                ok = all(i is not None for i in idx) and [i[0] for i in idx] == [1, 2, 3] and len({i[1] for i in idx}) == 1
                S.ob('R-SZ', h.qname, 'release at ' + short_loc(x), ok,
                     '(get<1>, get<2>, get<3>) of one queue element' if ok else
                     'GC release does not pass (pointer, size, alignment) of one element in that order', loc=short_loc(x))
    S.require('R-SZ', 'GC value release sites', ng, 4)
    # push sites use the get_gc_info triple in order
    for f2 in facts.functions.values():
        for x in f2.all_nodes():
            if is_call(x, cq=GCq + '::push_value_container'):
                a = call_args(f2, x)
                # the queued element {epoch, pointer, size, alignment}: its last three components are components 0, 1, 2
                # of one get_gc_info() result (structured bindings, std::get, or locals holding them)
                comps = []
                if a:
                    top = f2.strip(a[0], casts=True)
                    kids = [f2.node(c) for c in (top.get('args') or top.get('ch') or [])] if top is not None else []
                    if len(kids) == 1:
                        t1 = f2.strip(kids[0], casts=True)
                        kids = [f2.node(c) for c in (t1.get('args') or t1.get('ch') or [])] if t1 is not None else []
                    comps = [get_index(f2, k_) for k_ in kids[-3:]] if len(kids) >= 4 else []
                order = [c[0] if c else None for c in comps]
                decl = [0, 1, 2]
                subj = {str(c[1]) for c in comps if c}
                ok = order == decl and len(subj) == 1 and 'get_gc_info' in next(iter(subj))
                n += 1
                S.ob('R-SZ', f2.qname + ('<%s>' % f2.targs if f2.targs else ''), 'retire at ' + short_loc(x), ok,
                     'the GC triple is queued in (pointer, size, alignment) order' if ok else
                     'the retired triple is not the get_gc_info() triple in order: %s vs %s' % (order, decl),
                     loc=short_loc(x))
    S.require('R-SZ', 'size/alignment sites', n, 9)


def _unc(t):
    while t and t[0] == 'cast':
        t = t[2]
    return t


def _sum(t):
    t = _unc(t)
    if t[0] == 'bin' and t[1] == '+':
        return {_unc(t[2]), _unc(t[3])}
    return set()


def _has_idx(t):
    if not isinstance(t, tuple):
        return False
    if t[0] == 'idx' and _unc(t[2]) == ALN:
        return True
    return any(_has_idx(x) for x in t if isinstance(x, tuple))


def rule_imm(S):
    facts = S.facts()
    S.rule('R-IMM', 'value::len_ and value::align_ are written only by the constructor; need_delete_ only by the '
                    'constructor and remove_delete_flag; only value::create_value writes through value::get_body()')
    writers = {}
    for f in facts.functions.values():
        for x in f.all_nodes():
            if x['k'] == 'MemberExpr' and (x.get('member') or '').startswith(V + '::') and x['name'] in ('len_', 'align_', 'need_delete_'):
                p = f.parent(x, transparent=False)
                if p is not None and p['k'] in ('BinaryOperator', 'CompoundAssignOperator') and \
                        (p.get('op') or '').endswith('=') and p.get('op') not in ('==', '!=', '<=', '>=') and \
                        f.strip(f.ch(p)[0]) is x:
                    writers.setdefault(x['name'], set()).add(f.qname)
                if p is not None and p['k'] == 'UnaryOperator' and p.get('op') in ('++', '--'):
                    writers.setdefault(x['name'], set()).add(f.qname)
    allowed = {'len_': set(), 'align_': set(), 'need_delete_': {V + '::remove_delete_flag'}}
    for fld in ('len_', 'align_', 'need_delete_'):
        w = writers.get(fld, set())
        bad = w - allowed[fld]
        S.ob('R-IMM', V, 'writers of ' + fld, not bad, 'only %s' % (sorted(allowed[fld]) or 'the constructor') if not bad else
             '%s is written by %s after construction' % (fld, sorted(bad)), loc=None)
    ctor = [f for f in facts.functions.values() if f.cls == V and f.name == 'value']
    inits = {i.get('member') for c in ctor for i in (c.raw.get('ctor_inits') or [])}
    S.ob('R-IMM', V, 'constructor initialises the header', {V + '::len_', V + '::align_', V + '::need_delete_'} <= inits,
         'len_, align_, need_delete_ set at construction' if {V + '::len_', V + '::align_', V + '::need_delete_'} <= inits
         else 'constructor initialises only %s' % sorted(inits), loc=ctor[0].loc if ctor else None)
    body_writers = set()
    for f in facts.functions.values():
        for x in f.all_nodes():
            if x['k'] in CALL_KINDS and x.get('cq') in ('memcpy', 'memmove', 'memset', 'std::memcpy'):
                a = call_args(f, x)
                if a and any(is_call(y, cq=V + '::get_body') for y in f.walk(a[0])):
                    body_writers.add(f.qname)
    bad = body_writers - {V + '::create_value'}
    S.ob('R-IMM', V, 'writers of the body', not bad and bool(body_writers),
         'only create_value copies into the body' if not bad else '%s writes into a stored value body' % sorted(bad), loc=None)


def rule_one(S):
    facts = S.facts()
    S.rule('R-ONE', 'link_or_value::set_value: on every path exactly one store to child_or_v_, a release store of the '
                    'caller\'s new value word; *created_value_ptr is derived from the stored word (value::get_body of it)')
    f = facts.one(Y + 'link_or_value::set_value')
    newv = f.params[0]['id']
    res = {'paths': [], 'created': None}

    slot_writers = set()
    for g in facts.functions.values():
        if g.cls == Y + 'link_or_value' and g.fid != f.fid:
            if any(m == Y + 'link_or_value::child_or_v_' for (m, _, _) in R.field_writes(g)):
                slot_writers.add(g.qname)

    def step(ctx, nd, st):
        if nd['k'] in CALL_KINDS and nd.get('cq') in slot_writers:
            return st + (False,)
        if is_call(nd, cq=Y + 'storeReleaseN') or (nd['k'] == 'BinaryOperator' and nd.get('op') == '=' and
                                                   (f.strip(f.ch(nd)[0]) or {}).get('name') == R.field_of(facts, Y + 'link_or_value', 'unsigned long', 'slot word')):
            a = call_args(f, nd) if nd['k'] in CALL_KINDS else f.ch(nd)
            tgt = f.strip(a[0], casts=True)
            if tgt is not None and tgt.get('name') == R.field_of(facts, Y + 'link_or_value', 'unsigned long', 'slot word'):
                src = root_var(f, a[1])
                ini = R.var_decl_init(f, src) if src else None
                from_new = src == newv or (ini is not None and root_var(f, ini) == newv)
                rel = nd['k'] in CALL_KINDS
                return st + ((from_new and rel),)
        if nd['k'] == 'BinaryOperator' and nd.get('op') == '=':
            l = f.strip(f.ch(nd)[0])
            if l is not None and l['k'] == 'UnaryOperator' and l.get('op') == '*' and \
                    (f.strip(f.ch(l)[0]) or {}).get('name') == 'created_value_ptr':
                res['created'] = any(is_call(x, cq=V + '::get_body') for x in f.walk(f.ch(nd)[1]))
        if nd['k'] == 'ReturnStmt':
            res['paths'].append((st, ctx.witness()))
            return None
        return st

    ex = Explorer(f, step)
    ex.run(())
    for st in ex.exit_states:
        res['paths'].append((st, None))
    bad = [(st, p) for st, p in res['paths'] if len(st) != 1 or not st[0]]
    S.ob('R-ONE', f.qname, 'one release store per path (%d paths)' % len(res['paths']), not bad and bool(res['paths']),
         'exactly one release store of the new word' if not bad else
         'a path performs %d stores to the slot word / stores something else than the new value' % (len(bad[0][0])),
         loc=f.loc, path=bad[0][1] if bad else None)
    S.ob('R-ONE', f.qname, 'created_value_ptr', res['created'] is True,
         'derived from the stored word' if res['created'] else 'created_value_ptr is not the body of the stored word', loc=f.loc)


def rule_fslot(S, rule='R-FSLOT'):
    """A free slot holds no value pointer: the insert path (set_value without out-pointer) examines the word the slot
    holds and frees what it finds when that block's need_delete flag is set; a stale pointer left by a remove is freed
    again as soon as the allocator reuses the address for a live value (shared with C11)."""
    facts = S.facts()
    S.rule(rule, 'border_node::delete_at: on every path that retires the out-of-line value of the slot '
                 '(push_value_container) the slot word is reset (link_or_value::init_lv) before the function returns; '
                 'otherwise a later insert into the free slot inspects a retired (later: recycled) block')
    Y = 'yakushima::'
    da = facts.one(Y + 'border_node::delete_at')
    res = {'retires': 0, 'bad': None}

    def step(ctx, nd, st):
        if is_call(nd, cq=Y + 'garbage_collection::push_value_container'):
            res['retires'] += 1
            return 'retired'
        if is_call(nd, cq=Y + 'link_or_value::init_lv') and st == 'retired':
            return 'cleared'
        if nd['k'] == 'ReturnStmt':
            if st == 'retired' and res['bad'] is None:
                res['bad'] = ctx.witness()
            return None
        return st

    ex = Explorer(da, step)
    ex.run('live')
    if any(s_ == 'retired' for s_ in ex.exit_states) and res['bad'] is None:
        res['bad'] = ['(falls off the end of delete_at with the slot still holding the retired pointer)']
    S.require(rule, 'retire sites of delete_at', res['retires'], 1)
    S.ob(rule, da.qname, 'slot word after the value was retired', res['bad'] is None,
         'reset before the function returns' if res['bad'] is None else
         'the slot keeps the pointer of the retired value: the next insert into this slot reads the header of a block '
         'that the GC has freed (and frees a live value once the address is reused)', loc=da.loc,
         path=res['bad'] if isinstance(res['bad'], list) else None)


def run(S):
    S.undecided = ['byte-for-byte equality of what is read back', 'numeric alignment of the returned address (relies on '
                   'the allocator honouring align_val_t)', 'absence of torn reads']
    S.assumptions = ['::operator new(size, align_val_t) returns a block of at least size bytes aligned to align']
    rule_lay(S)
    rule_sz(S)
    rule_imm(S)
    rule_one(S)
    rule_copy(S)
    from checks.C01 import rule_var
    rule_var(S)
    rule_fslot(S)
    # mechanisms this property rests on (checks/shared.py)
    from checks import shared
    shared.gc_safety(S)
    # pointer-typed (inline) values round-trip by value, the all-zero one included (shared with C09)
    from checks.C09 import rule_nul
    rule_nul(S)
