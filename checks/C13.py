"""C13 - storages are isolated namespaces with map-like create/delete/find/list.

Decided (structural, necessary conditions; DESIGN.md section 5 / C13):
  R-STG  resolve-then-operate: every name-based data API resolves the storage first with the caller's name,
         returns WARN_STORAGE_NOT_EXIST on a miss without touching the tree pointer, and passes exactly the
         resolved tree to the tree_instance* implementation
  R-ISO  who may touch the catalogue: storage::storages_ / get_storages() is referenced only by the storage
         functions and destroy(); nothing reachable from the tree_instance* data operations references it
  R-UNQ  create_storage inserts with unique_restriction = true into the catalogue and returns that status;
         delete_storage reports OK only on the OK edge of the catalogue remove and destroys the tree looked up
         under the same name; find_storage maps only WARN_NOT_EXIST to a miss; list/destroy scan (INF, INF), no limit
"""
from yk.facts import (AnalysisBroken, CALL_KINDS, call_args, call_recv, is_call, root, root_var, short_loc, term,
                      term_str, vname)
from yk.flow import Explorer
from yk import rules as R

OK = 'yakushima::status::OK'
MISS = 'yakushima::status::WARN_STORAGE_NOT_EXIST'
INF = 'yakushima::scan_endpoint::INF'



CATALOGUE = 'yakushima::storage::storages_'


def is_catalogue(f, n, depth=0):
    """Does the expression denote the storage catalogue tree: storage::get_storages(), &storage::storages_, or a local that
    was initialised from one of them?"""
    if n is None or depth > 4:
        return False
    for y in f.walk(n):
        if is_call(y, cq='yakushima::storage::get_storages'):
            return True
        if y['k'] == 'DeclRefExpr' and y.get('dk') == 'global' and y.get('id') == CATALOGUE:
            return True
        if y['k'] == 'MemberExpr' and y.get('member') == CATALOGUE:
            return True
        if y['k'] == 'DeclRefExpr' and y.get('dk') == 'var':
            ini = R.var_decl_init(f, y.get('id'))
            if ini is not None and is_catalogue(f, ini, depth + 1):
                return True
    return False


def is_sv(t):
    return t.replace('const ', '').strip() == 'std::basic_string_view<char>'


def name_based(facts, only=None):
    """Public data API functions that take a storage name (they call storage::find_storage themselves)."""
    out = []
    for f in facts.functions.values():
        if f.is_lambda or f.cls:
            continue
        if only and f.qname not in only:
            continue
        if any(p['type'].startswith('yakushima::tree_instance *') for p in f.params):
            continue
        if any(is_call(n, cq='yakushima::storage::find_storage') for n in f.all_nodes()):
            out.append(f)
    return out


def rule_stg(S, only=None):
    facts = S.facts()
    S.rule('R-STG', 'every name-based data API: storage::find_storage(<its storage-name parameter>, &ti) precedes any '
                    'use of ti and any tree access; on the non-OK edge it returns WARN_STORAGE_NOT_EXIST (an empty '
                    'result for mem_usage) without using ti; on the OK edge it forwards exactly ti to the '
                    'tree_instance* implementation and returns its status')
    fns = name_based(facts, only)
    n_ok = 0
    for f in fns:
        fname = f.qname + ('<%s>' % f.targs if f.targs else '')
        sv_params = [p['id'] for p in f.params if is_sv(p['type'])]
        res = {'find': None, 'ti_use_bad': None, 'fail_ret': {}, 'ok_forward': {}, 'pre_access': None}
        ti_vars = {v['id'] for n in f.all_nodes() if n['k'] == 'DeclStmt' for v in n.get('vars', [])
                   if v['type'].strip() == 'yakushima::tree_instance *'}
        status_ret = (f.raw.get('ret') == 'yakushima::status')

        def find_edge(t, idx):
            """If the branch condition compares find_storage(...) with OK directly: 'OK' / 'FAIL' for edge idx."""
            if t[0] == 'bin' and t[1] in ('==', '!='):
                for a, b in ((t[2], t[3]), (t[3], t[2])):
                    if a[0] == 'call' and a[1] == 'yakushima::storage::find_storage' and b == ('enum', OK):
                        eq = (idx == 0) == (t[1] == '==')
                        return 'OK' if eq else 'FAIL'
            return None

        find_vars = set()
        for n in f.all_nodes():
            if n['k'] == 'DeclStmt':
                for v in n.get('vars', []):
                    if 'init' in v:
                        i = f.strip(v['init'], casts=True)
                        if i is not None and is_call(i, cq='yakushima::storage::find_storage'):
                            find_vars.add(v['id'])

        def step(ctx, n, st):
            fs, rs, tiv = st
            fs = R.track_assign(f, n, fs, facts)
            if is_call(n, cq='yakushima::storage::find_storage'):
                a = call_args(f, n)
                name_ok = bool(a) and root_var(f, a[0]) in sv_params and \
                    f.strip(a[0], casts=True)['k'] == 'DeclRefExpr' and root_var(f, a[0]) == sv_params[0]
                tv = root_var(f, a[1]) if len(a) > 1 else None
                res['find'] = {'ok': name_ok and tv in ti_vars, 'loc': short_loc(n)}
                return (fs, 'CALLED', tv)
            if n['k'] == 'DeclRefExpr' and n.get('id') in ti_vars:
                p = f.parent(n)
                in_find = False
                q = p
                hops = 0
                while q is not None and hops < 4:
                    if is_call(q, cq='yakushima::storage::find_storage'):
                        in_find = True
                    q = f.parent(q)
                    hops += 1
                if p is not None and p['k'] == 'DeclStmt':
                    return (fs, rs, tiv)
                if not in_find and rs != 'OK':
                    res['ti_use_bad'] = res['ti_use_bad'] or {'loc': short_loc(n), 'path': ctx.witness(), 'rs': rs}
                return (fs, rs, tiv)
            if n['k'] in CALL_KINDS and (n.get('cq') or '').startswith('yakushima::') and rs == 'N' and \
                    n.get('cq') in ('yakushima::tree_instance::load_root_ptr', 'yakushima::find_border'):
                res['pre_access'] = {'loc': short_loc(n), 'path': ctx.witness()}
            if n['k'] in CALL_KINDS and rs == 'OK':
                tg = facts.get(n.get('callee'))
                if tg is not None and any(p['type'].startswith('yakushima::tree_instance *') for p in tg.params):
                    idxs = [i for i, p in enumerate(tg.params) if p['type'].startswith('yakushima::tree_instance *')]
                    a = call_args(f, n)
                    good = all(i < len(a) and root_var(f, a[i]) == tiv and
                               f.strip(a[i], casts=True)['k'] == 'DeclRefExpr' for i in idxs)
                    e = res['ok_forward'].setdefault(n.get('cq'), {'ok': True, 'loc': short_loc(n)})
                    if not good:
                        e['ok'] = False
                    return (fs, 'FWD', tiv)
                if is_call(n, cq='yakushima::tree_instance::load_root_ptr') and root_var(f, call_recv(f, n)) == tiv:
                    res['ok_forward'].setdefault('load_root_ptr', {'ok': True, 'loc': short_loc(n)})
                    return (fs, 'FWD', tiv)
            if n['k'] == 'ReturnStmt':
                if rs == 'FAIL':
                    rc = R.ret_const(f, n, fs)
                    e = res['fail_ret'].setdefault(R.ret_desc(f, n), {'ok': True, 'loc': short_loc(n), 'path': None})
                    if status_ret and rc != MISS:
                        e['ok'] = False
                        e['path'] = ctx.witness()
                elif rs == 'OK' and status_ret:
                    rc = R.ret_const(f, n, fs)
                    # returning without forwarding on the OK edge
                    e = res['ok_forward'].setdefault('return without forwarding', {'ok': False, 'loc': short_loc(n)})
                    e['path'] = ctx.witness()
                return None
            return (fs, rs, tiv)

        def branch(ctx, blk, idx, st):
            fs, rs, tiv = st
            fs2 = R.refine(f, blk, idx, fs)
            if fs2 is None:
                return None
            if rs == 'CALLED' and blk.term and 'cond' in blk.term:
                t = term(f, blk.term['cond'])
                e = find_edge(t, idx)
                if e:
                    return (fs2, e, tiv)
                for v in find_vars:
                    val = R.facts_get(fs2, v)
                    if val and val.startswith('in:'):
                        vs = set(val[3:].split('|'))
                        if vs == {OK}:
                            return (fs2, 'OK', tiv)
                        if OK not in vs:
                            return (fs2, 'FAIL', tiv)
            return (fs2, rs, tiv)

        ex = Explorer(f, step, branch)
        ex.run((frozenset(), 'N', None))
        fi = res['find']
        S.ob('R-STG', fname, 'find_storage(name, &ti)', bool(fi and fi['ok']),
             'resolves the storage with its own storage-name parameter into a local tree pointer' if (fi and fi['ok'])
             else 'find_storage is not called with the storage-name parameter / a local tree pointer',
             loc=fi['loc'] if fi else f.loc)
        S.ob('R-STG', fname, 'ti used only after a successful lookup', res['ti_use_bad'] is None,
             'the tree pointer is used only on the OK edge' if res['ti_use_bad'] is None else
             'the tree pointer is used although the lookup %s' %
             ('failed' if res['ti_use_bad']['rs'] == 'FAIL' else 'result is not established'),
             loc=(res['ti_use_bad'] or {}).get('loc', f.loc), path=(res['ti_use_bad'] or {}).get('path'))
        S.ob('R-STG', fname, 'no tree access before the lookup', res['pre_access'] is None,
             'lookup first' if res['pre_access'] is None else 'a tree is accessed before the storage is resolved',
             loc=(res['pre_access'] or {}).get('loc', f.loc), path=(res['pre_access'] or {}).get('path'))
        if status_ret:
            fr = res['fail_ret']
            okf = bool(fr) and all(e['ok'] for e in fr.values())
            bad = [e for e in fr.values() if not e['ok']]
            S.ob('R-STG', fname, 'miss -> WARN_STORAGE_NOT_EXIST', okf,
                 'the failed lookup returns WARN_STORAGE_NOT_EXIST' if okf else
                 ('no return on the failed-lookup edge' if not fr else 'the failed lookup returns something else'),
                 loc=(bad[0]['loc'] if bad else f.loc), path=(bad[0]['path'] if bad else None))
        fw = res['ok_forward']
        okw = bool(fw) and all(e['ok'] for e in fw.values())
        bad = [k for k, e in fw.items() if not e['ok']]
        S.ob('R-STG', fname, 'forwards the resolved tree', okw,
             'forwards exactly the resolved tree pointer (%s)' % ', '.join(k.replace('yakushima::', '') for k in fw) if okw
             else ('nothing is forwarded on the OK edge' if not fw else 'bad forwarding: ' + ', '.join(bad)),
             loc=(fw[bad[0]]['loc'] if bad else f.loc), path=(fw[bad[0]].get('path') if bad else None))
        n_ok += 1
    if only is None:
        S.require('R-STG', 'name-based data API functions', n_ok, 8)
    else:
        S.require('R-STG', 'name-based overloads of ' + ','.join(only), n_ok, 1)
    # forwarding overloads of put reach the primary name-based overload
    if only is None or 'yakushima::put' in only:
        puts = [f for f in facts.by_qname('yakushima::put') if not any(
            p['type'].startswith('yakushima::tree_instance *') for p in f.params)]
        for f in puts:
            if any(is_call(n, cq='yakushima::storage::find_storage') for n in f.all_nodes()):
                continue
            fname = 'yakushima::put<%s>(%s)' % (f.targs, f.params[-1]['type'].split('::')[-1])
            rets = [n for n in f.all_nodes() if n['k'] == 'ReturnStmt']
            calls = [n for n in f.all_nodes() if is_call(n, cq='yakushima::put')]
            good = bool(calls) and all(
                [root_var(f, a) for a in call_args(f, c)][:3] == [p['id'] for p in f.params[:3]] for c in calls)
            S.ob('R-STG', fname, 'forwarder', good and bool(rets),
                 'forwards token, storage name and key unchanged to the primary overload' if good else
                 'does not forward its first three arguments unchanged', loc=f.loc)


def rule_iso(S):
    facts = S.facts()
    S.rule('R-ISO', 'the catalogue tree (storage::storages_ / storage::get_storages()) is referenced only from the '
                    'frozen set {storage::create_storage, delete_storage, find_storage, list_storages, get_storages, '
                    'destroy}; no function reachable from the tree_instance* data operations references it')
    ALLOWED = {'yakushima::storage::create_storage', 'yakushima::storage::delete_storage',
               'yakushima::storage::find_storage', 'yakushima::storage::list_storages',
               'yakushima::storage::get_storages', 'yakushima::destroy'}

    def touches(f):
        for n in f.all_nodes():
            if is_call(n, cq='yakushima::storage::get_storages'):
                return n
            if n['k'] in ('DeclRefExpr', 'MemberExpr') and \
                    (n.get('id') == 'yakushima::storage::storages_' or n.get('member') == 'yakushima::storage::storages_'):
                return n
        return None

    refs = 0
    for f in facts.functions.values():
        n = touches(f)
        if n is None:
            continue
        refs += 1
        S.ob('R-ISO', f.qname, 'references the catalogue', f.qname in ALLOWED,
             'allowed catalogue user' if f.qname in ALLOWED else
             'function outside the storage module references the storage catalogue', loc=short_loc(n))
    S.require('R-ISO', 'functions referencing the catalogue', refs, 5)
    roots = [f for f in facts.functions.values() if not f.is_lambda and not f.cls and
             f.qname in ('yakushima::put', 'yakushima::get', 'yakushima::remove', 'yakushima::scan',
                         'yakushima::iscan_open', 'yakushima::iscan_next', 'yakushima::iscan_findnext',
                         'yakushima::iscan_findfirst') and
             any(p['type'].startswith('yakushima::tree_instance *') or 'iscan_context' in p['type'] for p in f.params)
             and not any(is_call(n, cq='yakushima::storage::find_storage') for n in f.all_nodes())]
    S.require('R-ISO', 'tree_instance* data operations', len(roots), 8)
    reach = R.reachable_funcs(facts, roots)
    bad = [(g, touches(g)) for g in reach.values() if touches(g) is not None]
    S.ob('R-ISO', 'data operations on a tree_instance*', 'call graph (%d functions)' % len(reach), not bad,
         'no function reachable from the per-tree data operations references the catalogue or another tree' if not bad
         else '%s (reachable from a per-tree data operation) references the catalogue' % bad[0][0].qname,
         loc=short_loc(bad[0][1]) if bad else None)


def rule_unq(S):
    facts = S.facts()
    S.rule('R-UNQ', 'create_storage: put into get_storages() with the storage name as key and unique_restriction == '
                    'true, its status is returned unchanged; delete_storage: returns OK only on the OK edge of '
                    'remove(get_storages(), name) and destroys the tree found by get(get_storages(), name); '
                    'find_storage maps only WARN_NOT_EXIST to a miss; list_storages and destroy enumerate with '
                    '(INF, INF) and max_size 0')
    cs = facts.one('yakushima::storage::create_storage')
    name = cs.params[0]['id']
    puts = [n for n in cs.all_nodes() if is_call(n, cq='yakushima::put')]
    S.require('R-UNQ', 'put calls in create_storage', len(puts), 1)
    for n in puts:
        tg = facts.get(n.get('callee'))
        a = call_args(cs, n)
        ui = [i for i, p in enumerate(tg.params) if p['type'].replace('const ', '') == 'bool'] if tg else []
        if len(ui) != 1:
            ui = [i for i, p in enumerate(tg.params) if p['name'] == 'unique_restriction'] if tg else []
        uniq = bool(ui) and ui[0] < len(a) and R.const_of(cs, a[ui[0]]) == 'T'
        cat = is_catalogue(cs, a[1]) if len(a) > 1 else False
        key = len(a) > 2 and root_var(cs, a[2]) == name
        S.ob('R-UNQ', cs.qname, 'catalogue insert', uniq and cat and key,
             'unique insert of the storage name into the catalogue' if (uniq and cat and key) else
             'catalogue insert is not put(get_storages(), <name>, ..., unique_restriction = true) '
             '[unique=%s catalogue=%s key=%s]' % (uniq, cat, key), loc=short_loc(n))
    # status returned unchanged
    retvars = set()
    for n in cs.all_nodes():
        if n['k'] == 'DeclStmt':
            for v in n.get('vars', []):
                if 'init' in v and any(is_call(x, cq='yakushima::put') for x in cs.walk(v['init'])):
                    retvars.add(v['id'])
    rets = [n for n in cs.all_nodes() if n['k'] == 'ReturnStmt']
    good = bool(rets) and all(root_var(cs, cs.ch(r)[0]) in retvars for r in rets)
    S.ob('R-UNQ', cs.qname, 'returns the insert status', good,
         'every return yields the status of the catalogue insert' if good else
         'a return of create_storage does not yield the status of the catalogue insert', loc=cs.loc)

    ds = facts.one('yakushima::storage::delete_storage')
    dname = ds.params[0]['id']
    rm_vars = set()
    get_out = set()
    for n in ds.all_nodes():
        if n['k'] == 'DeclStmt':
            for v in n.get('vars', []):
                if 'init' in v:
                    for x in ds.walk(v['init']):
                        if is_call(x, cq='yakushima::remove'):
                            a = call_args(ds, x)
                            if len(a) == 3 and is_catalogue(ds, a[1]) \
                                    and root_var(ds, a[2]) == dname:
                                rm_vars.add(v['id'])
        if is_call(n, cq='yakushima::get'):
            a = call_args(ds, n)
            if len(a) >= 3 and is_catalogue(ds, a[0]) and \
                    root_var(ds, a[1]) == dname:
                get_out.add(root_var(ds, a[2]))
        if is_call(n, cq='yakushima::storage::find_storage'):
            # find_storage(name, &out) is the catalogue lookup (its own obligation is decided below)
            a = call_args(ds, n)
            if len(a) == 2 and root_var(ds, a[0]) == dname:
                rv_ = root_var(ds, a[1])
                ini_ = R.var_decl_init(ds, rv_) if rv_ else None
                if ini_ is not None and root_var(ds, ini_):
                    rv_ = root_var(ds, ini_)
                get_out.add(rv_)
    # a remove whose status decides a branch directly (`if (remove(..) != OK)`) keeps its status on the edges
    rm_conds = {}
    for b_, blk_ in ds.blocks.items():
        if blk_.term and 'cond' in blk_.term and len(blk_.succ) == 2:
            c_ = ds.strip(blk_.term['cond'], casts=True)
            if c_ is not None and c_['k'] == 'BinaryOperator' and c_.get('op') in ('==', '!='):
                l_, r_ = ds.ch(c_)
                for x_, y_ in ((l_, r_), (r_, l_)):
                    xs = ds.strip(x_, casts=True)
                    if xs is not None and is_call(xs, cq='yakushima::remove') and R.const_of(ds, y_) == OK:
                        a = call_args(ds, xs)
                        if len(a) == 3 and is_catalogue(ds, a[1]) and root_var(ds, a[2]) == dname:
                            rm_conds[b_] = c_['op']
    S.ob('R-UNQ', ds.qname, 'catalogue remove', bool(rm_vars) or bool(rm_conds),
         'removes the name from the catalogue' if rm_vars else
         'no remove(token, get_storages(), <name>) whose status is kept', loc=ds.loc)
    S.ob('R-UNQ', ds.qname, 'lookup by the same name', bool(get_out),
         'looks the tree up under the same name' if get_out else 'no get(get_storages(), <name>, out)', loc=ds.loc)
    ok_rets = {}
    destroyed = {}

    clear_sites = {}
    # with create/delete serialised (R-ATOM) the entry cannot change between the lookup and the remove: where the root
    # is read and whether the unlinked entry is reset no longer matter
    serialised = facts.__dict__.get('_c13_serialised', False)

    def origin(v, depth=0):
        """the looked-up result a local pointer was copied from (`T* const t = ret.first;`), else the variable itself"""
        while v is not None and v not in get_out and depth < 4:
            ini0 = R.var_decl_init(ds, v)
            nv = root_var(ds, ini0) if ini0 is not None else None
            if nv is None or nv == v or any(x['k'] in CALL_KINDS for x in ds.walk(ini0)):
                break
            v = nv
            depth += 1
        return v

    def step(ctx, n, st):
        fs = R.track_assign(ds, n, st, facts)
        if is_call(n, cq='yakushima::tree_instance::load_root_ptr') and origin(root_var(ds, call_recv(ds, n))) in get_out:
            onok0 = any((R.facts_get(fs, v) or '') == 'in:' + OK for v in rm_vars) or R.facts_get(fs, '#rm') == 'ok'
            return R.facts_set(fs, '#rootload', 'after' if onok0 else 'before')
        if is_call(n, cq='yakushima::tree_instance::store_root_ptr') and origin(root_var(ds, call_recv(ds, n))) in get_out:
            a0 = call_args(ds, n)
            if a0 and R.const_of(ds, a0[0]) == 'null':
                return R.facts_set(fs, '#cleared', 'Y')
        if n['k'] == 'CXXDeleteExpr' or is_call(n, cq='yakushima::base_node::destroy'):
            fs = R.facts_set(fs, '#destroyed', 'Y')
            if R.facts_get(fs, '#rootload') == 'before' and not serialised:
                e0 = destroyed.setdefault(short_loc(n), {'ok': True, 'loc': short_loc(n), 'path': None, 'why': ''})
                e0['ok'] = False
                e0['why'] = 'destroys a root that was read before the catalogue remove: if the name was deleted and ' \
                            're-created in between, the remove unlinks the new storage while the root of the old one ' \
                            '(already destroyed by the other deleter) is destroyed again'
                e0['path'] = ctx.witness()
            tgt = ds.ch(n)[0] if n['k'] == 'CXXDeleteExpr' else call_recv(ds, n)
            rv = root_var(ds, tgt)
            ini = R.var_decl_init(ds, rv) if rv else None
            src = None
            if ini is not None:
                for x in ds.walk(ini):
                    if is_call(x, cq='yakushima::tree_instance::load_root_ptr'):
                        src = origin(root_var(ds, call_recv(ds, x)))
            onok = any((R.facts_get(fs, v) or '') == 'in:' + OK for v in rm_vars) or R.facts_get(fs, '#rm') == 'ok'
            e = destroyed.setdefault(short_loc(n), {'ok': True, 'loc': short_loc(n), 'path': None, 'why': ''})
            if src not in get_out:
                e['ok'] = False
                e['why'] = 'destroys a tree that is not the one looked up under the storage name'
            elif not onok:
                e['ok'] = False
                e['why'] = 'destroys the tree although the catalogue remove did not return OK'
                e['path'] = ctx.witness()
        if n['k'] == 'ReturnStmt' and R.ret_const(ds, n, fs) == OK:
            if R.facts_get(fs, '#destroyed') == 'Y':
                c = clear_sites.setdefault(short_loc(n), {'ok': True, 'path': None})
                if R.facts_get(fs, '#cleared') != 'Y' and not serialised:
                    c['ok'] = False
                    c['path'] = c['path'] or ctx.witness()
            onok = any((R.facts_get(fs, v) or '') == 'in:' + OK for v in rm_vars) or R.facts_get(fs, '#rm') == 'ok'
            e = ok_rets.setdefault(short_loc(n), {'ok': True, 'loc': short_loc(n), 'path': None})
            if not onok:
                e['ok'] = False
                e['path'] = ctx.witness()
            return None
        return fs

    def branch(ctx, blk, idx, st):
        fs2 = R.refine(ds, blk, idx, st)
        if fs2 is not None and blk.id in rm_conds:
            ok_edge = (idx == 0) == (rm_conds[blk.id] == '==')
            fs2 = R.facts_set(fs2, '#rm', 'ok' if ok_edge else 'failed')
        return fs2

    Explorer(ds, step, branch).run(frozenset())
    for loc, e in sorted(ok_rets.items()):
        S.ob('R-UNQ', ds.qname, 'return OK', e['ok'],
             'OK is returned only when the catalogue remove returned OK' if e['ok'] else
             'OK can be returned although the catalogue remove did not return OK', loc=loc, path=e['path'])
    S.ob('R-UNQ', ds.qname, 'an OK return exists', bool(ok_rets), 'delete_storage can succeed' if ok_rets else
         'delete_storage never returns OK', loc=ds.loc)
    for loc, e in sorted(destroyed.items()):
        S.ob('R-UNQ', ds.qname, 'destroys the dropped tree', e['ok'], e['why'] or
             'destroys the tree looked up under the name, on the OK edge of the remove', loc=loc, path=e['path'])
    for loc, c in sorted(clear_sites.items()):
        S.ob('R-UNQ', ds.qname, 'root pointer of the unlinked entry cleared (return at %s)' % loc, c['ok'],
             ('store_root_ptr(nullptr) follows the destruction' if not serialised else
              'create / delete are serialised: no other deleter can hold the unlinked entry') if c['ok'] else
             'the unlinked entry keeps the pointer to the destroyed root: a deleter that looked the same entry up '
             'before it was unlinked destroys that root again', loc=loc, path=c['path'])
    S.ob('R-UNQ', ds.qname, 'dropped tree is destroyed', bool(destroyed),
         'the dropped tree is released' if destroyed else 'delete_storage does not destroy the dropped tree', loc=ds.loc)

    fs_ = facts.one('yakushima::storage::find_storage')
    # only WARN_NOT_EXIST of the lookup maps to a miss: every non-OK return is guarded by rc == WARN_NOT_EXIST
    miss_ok = True
    nret = 0
    gets = [n for n in fs_.all_nodes() if is_call(n, cq='yakushima::get')]
    cat = bool(gets) and all(is_catalogue(fs_, call_args(fs_, g)[0])
                             and root_var(fs_, call_args(fs_, g)[1]) == fs_.params[0]['id'] for g in gets)
    S.ob('R-UNQ', fs_.qname, 'lookup in the catalogue', cat,
         'get(get_storages(), <name>, ...)' if cat else 'find_storage does not look the name up in the catalogue',
         loc=fs_.loc)
    outp = fs_.params[1]['id'] if len(fs_.params) > 1 else None
    wrote = {'ok': True, 'path': None}
    # every OK answer comes from a catalogue lookup made by THIS call: the stored pointer is the out value of a
    # get(get_storages(), <name>, out) on the same path, with that get not having reported a miss (a pointer remembered
    # from an earlier call names an entry that delete_storage may have retired since)
    fresh = {'ok': True, 'path': None, 'why': ''}
    get_outs = {root_var(fs_, call_args(fs_, g)[2]) for g in gets if len(call_args(fs_, g)) >= 3}

    def step3(ctx, n, st):
        looked, stored = st
        if is_call(n, cq='yakushima::get') and is_catalogue(fs_, call_args(fs_, n)[0]):
            return (True, stored)
        if n['k'] == 'BinaryOperator' and n.get('op') == '=':
            lhs = fs_.ch(n)[0]
            if root_var(fs_, lhs) == outp and fs_.strip(lhs)['k'] == 'UnaryOperator':
                src = root_var(fs_, fs_.ch(n)[1])
                return (looked, 'lookup' if (looked and src in get_outs) else 'other')
        if n['k'] == 'ReturnStmt':
            if R.ret_const(fs_, n) == OK and (not looked or stored == 'other') and fresh['ok']:
                fresh['ok'] = False
                fresh['path'] = ctx.witness()
                fresh['why'] = 'without a catalogue lookup on this path' if not looked else \
                    'with a pointer that is not the result of this call\'s lookup'
            return None
        return st

    Explorer(fs_, step3).run((False, None))
    S.ob('R-UNQ', fs_.qname, 'OK => the tree was looked up by this call', fresh['ok'],
         'every OK return follows get(get_storages(), <name>, out) and hands out its result' if fresh['ok'] else
         'find_storage can return OK %s: a remembered entry may have been deleted (and its memory retired) since' %
         fresh['why'], loc=fs_.loc, path=fresh['path'])

    def step2(ctx, n, st):
        fs, w = st
        fs = R.track_assign(fs_, n, fs, facts)
        if n['k'] == 'BinaryOperator' and n.get('op') == '=':
            lhs = fs_.ch(n)[0]
            if root_var(fs_, lhs) == outp and fs_.strip(lhs)['k'] == 'UnaryOperator':
                return (fs, 'Y')
        if n['k'] == 'ReturnStmt':
            rc = R.ret_const(fs_, n, fs)
            if rc == OK and w != 'Y':
                wrote['ok'] = False
                wrote['path'] = ctx.witness()
            return None
        return (fs, w)

    def branch2(ctx, blk, idx, st):
        fs2 = R.refine(fs_, blk, idx, st[0], {outp: 'nonnull'})
        return None if fs2 is None else (fs2, st[1])

    Explorer(fs_, step2, branch2).run((frozenset(), 'N'))
    S.ob('R-UNQ', fs_.qname, 'OK => *found_storage written', wrote['ok'],
         'every OK return has stored the tree pointer' if wrote['ok'] else
         'find_storage can return OK without storing the tree pointer', loc=fs_.loc, path=wrote['path'])

    for q in ('yakushima::storage::list_storages', 'yakushima::destroy'):
        g = facts.one(q)
        scans = [n for n in g.all_nodes() if is_call(n, cq='yakushima::scan')]
        if not scans and q == 'yakushima::destroy' and \
                any(is_call(n, cq='yakushima::storage::list_storages') for n in g.all_nodes()):
            # destroy() may enumerate through list_storages, which is decided above
            S.ob('R-UNQ', q, 'enumerates the whole catalogue', True, 'through storage::list_storages()', loc=g.loc)
            continue
        S.require('R-UNQ', 'scan calls in ' + q, len(scans), 1)
        for n in scans:
            a = call_args(g, n)
            tg = facts.get(n.get('callee'))
            names = [p['name'] for p in tg.params] if tg else []
            def arg(nm):
                return a[names.index(nm)] if nm in names and names.index(nm) < len(a) else None
            full = R.const_of(g, arg('l_end')) == INF and R.const_of(g, arg('r_end')) == INF
            from yk.facts import cv_through
            nolimit = arg('max_size') is not None and cv_through(g, arg('max_size')) == 0
            cat = is_catalogue(g, a[0]) if a else False
            S.ob('R-UNQ', q, 'enumerates the whole catalogue', full and nolimit and cat,
                 'scan(get_storages(), INF, INF, max_size = 0)' if (full and nolimit and cat) else
                 'catalogue enumeration is bounded [INF/INF=%s, unlimited=%s, catalogue=%s]' % (full, nolimit, cat),
                 loc=short_loc(n))


def rule_lst(S):
    """R-LST: list_storages hands out every entry its catalogue scan delivered."""
    from yk.flow import Explorer
    facts = S.facts()
    S.rule('R-LST', 'storage::list_storages: every element of the catalogue scan\'s result that the walk takes up is appended '
                    'to the output before the walk moves on or ends (no entry is filtered out: an emptied storage - its '
                    'root is the empty deleted border - is still a storage), so the listed names are exactly the names '
                    'the scan saw')
    g = facts.one('yakushima::storage::list_storages')
    outp = [p_['id'] for p_ in g.params if 'std::vector' in (p_.get('type') or '')]
    if len(outp) != 1:
        raise AnalysisBroken('R-LST: output parameter of list_storages not found')
    outp = outp[0]
    elem_decls = []
    for n in g.all_nodes():
        if n['k'] == 'DeclStmt':
            for v in n.get('vars', []):
                if 'init' in v and not (v.get('name') or '').startswith('__') and \
                        any(x['k'] == 'DeclRefExpr' and (x.get('name') or '').startswith('__begin') for x in g.walk(v['init'])):
                    elem_decls.append(n)
    if not elem_decls:
        # the whole-range form: std::transform(result.begin(), result.end(), std::back_inserter(out), f) appends exactly
        # one element per element of the result
        for n in g.all_nodes():
            if n['k'] in CALL_KINDS and (n.get('cq') or '') == 'std::transform':
                a = call_args(g, n)
                if len(a) == 4:
                    b0, e0 = g.strip(a[0], casts=True), g.strip(a[1], casts=True)
                    whole = b0 is not None and e0 is not None and b0['k'] in CALL_KINDS and e0['k'] in CALL_KINDS and \
                        b0.get('cn') in ('begin', 'cbegin') and e0.get('cn') in ('end', 'cend') and \
                        root_var(g, call_recv(g, b0)) is not None and \
                        root_var(g, call_recv(g, b0)) == root_var(g, call_recv(g, e0))
                    sink = any(x['k'] in CALL_KINDS and (x.get('cq') or '') == 'std::back_inserter' and
                               any(y['k'] == 'DeclRefExpr' and y.get('id') == outp for y in g.walk(x))
                               for x in g.walk(a[2]))
                    if whole and sink:
                        S.ob('R-LST', g.qname, 'every scanned entry is listed', True,
                             'std::transform over the whole result into a back_inserter of the output: one output '
                             'element per scanned entry', loc=short_loc(n))
                        return
    if len(elem_decls) != 1:
        raise AnalysisBroken('R-LST: the walk over the scan result was not found in list_storages (%d candidates)' %
                             len(elem_decls))
    ed = elem_decls[0]
    res = {'ok': True, 'path': None, 'loc': g.loc}
    seen = {'app': 0}

    def fail(ctx, nd):
        if res['ok']:
            res['ok'] = False
            res['path'] = ctx.witness() if ctx is not None else None
            res['loc'] = short_loc(nd) if nd is not None else g.loc

    def step(ctx, nd, st):
        if nd is ed:
            if st:
                fail(ctx, nd)
            return True
        if nd['k'] in CALL_KINDS and nd.get('cn') in ('emplace_back', 'push_back') and \
                root_var(g, call_recv(g, nd)) == outp:
            seen['app'] += 1
            return False
        if nd['k'] == 'ReturnStmt':
            if st:
                fail(ctx, nd)
            return None
        return st

    ex = Explorer(g, step)
    ex.run(False)
    if any(st for st in ex.exit_states):
        fail(None, None)
    S.require('R-LST', 'appends to the output of list_storages', seen['app'], 1)
    S.ob('R-LST', g.qname, 'every scanned entry is listed', res['ok'],
         'each element taken up by the walk is appended to the output' if res['ok'] else
         'a path through the walk over the scan result skips an entry: a storage that exists (find_storage succeeds, '
         'create_storage refuses the name) is missing from the list', loc=res['loc'], path=res['path'])


def rule_sess(S, rule='R-SESS'):
    """The library's own sessions: what a DDL function looked up inside its session is not used after its leave."""
    from yk.flow import Explorer
    facts = S.facts()
    S.rule(rule, 'storage::delete_storage / create_storage / find_storage / list_storages and destroy(): a tree_instance '
                 'pointer obtained from the catalogue (the out-argument of get<tree_instance> / find_storage) inside the '
                 'function\'s own enter .. leave pair is not dereferenced after that leave on the same path: the catalogue '
                 'stores the tree_instance by value in the entry, remove() retires the entry into this session\'s GC list, '
                 'and after leave it may be freed and reused (by a create_storage of another name)')
    n = 0
    for q in ('yakushima::storage::delete_storage', 'yakushima::storage::create_storage'):
        f = facts.one(q)
        if not any(is_call(x, cq='yakushima::leave') for x in f.all_nodes()):
            continue
        n += 1

        def resolve(var, depth=0):
            ini = R.var_decl_init(f, var) if var else None
            if ini is None or depth > 4:
                return var
            rv = root_var(f, ini)
            return resolve(rv, depth + 1) if rv and rv != var else var

        entry_vars = set()
        for x in f.all_nodes():
            if is_call(x, cq='yakushima::get') or is_call(x, cq='yakushima::storage::find_storage'):
                a = call_args(f, x)
                if a:
                    rv = resolve(root_var(f, a[-1]))
                    if rv:
                        entry_vars.add(rv)
        # locals copied from them
        changed = True
        while changed:
            changed = False
            for m in f.all_nodes():
                if m['k'] == 'DeclStmt':
                    for v in m.get('vars', []):
                        if 'init' in v and v['id'] not in entry_vars and root_var(f, v['init']) in entry_vars and \
                                ('tree_instance' in (v.get('type') or '')):
                            entry_vars.add(v['id'])
                            changed = True
        sites = {}

        def step(ctx, nd, st):
            if is_call(nd, cq='yakushima::enter'):
                return 'open'
            if is_call(nd, cq='yakushima::leave'):
                return 'left'
            if nd['k'] == 'CXXMemberCallExpr' and nd.get('mcls') == 'yakushima::tree_instance' and st == 'left':
                rv = resolve(root_var(f, call_recv(f, nd)))
                if rv in entry_vars:
                    sites.setdefault(short_loc(nd), ctx.witness())
            if nd['k'] == 'ReturnStmt':
                return None
            return st

        Explorer(f, step).run('none')
        S.ob(rule, f.qname, 'catalogue entry used inside the session only', not sites,
             'every use of the looked-up tree precedes leave()' if not sites else
             'the tree_instance looked up in the catalogue is dereferenced at %s after leave(): the entry was retired by '
             'remove() and may already be freed / reused' % sorted(sites)[0],
             loc=sorted(sites)[0] if sites else f.loc, path=sites[sorted(sites)[0]] if sites else None)
    S.require(rule, 'DDL functions with a session of their own', n, 2)


def rule_atom(S, rule='R-ATOM'):
    """delete_storage looks the entry up and removes the name in two steps; they must see the same entry (finding F11)."""
    facts = S.facts()
    S.rule(rule, 'storage::delete_storage: the catalogue lookup and the catalogue remove both lie in the scope of one '
                 'lock guard (std::lock_guard / unique_lock / scoped_lock on a mutex M, constructed before the lookup, '
                 'alive until after the remove), and storage::create_storage makes its catalogue insert under a guard '
                 'on the same M; otherwise a delete + create of the same name between the two steps makes the remove '
                 'unlink an entry that was not looked up (its tree is never released)')
    GUARDS = ('std::lock_guard<', 'std::unique_lock<', 'std::scoped_lock<')

    def guards_of(f):
        out = []
        for n in f.all_nodes():
            if n['k'] == 'DeclStmt':
                for v in n.get('vars', []):
                    if any(v['type'].replace('const ', '').startswith(g) for g in GUARDS) and 'init' in v:
                        m = None
                        for x in f.walk(f.node(v['init'])):
                            if x['k'] in ('DeclRefExpr', 'MemberExpr') and 'mutex' in (x.get('ty') or ''):
                                m = x.get('id') or x.get('member') or x.get('name')
                        out.append({'var': v['id'], 'mutex': m, 'loc': n.get('loc'), 'end': v.get('scope_end')})
        return out

    def lc(loc):
        # 'file:line[~splice]:col' -> (file, line, col, splice)
        p_ = (loc or '').split(':')
        try:
            ln, _, tag = p_[1].partition('~')
            return (p_[0], int(ln), int(p_[2]) if len(p_) > 2 else 0, tag)
        except (ValueError, IndexError):
            return None

    def covered(g, call):
        a, b = lc(g['loc']), lc(g['end'])
        if a is None or b is None:
            return False
        if a[3]:
            # the guard lives in a spliced helper: it covers the code of the same splice (its own scope) ...
            c = lc(call.get('loc'))
            if c is not None and c[3] == a[3]:
                return a[0] == b[0] == c[0] and a[1:3] <= c[1:3] <= b[1:3]
            return False
        # ... a guard of the function itself covers what runs inside its scope, spliced code at its call site
        c = lc(call.get('call_loc') or call.get('loc'))
        return c is not None and a[0] == b[0] == c[0] and a[1:3] <= c[1:3] <= b[1:3]

    ds = facts.one('yakushima::storage::delete_storage')
    cs = facts.one('yakushima::storage::create_storage')
    facts.__dict__['_c13_guards'] = (guards_of, covered)
    lookups = [n for n in ds.all_nodes() if (is_call(n, cq='yakushima::get') and
                                             any(is_catalogue(ds, a) for a in call_args(ds, n)[:1])) or
               is_call(n, cq='yakushima::storage::find_storage')]    # find_storage is the catalogue lookup by name
    removes = [n for n in ds.all_nodes() if is_call(n, cq='yakushima::remove') and
               any(is_catalogue(ds, a) for a in call_args(ds, n)[1:2])]
    inserts = [n for n in cs.all_nodes() if is_call(n, cq='yakushima::put') and
               any(is_catalogue(cs, a) for a in call_args(cs, n)[1:2])]
    S.require(rule, 'catalogue lookup / remove in delete_storage', min(len(lookups), len(removes)), 1)
    S.require(rule, 'catalogue insert in create_storage', len(inserts), 1)
    dg = [g for g in guards_of(ds) if all(covered(g, n) for n in lookups + removes)]
    S.ob(rule, ds.qname, 'lookup and remove under one guard', bool(dg),
         'both steps lie in the scope of a lock guard on %s' % (dg[0]['mutex'] if dg else '') if dg else
         'the lookup and the remove of the name are two unserialised steps: another session can delete and re-create '
         'the name in between, the remove then unlinks the new entry while the tree to destroy is taken from the old one',
         loc=ds.loc)
    mut = {g['mutex'] for g in dg}
    cg = [g for g in guards_of(cs) if g['mutex'] in mut and all(covered(g, n) for n in inserts)]
    facts.__dict__['_c13_serialised'] = bool(dg and cg)
    S.ob(rule, cs.qname, 'catalogue insert under the same mutex', bool(cg) or not dg,
         'create_storage inserts under a guard on the same mutex' if cg else
         ('(no guarded delete_storage to pair with)' if not dg else
          'create_storage does not take the mutex delete_storage holds: a re-creation can still slip between the lookup '
          'and the remove'), loc=cs.loc)


def run(S):
    S.undecided = ['map semantics over sequences of DDL', 'ascending order of list_storages (inherits C03)',
                   'exactly-one-winner under concurrent create/create or delete/delete (inherits C01)']
    S.assumptions = ['the name-based API functions are the ones that call storage::find_storage and take no tree pointer']
    rule_stg(S)
    rule_iso(S)
    rule_atom(S)
    rule_sess(S)
    rule_unq(S)
    rule_lst(S)
    # 'exactly one of several concurrent creates succeeds' rests on the unique insert of put (shared with C01)
    from checks import shared
    shared.writers_revalidate(S)
    # storage names are keys of the catalogue tree: 'a map from arbitrary byte-string names' needs the one key order
    shared.key_order(S)
    # list_storages is a scan of the catalogue: every listed name is the key of the entry visited (shared with C04)
    from checks import C04
    C04.rule_key(S)
