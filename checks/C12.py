"""C12 - put reports exactly the border nodes whose versions its insert changed.

Decided (structural; DESIGN.md section 5 / C12):
  R-REP  reported = dirtied: on every path of border_split / insert_lv / the root-creation block of put (under
         inserted_node_info_ptr != nullptr) the border nodes whose version word the path changes are exactly
         {modified_nvp} u {created_nvp}; created_nvp is the fresh sibling iff the path splits
  R-UPD  an overwrite changes no version: nothing version-changing happens between lock() and version_unlock()
         on the update branch of put
  R-PQ   the parent border of a layer root is never dirtied by a layer-root replacement
  R-LEG  the legacy overload returns the modified_nvp of the call it forwards to
"""
from yk.facts import (AnalysisBroken, CALL_KINDS, call_args, call_recv, is_call, root_var, short_loc, term, vname)
from yk.flow import Explorer
from yk import rules as R
from yk.locks import Y, tok_str, SET_DIRTY, SET_VERSION, GET_VERSION, LOCK, UNLOCK
from checks.lockfam import lock_analysis
from checks.C09 import fname

INFO_T = 'yakushima::inserted_node_info *'
VERSION_CHANGERS = set(SET_DIRTY) | {Y + 'base_node::set_version_deleted', Y + 'base_node::set_version_root',
                                     Y + 'base_node::atomic_set_version_root', Y + 'base_node::set_version_border',
                                     Y + 'base_node::version_atomic_inc_vinsert',
                                     Y + 'node_version64::atomic_inc_vinsert', SET_VERSION}


def is_border_recv(f, recv):
    n = f.strip(recv)
    t = (n or {}).get('ty', '').replace('const', '').strip()
    return t.startswith('yakushima::border_node *') or t == 'yakushima::border_node'


def info_param(f):
    ps = [p['id'] for p in f.params if p['type'].replace('const', '').strip() == INFO_T]
    return ps[0] if len(ps) == 1 else None


def nvp_assign(f, la, fi, n, info):
    """('modified_nvp'|'created_nvp', token or None) if n assigns a field of *inserted_node_info_ptr."""
    if n['k'] != 'BinaryOperator' or n.get('op') != '=':
        return None
    c = f.ch(n)
    lhs = f.strip(c[0])
    if lhs is None or lhs['k'] != 'MemberExpr' or root_var(f, lhs) != info:
        return None
    if lhs['name'] not in ('modified_nvp', 'created_nvp'):
        return None
    tok = None
    for x in f.walk(c[1]):
        if is_call(x, cq=Y + 'base_node::get_version_ptr'):
            tok = la.tok(fi, call_recv(f, x))
    if tok is None and R.const_of(f, c[1]) != 'null':
        tok = ('unk', 'value')
    return lhs['name'], tok


def rule_rep(S, la):
    facts = la.facts
    S.rule('R-REP', 'border_split, insert_lv, put root creation (analysed under inserted_node_info_ptr != nullptr): at '
                    'every exit the set of pre-existing-or-published border nodes whose version word was changed on '
                    'the path equals {modified_nvp} u {created_nvp}; created_nvp is written only on a path that '
                    'creates a sibling and names that sibling; put clears created_nvp at entry and forwards the '
                    'pointer unchanged')
    n = 0
    # a border_split that is not given the report leaves the reporting to its caller: the caller then has to name the
    # node border_split created - the value border_split returns (a node it allocated, on every return), never a
    # pointer re-read from the shared links after the split has released its locks
    bs = facts.one(Y + 'border_split')
    split_reports = info_param(bs) is not None
    split_returns_fresh = False
    if not split_reports:
        bfi = la.fi(bs)
        rets = [x for x in bs.all_nodes() if x['k'] == 'ReturnStmt']
        split_returns_fresh = bool(rets) and all(
            bs.ch(x) and (lambda r: r is not None and r['k'] == 'DeclRefExpr' and r.get('id') in bfi.fresh_vars)(
                bs.strip(bs.ch(x)[0], casts=True)) for x in rets)
        S.ob('R-REP', bs.qname, 'reporting', True,
             'border_split takes no inserted_node_info*: the report is made by its caller (checked there); it %s the '
             'node it created' % ('returns' if split_returns_fresh else 'does not return'), loc=bs.loc)
    for q in ((Y + 'border_split', Y + 'insert_lv') if split_reports else (Y + 'insert_lv',)):
        f = facts.one(q)
        fi = la.fi(f)
        info = info_param(f)
        if info is None:
            raise AnalysisBroken('R-REP: %s has no inserted_node_info* parameter' % q)
        exits = {}
        split_vars = {v['id'] for m in f.all_nodes() if m['k'] == 'DeclStmt' for v in m.get('vars', [])
                      if 'init' in v and is_call(f.strip(f.node(v['init']), casts=True), cq=Y + 'border_split')}

        def step(ctx, nd, st):
            dirt, mod, cre, forwarded = st
            a = nvp_assign(f, la, fi, nd, info)
            if a:
                if a[0] == 'modified_nvp':
                    mod = a[1]
                else:
                    cre = a[1]
                    for x in f.walk(f.ch(nd)[1]):
                        if is_call(x, cq=Y + 'base_node::get_version_ptr'):
                            r = f.strip(call_recv(f, x), casts=True)
                            if r is not None and r['k'] == 'DeclRefExpr' and r.get('id') in split_vars:
                                cre = ('var', r['id'])
                return (dirt, mod, cre, forwarded)
            if nd['k'] in CALL_KINDS:
                cq = nd.get('cq')
                recv = call_recv(f, nd)
                if cq in VERSION_CHANGERS and recv is not None and is_border_recv(f, recv):
                    return (dirt | {la.tok(fi, recv)}, mod, cre, forwarded)
                if cq == Y + 'border_split':
                    args = call_args(f, nd)
                    fw = any(root_var(f, x) == info for x in args)
                    if not split_reports:
                        # the split changes the version of the border it is given and of the sibling it creates
                        bt = [la.tok(fi, x) for x in args if is_border_recv(f, x)]
                        return (dirt | set(bt) | {('split-fresh',)}, mod, cre, 'split-local')
                    return (dirt, mod, cre, 'split' if fw else 'split-lost')
            if nd['k'] == 'ReturnStmt':
                return finish(ctx, st, nd)
            return st

        def finish(ctx, st, nd):
            dirt, mod, cre, forwarded = st
            trail = R.branch_trail(ctx.ex, ctx.key, f, 2) if ctx is not None else []
            site = 'exit after [%s]' % '; '.join(trail)
            e = exits.setdefault(site, {'ok': True, 'loc': short_loc(nd) if nd else f.loc, 'path': None, 'why': ''})
            if forwarded == 'split':
                return None  # border_split reports (checked there)
            rep = {t for t in (mod, cre) if t is not None}
            if forwarded == 'split-local':
                named_fresh = cre is not None and cre[0] == 'var' and split_returns_fresh and \
                    any(vname(v) == cre[1] or v == cre[1] for v in split_vars)
                others = {t for t in dirt if t != ('split-fresh',)}
                if cre is None:
                    e['ok'] = False
                    e['why'] = 'the path splits but created_nvp is not set'
                elif not named_fresh:
                    e['ok'] = False
                    e['why'] = ('created_nvp names %s, which is not the node border_split created and returned (a link '
                                're-read after the split released its locks can already name another node)' % tok_str(cre))
                elif others != ({mod} if mod is not None else set()):
                    e['ok'] = False
                    e['why'] = 'version words changed: {%s}; reported: modified=%s' % (
                        ', '.join(sorted(tok_str(t) for t in others)), tok_str(mod) if mod else 'unset')
                if not e['ok'] and ctx is not None:
                    e['path'] = e['path'] or ctx.witness()
                return None
            if forwarded == 'split-lost':
                e['ok'] = False
                e['why'] = 'inserted_node_info_ptr is not forwarded to border_split'
            elif set(dirt) != rep:
                e['ok'] = False
                e['why'] = 'version words changed: {%s}; reported: modified=%s created=%s' % (
                    ', '.join(sorted(tok_str(t) for t in dirt)), tok_str(mod) if mod else 'unset',
                    tok_str(cre) if cre else 'unset')
            elif cre is not None and not (cre[0] == 'var' and cre[1] in fi.fresh_vars):
                e['ok'] = False
                e['why'] = 'created_nvp names %s, which is not a node created on this path' % tok_str(cre)
            if not e['ok'] and ctx is not None:
                e['path'] = e['path'] or ctx.witness()
            return None

        def branch(ctx, blk, idx, st):
            fs = R.refine(f, blk, idx, frozenset(), {info: 'nonnull'})
            return None if fs is None else st

        # borders the helper requires to be dirty already at entry (its caller marked them): they count as changed
        entry_dirty = frozenset(t for (t, lvl) in la.summary.get(f.fid, {}).get('need', ()) if lvl == 'D' and
                                t and t[0] == 'param')
        ex = Explorer(f, step, branch)
        ex.run((entry_dirty, None, None, None))
        for st in ex.exit_states:
            class _C:  # fall-off exit: no witness
                pass
            finish(None, st, None)
        for site, e in sorted(exits.items()):
            n += 1
            S.ob('R-REP', f.qname, site, e['ok'], 'reported nodes = nodes whose version changed' if e['ok'] else e['why'],
                 loc=e['loc'], path=e['path'])
    # put: clears created_nvp at entry, reports the fresh root, forwards the pointer
    puts = [f for f in facts.by_qname(Y + 'put') if len(f.params) > 1 and f.params[1]['type'] == 'yakushima::tree_instance *']
    for f in puts:
        fi = la.fi(f)
        info = info_param(f)
        if info is None:
            raise AnalysisBroken('R-REP: put has no inserted_node_info* parameter')
        res = {'cleared': None, 'root': {}, 'fw': []}

        def step(ctx, nd, st):
            cleared, mod, fresh_dirty = st
            a = nvp_assign(f, la, fi, nd, info)
            if a:
                if a[0] == 'created_nvp' and a[1] is None:
                    cleared = 'Y'
                if a[0] == 'modified_nvp':
                    mod = a[1]
                return (cleared, mod, fresh_dirty)
            if nd['k'] in CALL_KINDS:
                cq = nd.get('cq')
                if cq == Y + 'border_node::init_border' and len(call_args(f, nd)) == 4:
                    return (cleared, mod, la.tok(fi, call_recv(f, nd)))
                if cq == Y + 'insert_lv':
                    args = call_args(f, nd)
                    res['fw'].append((short_loc(nd), any(root_var(f, x) == info and
                                                         f.strip(x, casts=True)['k'] == 'DeclRefExpr' for x in args),
                                      cleared))
                if cq in (Y + 'tree_instance::load_root_ptr', Y + 'find_border') and res['cleared'] is None:
                    res['cleared'] = cleared
            if nd['k'] == 'ReturnStmt':
                # return right after the successful root CAS
                blk = f.blocks[ctx.block]
                trail = R.branch_trail(ctx.ex, ctx.key, f, 1)
                if trail and 'cas_root_ptr' in trail[0] and trail[0].endswith(':T'):
                    e = res['root'].setdefault(short_loc(nd), {'ok': True, 'path': None})
                    if not (mod is not None and mod == fresh_dirty):
                        e['ok'] = False
                        e['path'] = ctx.witness()
                return None
            return (cleared, mod, fresh_dirty)

        def branch(ctx, blk, idx, st):
            fs = R.refine(f, blk, idx, frozenset(), {info: 'nonnull'})
            return None if fs is None else st

        Explorer(f, step, branch).run(('N', None, None))
        fn = fname(f)
        n += 1
        S.ob('R-REP', fn, 'created_nvp cleared at entry', res['cleared'] == 'Y',
             'created_nvp = nullptr precedes the first tree access' if res['cleared'] == 'Y' else
             'put does not clear created_nvp before operating (a non-splitting insert would report a stale created node)',
             loc=f.loc)
        for loc, e in sorted(res['root'].items()):
            n += 1
            S.ob('R-REP', fn, 'root creation at ' + loc, e['ok'],
                 'the freshly created root border is reported as modified_nvp' if e['ok'] else
                 'the successful root CAS returns without reporting the created border', loc=loc, path=e['path'])
        S.ob('R-REP', fn, 'root creation exit exists', bool(res['root']),
             'found' if res['root'] else 'no return on the success edge of the root CAS', loc=f.loc)
        for loc, fw, cl in res['fw']:
            n += 1
            S.ob('R-REP', fn, 'insert_lv call at ' + loc, fw,
                 'inserted_node_info_ptr forwarded unchanged' if fw else
                 'insert_lv is not given the caller\'s inserted_node_info_ptr', loc=loc)
        S.ob('R-REP', fn, 'insert path exists', bool(res['fw']), 'put calls insert_lv' if res['fw'] else
             'put no longer calls insert_lv', loc=f.loc)
    S.require('R-REP', 'reporting obligations', n, 10)
    # put: a border that put itself marks dirty reaches no unlock / return except through insert_lv (which reports it)
    for f in puts:
        fi = la.fi(f)
        sites = {}

        def cstep(ctx, nd, dirty):
            if nd['k'] in CALL_KINDS:
                cq = nd.get('cq')
                recv = call_recv(f, nd)
                if cq in SET_DIRTY and recv is not None and is_border_recv(f, recv):
                    t = la.tok(fi, recv)
                    if not (t and t[0] == 'var' and t[1] in fi.fresh_vars):
                        return dirty | {t}
                if cq == Y + 'insert_lv':
                    toks = {la.tok(fi, x) for x in call_args(f, nd)}
                    return frozenset(t for t in dirty if t not in toks)
                if cq == UNLOCK and recv is not None:
                    t = la.tok(fi, recv)
                    if t in dirty:
                        e = sites.setdefault('version_unlock at ' + short_loc(nd), {'loc': short_loc(nd), 'path': ctx.witness(), 'tok': t})
                        return dirty - {t}
            if nd['k'] == 'ReturnStmt':
                return None
            return dirty

        Explorer(f, cstep, None).run(frozenset())
        n += 1
        S.ob('R-REP', fname(f), 'borders marked dirty by put itself', not sites,
             'none reaches an unlock except through insert_lv' if not sites else
             'put marks %s dirty and unlocks it on a validate-and-retry exit (%s): the counter of a border nothing was '
             'inserted into is bumped and the border is not reported' % (
                 ', '.join(sorted({tok_str(e['tok']) for e in sites.values()})), ', '.join(sorted(sites))),
             loc=(sorted(sites.values(), key=lambda e: e['loc'])[0]['loc'] if sites else f.loc),
             path=(sorted(sites.values(), key=lambda e: e['loc'])[0]['path'] if sites else None))


def rule_upd(S, la):
    facts = la.facts
    S.rule('R-UPD', 'put, update branch: between target_border->lock() and version_unlock() around '
                    'link_or_value::set_value no call changes a version word other than lock/unlock themselves')
    puts = [f for f in facts.by_qname(Y + 'put') if len(f.params) > 1 and f.params[1]['type'] == 'yakushima::tree_instance *']
    n = 0
    for f in puts:
        fi = la.fi(f)
        sites = {}

        def step(ctx, nd, st):
            locked, dirt, upd = st
            if nd['k'] in CALL_KINDS:
                cq = nd.get('cq')
                if cq == LOCK:
                    return ('Y', 'N', None)
                if cq in VERSION_CHANGERS or cq in (Y + 'insert_lv', Y + 'border_split', Y + 'border_node::insert_lv_at'):
                    return (locked, 'Y', upd)
                if cq == Y + 'link_or_value::set_value':
                    sites.setdefault(short_loc(nd), {'ok': True, 'path': None})
                    if dirt == 'Y':
                        sites[short_loc(nd)]['ok'] = False
                        sites[short_loc(nd)]['path'] = ctx.witness()
                    return (locked, dirt, short_loc(nd))
                if cq == UNLOCK:
                    if upd and dirt == 'Y':
                        sites[upd]['ok'] = False
                        sites[upd]['path'] = sites[upd]['path'] or ctx.witness()
                    return ('N', 'N', None)
            if nd['k'] == 'ReturnStmt':
                return None
            return st

        Explorer(f, step).run(('N', 'N', None))
        for loc, e in sorted(sites.items()):
            n += 1
            S.ob('R-UPD', fname(f), 'overwrite at ' + loc, e['ok'],
                 'the overwrite changes no version word' if e['ok'] else
                 'a version-changing call shares the critical section of the value overwrite', loc=loc, path=e['path'])
    S.require('R-UPD', 'overwrite sites in put', n, 2)


def rule_pq(S, la):
    S.rule('R-PQ', 'no dirty bit / version bit of a node obtained from lock_parent is changed through a receiver that '
                   'may be a border node (layer-root replacement, last-sibling promotion and child removal must not '
                   'change the linking border\'s version)')
    n = 0
    puts = [f for f in la.facts.by_qname(Y + 'put') if len(f.params) > 1 and
            f.params[1]['type'] == 'yakushima::tree_instance *']
    put_reach = R.reachable_funcs(la.facts, puts)
    for f in la.funcs.values():
        fi = la.fi(f)
        if not fi.lp_vars or f.fid not in put_reach:
            continue  # only the call graph of put: the property is about put
        n += 1
        bad = []
        for ev in la.events:
            if ev['fn'].fid != f.fid:
                continue
            if ev['kind'] == 'setdirty' or (ev['kind'] == 'mutate' and ev.get('cls') == 'bits'):
                t = ev['token']
                if t[0] in ('var', 'pr') and t[1] in fi.lp_vars:
                    ty = (ev.get('recv_ty') or '').replace('const', '').strip()
                    if not ty.startswith('yakushima::interior_node'):
                        bad.append(ev)
        S.ob('R-PQ', fname(f), 'parent obtained by lock_parent', not bad,
             'the locked parent\'s version bits are not changed through a possibly-border receiver' if not bad else
             'version bits of the locked parent %s are changed through a %s receiver' % (
                 tok_str(bad[0]['token']), bad[0].get('recv_ty')), loc=bad[0]['loc'] if bad else f.loc)
    S.require('R-PQ', 'functions in the call graph of put that lock a parent', n, 2)


def rule_leg(S, la):
    facts = la.facts
    S.rule('R-LEG', 'legacy put overload (node_version64** out-parameter): a null out-pointer forwards a null '
                    'inserted_node_info*; otherwise *out = tmp.modified_nvp of the inserted_node_info passed to the '
                    'forwarded call, whose status is returned')
    legs = [f for f in facts.by_qname(Y + 'put') if f.params and
            f.params[-1]['type'].replace(' ', '') == 'yakushima::node_version64**']
    S.require('R-LEG', 'legacy put overloads', len(legs), 1)
    for f in legs:
        outp = f.params[-1]['id']
        tmp_vars = {v['id'] for n in f.all_nodes() if n['k'] == 'DeclStmt' for v in n.get('vars', [])
                    if v['type'] == 'yakushima::inserted_node_info'}
        ok_assign = False
        for n in f.all_nodes():
            if n['k'] == 'BinaryOperator' and n.get('op') == '=':
                c = f.ch(n)
                l = f.strip(c[0])
                r = f.strip(c[1], casts=True)
                if l is not None and l['k'] == 'UnaryOperator' and l.get('op') == '*' and root_var(f, l) == outp:
                    if r is not None and r['k'] == 'MemberExpr' and r['name'] == 'modified_nvp' and \
                            root_var(f, r) in tmp_vars:
                        ok_assign = True
        fwd = [n for n in f.all_nodes() if is_call(n, cq=Y + 'put')]
        passes_tmp = any(any(x['k'] == 'DeclRefExpr' and x.get('id') in tmp_vars for a in call_args(f, c)
                             for x in f.walk(a)) for c in fwd)
        S.ob('R-LEG', fname(f), 'reports modified_nvp', ok_assign and passes_tmp,
             '*out = tmp.modified_nvp of the forwarded call' if (ok_assign and passes_tmp) else
             'the legacy overload does not return the modified node of the forwarded insert', loc=f.loc)


def run(S):
    S.undecided = ['numerical equality of version words of untouched borders (follows only if no other code writes '
                   'them; counter wrap not considered)',
                   'after a lost root CAS modified_nvp briefly names the freed speculative node (schedule-dependent, '
                   'outside this property\'s quantifier; noted, not a violation)']
    S.assumptions = ['a border\'s version word changes exactly through the enumerated version-changing calls '
                     '(dirty bits, deleted/root/border bits, atomic_inc_vinsert, raw set_version) plus lock/unlock']
    la = lock_analysis(S.facts())
    rule_rep(S, la)
    rule_upd(S, la)
    rule_pq(S, la)
    rule_leg(S, la)
