"""C11 - everything allocated is released: no leak through any operation history.

Decided (ownership discipline; DESIGN.md section 5 / C11):
  R-OWN     every allocation is transferred or freed on every path of the allocating function
  R-SWAP    the value displaced by an overwrite is retired
  R-DRAIN   garbage_collection::fin drains every container push_*/gc_* can leave non-empty; the table fin visits
            every session
  R-DESTROY recursive teardown covers every link of a node; the delete flag hand-over to the GC is exactly-once
"""
from yk.facts import AnalysisBroken, CALL_KINDS, call_args, call_recv, is_call, root_var, short_loc, term, vname
from yk.flow import Explorer
from yk import rules as R
from yk import own

Y = 'yakushima::'


def fname(f):
    return f.qname + ('<%s>' % f.targs if f.targs else '')


def rule_own(S):
    facts = S.facts()
    S.rule('R-OWN', 'every `new border_node/interior_node/iscan_context`, value::create_value and ::operator new result '
                    'bound to a local is, on every CFG path of that function, stored into the tree (publication '
                    'primitive), passed to a callee that consumes it (summary computed from the callee body), handed '
                    'to an out / reference parameter, retired, returned, or freed; no exit is reached while it is '
                    'still owned; nothing is freed twice')
    oa = own.OwnAnalysis(facts)
    fns = own.alloc_functions(facts)
    nsites = 0
    for f in fns:
        leaks, dfrees, allocs = oa.run(f)
        for var, (kind, loc) in sorted(allocs.items()):
            nsites += 1
            site = '%s bound to %s' % (kind, vname(var))
            if site in leaks:
                for key, e in sorted(leaks[site]['exits'].items()):
                    S.ob('R-OWN', fname(f), site + ' / ' + key, False,
                         'leak path: the object allocated at %s reaches `%s` %s' % (loc, key, e['why']),
                         loc=e['loc'], path=e['path'])
            else:
                S.ob('R-OWN', fname(f), site, True, 'transferred or freed on every path', loc=loc)
        for loc, e in sorted(dfrees.items()):
            S.ob('R-OWN', fname(f), 'second release of %s at %s' % (e['var'], loc), False,
                 'the object is released twice on one path', loc=loc, path=e['path'])
    S.count('E-OWN: CFG visits', oa.visits)
    S.counters['E-OWN: consumption summaries'] = {'%s#%d' % (facts.get(k[0]).qname.replace(Y, ''), k[1]): v
                                                  for k, v in oa.consumes.items() if v}
    S.require('R-OWN', 'allocation sites', nsites, 12)


def _gc_info_subjects(g, n, depth=0, seen=None):
    """Variables X such that expression n is built from value::get_gc_info(X) - directly, through structured bindings,
    std::get, or locals that hold such parts."""
    out = set()
    seen = set() if seen is None else seen
    if n is None or depth > 5:
        return out
    for x in g.walk(n):
        if is_call(x, cq=Y + 'value::get_gc_info'):
            a = call_args(g, x)
            rv = root_var(g, a[0]) if a else None
            if rv:
                out.add(rv)
        elif x['k'] == 'DeclRefExpr' and x.get('dk') in ('binding', 'var'):
            vid = x.get('of') if x.get('dk') == 'binding' else x.get('id')
            if vid in seen:
                continue
            seen.add(vid)
            ini = R.var_decl_init(g, vid) if vid else None
            if ini is not None:
                out |= _gc_info_subjects(g, ini, depth + 1, seen)
    return out


def _retires_param(g, pid):
    """Does g hand value::get_gc_info(<param pid>) to push_value_container?"""
    for nd in g.all_nodes():
        if is_call(nd, cq=Y + 'garbage_collection::push_value_container'):
            a = call_args(g, nd)
            if a and pid in _gc_info_subjects(g, a[0]):
                return True
    return False


def rule_swap(S):
    facts = S.facts()
    S.rule('R-SWAP', 'put<V> (out-of-line): after link_or_value::set_value(v, created, &old) the path on which old != '
                     'nullptr reaches push_value_container with the triple value::get_gc_info(old) and the session\'s '
                     'begin epoch')
    n = 0
    for f in facts.by_qname(Y + 'put'):
        calls = [c for c in f.all_nodes() if is_call(c, cq=Y + 'link_or_value::set_value') and len(call_args(f, c)) == 3
                 and R.const_of(f, call_args(f, c)[2]) not in ('null',)]
        if not calls:
            continue
        res = {}

        def step(ctx, nd, st):
            old, retired = st
            if is_call(nd, cq=Y + 'link_or_value::set_value') and len(call_args(f, nd)) == 3:
                return (root_var(f, call_args(f, nd)[2]), False)
            tgl = R.lambda_target(facts, f, nd)
            if tgl is not None and old is not None:
                # a local closure that retires its parameter (get_gc_info(param) -> push_value_container)
                args = call_args(f, nd)[1:]
                for i_, a_ in enumerate(args):
                    if root_var(f, a_) == old and i_ < len(tgl.params) and _retires_param(tgl, tgl.params[i_]['id']):
                        return (old, True)
            if is_call(nd, cq=Y + 'garbage_collection::push_value_container') and old is not None:
                a = call_args(f, nd)
                good = bool(a) and old in _gc_info_subjects(f, a[0])
                return (old, retired or good)
            if nd['k'] == 'ReturnStmt':
                if old is not None:
                    e = res.setdefault(R.ret_desc(f, nd), {'ok': True, 'loc': short_loc(nd), 'path': None})
                    if not retired and R.facts_get(st_null.get('fs', frozenset()), old) != 'null':
                        e['ok'] = False
                        e['path'] = e['path'] or ctx.witness()
                return None
            return st

        st_null = {}
        nulls = {}

        def branch(ctx, blk, idx, st):
            old, retired = st
            if old is not None and blk.term and 'cond' in blk.term and len(blk.succ) == 2:
                flip, shape = R.cond_shape(f, blk.term['cond'])
                if shape[0] == 'nonnull' and shape[1] == old:
                    if not ((idx == 0) != flip):
                        return (None, retired)  # displaced word is null: nothing to retire
            return st

        Explorer(f, step, branch).run((None, False))
        for site, e in sorted(res.items()):
            n += 1
            S.ob('R-SWAP', fname(f), 'overwrite then ' + site, e['ok'],
                 'the displaced value is retired to the session\'s GC queue' if e['ok'] else
                 'the displaced value is neither retired nor freed on this path', loc=e['loc'], path=e['path'])
    S.require('R-SWAP', 'overwrite exits with a displaced value', n, 1)


def rule_disp(S):
    """R-DISP: link_or_value::set_value never drops the out-of-line value it displaces."""
    facts = S.facts()
    S.rule('R-DISP', 'link_or_value::set_value: on every path on which the current slot value needs deletion '
                     '(value::need_delete established true) the store of the new word is preceded by '
                     'value::delete_value(current) or by handing it out through the old_value out-pointer')
    f = facts.one(Y + 'link_or_value::set_value')
    ov = [p['id'] for p in f.params if p['type'].replace(' ', '') == 'yakushima::value**']
    if len(ov) != 1:
        raise AnalysisBroken('R-DISP: set_value has no value** out-parameter')
    ov = ov[0]
    res = {'stores': 0, 'ok': True, 'path': None, 'needs': 0, 'why': ''}
    curv = {v['id'] for n in f.all_nodes() if n['k'] == 'DeclStmt' for v in n.get('vars', [])
            if 'init' in v and any(is_call(x, cq=Y + 'link_or_value::get_value') for x in f.walk(f.node(v['init'])))}

    # call sites that give no old_value out-pointer: are they all inserts into a fresh slot?
    unfresh = []
    for g in facts.functions.values():
        for nd in g.all_nodes():
            if not is_call(nd, cq=Y + 'link_or_value::set_value'):
                continue
            args = call_args(g, nd)
            third = g.strip(args[2], casts=True) if len(args) > 2 else None
            takes_old = third is not None and third['k'] != 'CXXDefaultArgExpr' and R.const_of(g, third) != 'null'
            eg = g
            while eg.is_lambda and eg.enclosing:
                eg = facts.get(eg.enclosing)
            if not takes_old and eg.qname not in (Y + 'border_node::insert_lv_at', Y + 'border_node::set_lv_value'):
                unfresh.append('%s at %s' % (eg.qname, short_loc(nd)))

    def step(ctx, nd, st):
        need, done, ovn = st
        if is_call(nd, cq=Y + 'value::delete_value'):
            return (need, True, ovn)
        if nd['k'] == 'BinaryOperator' and nd.get('op') == '=':
            l = f.strip(f.ch(nd)[0], casts=True)
            if l is not None and l['k'] == 'UnaryOperator' and l.get('op') == '*' and root_var(f, l) == ov:
                return (need, True, ovn)
        if nd['k'] in CALL_KINDS and ((nd.get('cn') or '').startswith('storeRelease') or nd.get('cn') == 'store'):
            res['stores'] += 1
            # a path taken only without an out-pointer carries no obligation when every such caller inserts into a
            # fresh slot (nothing can be displaced there)
            unexamined = need == '?' and not (ovn == 'null' and not unfresh)
            if (need == 'T' and not done) or unexamined:
                res['ok'] = False
                res['why'] = ('without the current value having been examined (need_delete) on this path%s' % (
                    '; callers without an out-pointer that overwrite existing entries: ' + ', '.join(unfresh)
                    if unfresh else '')) if need == '?' \
                    else 'while the out-of-line value it held is neither freed nor handed to the caller'
                res['path'] = res['path'] or ctx.witness()
        return (need, done, ovn)

    def branch(ctx, blk, idx, st):
        need, done, ovn = st
        t = blk.term
        if t and 'cond' in t and len(blk.succ) == 2:
            c = f.strip(f.node(t['cond']))
            flip = False
            while c is not None and c['k'] == 'UnaryOperator' and c.get('op') == '!':
                flip = not flip
                c = f.strip(f.ch(c)[0])
            if c is not None and is_call(c, cq=Y + 'value::need_delete'):
                res['needs'] += 1
                truth = (idx == 0) != flip
                return ('T' if truth else 'F', done, ovn)
            fl, shape = R.cond_shape(f, t['cond'])
            if shape[0] == 'nonnull' and shape[1] in curv and not ((idx == 0) != fl):
                return ('F', done, ovn)   # the slot holds no value object: nothing is displaced
            if shape[0] == 'nonnull' and shape[1] == ov:
                want = 'nonnull' if ((idx == 0) != fl) else 'null'
                if ovn != '?' and ovn != want:
                    return None
                return (need, done, want)
        return st

    Explorer(f, step, branch).run(('?', False, '?'))
    S.require('R-DISP', 'need_delete tests in set_value', res['needs'], 1)
    S.require('R-DISP', 'stores of the slot word in set_value', res['stores'], 1)
    S.ob('R-DISP', f.qname, 'store of the new slot word', res['ok'],
         'a displaced out-of-line value is freed or handed to the caller before the slot is overwritten' if res['ok'] else
         'the slot is overwritten ' + res['why'] + ': a displaced block is unreachable afterwards (leak)',
         loc=f.loc, path=res['path'])


def rule_cache1(S):
    """R-CACHE1: the one-element caches of the GC queues are written only when empty."""
    facts = S.facts()
    GC = Y + 'garbage_collection'
    S.rule('R-CACHE1', 'garbage_collection::gc_node / gc_value: an element is parked in the one-element cache '
                       '(cache_*_container_ = elem) only on a path on which the cache slot is established empty (its '
                       'pointer tested null, or released and reset on this path); overwriting an occupied slot drops the '
                       'only reference to a retired object, which is then never released - not even by fin()')
    n = 0
    for q in ('gc_node', 'gc_value'):
        f = facts.one(GC + '::' + q)
        sites = {}

        def cache_of(nd):
            """name of the cache member an expression is rooted in (through std::get<k>(member))"""
            for x in f.walk(nd):
                if x['k'] == 'MemberExpr' and (x.get('name') or '').startswith('cache_') and root_var(f, x) == 'this':
                    return x['name']
            return None

        def step(ctx, nd, st):
            st = dict(st)
            lhs = rhs = None
            if nd['k'] == 'BinaryOperator' and nd.get('op') == '=':
                lhs, rhs = f.ch(nd)[0], f.ch(nd)[1]
            elif nd['k'] == 'CXXOperatorCallExpr' and nd.get('cn') == 'operator=' and len(nd.get('args', [])) == 2:
                lhs, rhs = f.node(nd['args'][0]), f.node(nd['args'][1])
            if lhs is not None:
                l = f.strip(lhs, casts=True)
                c = cache_of(lhs)
                if c is not None:
                    whole = l is not None and l['k'] == 'MemberExpr'
                    if whole:
                        e = sites.setdefault('%s = <element> at %s' % (c, short_loc(nd)), {'ok': True, 'loc': short_loc(nd), 'path': None})
                        if st.get(c) != 'empty':
                            e['ok'] = False
                            e['path'] = e['path'] or ctx.witness()
                        st[c] = 'occupied'
                    elif R.const_of(f, f.strip(rhs, casts=True)) == 'null':
                        st[c] = 'empty'
                    return tuple(sorted(st.items()))
            if nd['k'] == 'ReturnStmt':
                return None
            return tuple(sorted(st.items()))

        def branch(ctx, blk, idx, st):
            t = blk.term
            if t and 'cond' in t and len(blk.succ) == 2:
                c = f.strip(f.node(t['cond']))
                flip = False
                while c is not None and c['k'] == 'UnaryOperator' and c.get('op') == '!':
                    flip = not flip
                    c = f.strip(f.ch(c)[0])
                if c is not None and c['k'] == 'BinaryOperator' and c.get('op') in ('==', '!='):
                    a, b = f.ch(c)[0], f.ch(c)[1]
                    for x, y in ((a, b), (b, a)):
                        m = cache_of(x)
                        if m is not None and R.const_of(f, f.strip(y, casts=True)) == 'null':
                            truth = (idx == 0) != flip
                            isnull = truth if c['op'] == '==' else not truth
                            d = dict(st)
                            if d.get(m) == ('occupied' if isnull else 'empty') and False:
                                return None
                            d[m] = 'empty' if isnull else 'occupied'
                            return tuple(sorted(d.items()))
            return st

        Explorer(f, step, branch).run(tuple())
        for site, e in sorted(sites.items()):
            n += 1
            S.ob('R-CACHE1', f.qname, site, e['ok'], 'the slot is empty when the element is parked' if e['ok'] else
                 'an element is parked in the cache although the slot may still hold a retired object on this path: that '
                 'object is dropped without being released', loc=e['loc'], path=e['path'])
    S.require('R-CACHE1', 'cache stores in gc_node / gc_value', n, 2)


def _drain_each_element(S, facts, tfin):
    """Path clause of R-DRAIN: inside the walk over the session table every element that is taken up is drained before the
    walk moves on (directly, through a closure that drains it, or by handing such a closure to a helper thread)."""
    from yk.flow import Explorer
    GC = Y + 'garbage_collection'
    lams = {l.fid: l for l in facts.lambdas_of(tfin)}
    drains = {fid for fid, l in lams.items() if any(is_call(n, cq=GC + '::fin') for n in l.all_nodes())}
    # closure variables holding a draining lambda (matched by source position of the lambda expression)
    cvars = set()
    elem_decl = []
    for n in tfin.all_nodes():
        if n['k'] != 'DeclStmt':
            continue
        for v in n.get('vars', []):
            if 'init' in v and any(x['k'] == 'LambdaExpr' and any(('@' + short_loc(x)) in fid or short_loc(x) in fid
                                                                    for fid in drains)
                                   for x in tfin.walk(v['init'])):
                cvars.add(v['id'])
            if Y + 'thread_info' in (v.get('type') or '') and not v['name'].startswith('__') and \
                    'thread_info_table' not in (v.get('type') or '').replace(Y + 'thread_info_table', ''):
                elem_decl.append(n)
    if not elem_decl:
        return
    if len(elem_decl) != 1:
        raise AnalysisBroken('R-DRAIN: more than one session variable in thread_info_table::fin')
    ed = elem_decl[0]
    res = {'ok': True, 'path': None, 'loc': tfin.loc}

    def is_drain(nd):
        if is_call(nd, cq=GC + '::fin'):
            return True
        if nd['k'] in CALL_KINDS and nd.get('callee') in drains:
            return True
        if nd['k'] in CALL_KINDS or nd['k'] in ('CXXConstructExpr', 'CXXTemporaryObjectExpr'):
            tgt = (nd.get('callee') or '') + (nd.get('cq') or '') + (nd.get('ty') or '')
            if 'std::thread' in tgt and any(y['k'] == 'DeclRefExpr' and y.get('id') in cvars
                                             for a in (nd.get('args') or []) for y in tfin.walk(tfin.node(a))):
                return True
        return False

    def fail(ctx, nd):
        if res['ok']:
            res['ok'] = False
            res['path'] = ctx.witness() if ctx is not None else None
            res['loc'] = short_loc(nd) if nd is not None else tfin.loc

    def step(ctx, nd, st):
        if nd is ed:
            if st:
                fail(ctx, nd)
            return True
        if st and is_drain(nd):
            return False
        if nd['k'] == 'ReturnStmt':
            if st:
                fail(ctx, nd)
            return None
        return st

    ex = Explorer(tfin, step)
    ex.run(False)
    if any(st for st in ex.exit_states):
        fail(None, None)
    S.ob('R-DRAIN', tfin.qname, 'each session taken up by the walk is drained before the walk moves on', res['ok'],
         'every path through the loop body drains the element' if res['ok'] else
         'a path through the walk over the session table skips an element without draining its retire queues: what that '
         'session retired stays allocated past fin()', loc=res['loc'], path=res['path'])


def rule_drain(S):
    facts = S.facts()
    S.rule('R-DRAIN', 'every data member of garbage_collection that push_* / gc_* write is emptied by '
                      'garbage_collection::fin (queues: try_pop in a loop until empty, releasing each element; '
                      'one-element caches: release when non-null, then reset); thread_info_table::fin applies it to '
                      'every element of the session table')
    GC = Y + 'garbage_collection'
    fin = facts.one(GC + '::fin')
    writers = [f for f in facts.functions.values() if f.cls == GC and f.name in
               ('push_node_container', 'push_value_container', 'gc_node', 'gc_value')]
    S.require('R-DRAIN', 'functions that fill the containers', len(writers), 4)
    filled = set()
    for g in writers:
        for n in g.all_nodes():
            if n['k'] == 'MemberExpr' and (n.get('member') or '').startswith(GC + '::') and n.get('arrow') is not None:
                m = n['member']
                p = g.parent(n)
                if p is not None and ((p['k'] in CALL_KINDS and p.get('cn') in ('push', 'operator=', 'emplace')) or
                                      (p['k'] == 'BinaryOperator' and p.get('op') == '=')):
                    filled.add(m)
    S.require('R-DRAIN', 'containers written by push_*/gc_*', len(filled), 4)
    for m in sorted(filled):
        is_queue = any(n['k'] == 'CXXMemberCallExpr' and n.get('cn') == 'push' and
                       (g.strip(call_recv(g, n)) or {}).get('member') == m for g in writers for n in g.all_nodes())
        ok = False
        why = ''
        if is_queue:
            pops = [n for n in fin.all_nodes() if n['k'] == 'CXXMemberCallExpr' and n.get('cn') == 'try_pop' and
                    (fin.strip(call_recv(fin, n)) or {}).get('member') == m]
            loops = [b for b, blk in fin.blocks.items() if blk.term and blk.term.get('k') == 'WhileStmt' and
                     'cond' in blk.term and any(x.get('member') == m for x in fin.walk(blk.term['cond'])
                                                if x['k'] == 'MemberExpr')]
            ok = bool(pops) and bool(loops)
            why = 'fin pops the queue until it is empty' if ok else 'fin does not drain queue ' + m
        else:
            rel = False
            reset = False
            for n in fin.all_nodes():
                if n['k'] == 'CXXDeleteExpr' or (n['k'] in CALL_KINDS and n.get('cq') == 'operator delete'):
                    if any(x['k'] == 'MemberExpr' and x.get('member') == m for x in fin.walk(n)):
                        rel = True
                if n['k'] == 'BinaryOperator' and n.get('op') == '=' and \
                        any(x['k'] == 'MemberExpr' and x.get('member') == m for x in fin.walk(fin.ch(n)[0])) and \
                        R.const_of(fin, fin.ch(n)[1]) == 'null':
                    reset = True
            ok = rel and reset
            why = 'fin releases and resets the cache slot' if ok else 'fin does not release/reset cache ' + m
        S.ob('R-DRAIN', fin.qname, 'drains ' + m.split('::')[-1], ok, why, loc=fin.loc)
    # every popped element is released
    pops = [n for n in fin.all_nodes() if n['k'] == 'CXXMemberCallExpr' and n.get('cn') == 'try_pop']
    rels = [n for n in fin.all_nodes() if n['k'] == 'CXXDeleteExpr' or
            (n['k'] in CALL_KINDS and n.get('cq') == 'operator delete')]
    S.ob('R-DRAIN', fin.qname, 'releases what it pops', len(rels) >= len(pops) + 2 and len(pops) >= 2,
         '%d pops, %d releases' % (len(pops), len(rels)), loc=fin.loc)
    tfin = facts.one(Y + 'thread_info_table::fin')
    has_range = any(v['name'].startswith('__range') and 'init' in v and
                    R.global_ref(tfin, v['init']) == Y + 'thread_info_table::thread_info_table_'
                    for n in tfin.all_nodes() if n['k'] == 'DeclStmt' for v in n.get('vars', []))
    calls_fin = any(is_call(n, cq=GC + '::fin') for g in [tfin] + facts.lambdas_of(tfin) for n in g.all_nodes())
    joins = any(n['k'] == 'CXXMemberCallExpr' and n.get('cn') == 'join' for n in tfin.all_nodes())
    _drain_each_element(S, facts, tfin)
    S.ob('R-DRAIN', tfin.qname, 'every session drained', has_range and calls_fin and joins,
         'garbage_collection::fin is applied to every element of the table and helper threads are joined'
         if (has_range and calls_fin and joins) else
         'thread_info_table::fin does not drain every session [range=%s fin=%s join=%s]' % (has_range, calls_fin, joins),
         loc=tfin.loc)


def rule_destroy(S):
    facts = S.facts()
    S.rule('R-DESTROY', 'border_node::destroy destroys the slot of every occupied rank 0..cnk-1 (through the '
                        'permutation); interior_node::destroy destroys and deletes every child 0..n_keys; '
                        'link_or_value::destroy destroys+deletes a next layer, frees a value only under need_delete; '
                        'border_node::delete_at clears the delete flag before retiring the value (exactly-once hand-over)')
    bd = facts.one(Y + 'border_node::destroy')
    lam = facts.lambdas_of(bd)
    slot_destroy = any(is_call(n, cq=Y + 'link_or_value::destroy') for g in lam + [bd] for n in g.all_nodes())
    idx_from_perm = any(is_call(n, cq=Y + 'permutation::get_index_of_rank') for n in bd.all_nodes())
    # every path of the loop body processes the slot it looked up: directly (the closure / lv.destroy()) or by handing
    # the closure to a helper thread (emplace_back into the thread vector)
    from yk.flow import Explorer
    destroy_lams = {g.fid for g in lam if any(is_call(n, cq=Y + 'link_or_value::destroy') for n in g.all_nodes())}
    missed = {'path': None}

    def dstep(ctx, n, st):
        if is_call(n, cq=Y + 'permutation::get_index_of_rank'):
            if st == 'pending' and missed['path'] is None:
                missed['path'] = ctx.witness()
            return 'pending'
        tg = R.lambda_target(facts, bd, n)
        if tg is not None and tg.fid in destroy_lams:
            return 'done'
        if is_call(n, cq=Y + 'link_or_value::destroy'):
            return 'done'
        if n['k'] == 'CXXMemberCallExpr' and n.get('cn') == 'emplace_back' and \
                any(x['k'] == 'DeclRefExpr' and 'lambda' in (x.get('ty') or '') for a in call_args(bd, n) for x in bd.walk(a)):
            return 'done'
        if n['k'] == 'ReturnStmt':
            if st == 'pending' and missed['path'] is None:
                missed['path'] = ctx.witness()
            return None
        return st

    ex_ = Explorer(bd, dstep)
    ex_.run('none')
    if any(s_ == 'pending' for s_ in ex_.exit_states) and missed['path'] is None:
        missed['path'] = ['falls off the end']
    every = slot_destroy and idx_from_perm and missed['path'] is None
    S.ob('R-DESTROY', bd.qname, 'every occupied rank', every,
         'each occupied slot is destroyed on every branch of the loop' if every
         else 'border_node::destroy no longer destroys every occupied slot', loc=bd.loc, path=missed['path'])
    bound_ok = _loop_bound(bd, {'cnk'}, facts)
    S.ob('R-DESTROY', bd.qname, 'loop bound', bound_ok, 'iterates ranks 0..cnk-1' if bound_ok else
         'the loop over ranks is not bounded by the permutation count', loc=bd.loc)
    idd = facts.one(Y + 'interior_node::destroy')
    lam2 = facts.lambdas_of(idd)
    d1 = any(n['k'] == 'CXXMemberCallExpr' and n.get('cn') == 'destroy' and n.get('virtual') for g in lam2 + [idd]
             for n in g.all_nodes())
    d2 = any(n['k'] == 'CXXDeleteExpr' for g in lam2 + [idd] for n in g.all_nodes())
    plus1 = any(x['k'] == 'BinaryOperator' and x.get('op') == '+' and
                any(y['k'] == 'MemberExpr' and y.get('name') == R.field_of(facts, Y + 'interior_node', 'std::atomic<unsigned char>', 'key count') for y in idd.walk(x))
                for b, blk in idd.blocks.items() if blk.term and 'cond' in blk.term and blk.term.get('k') == 'ForStmt'
                for x in idd.walk(blk.term['cond']))
    S.ob('R-DESTROY', idd.qname, 'every child', d1 and d2 and plus1,
         'destroys and deletes children 0..n_keys' if (d1 and d2 and plus1) else
         'interior_node::destroy does not destroy+delete all n_keys+1 children [destroy=%s delete=%s bound=%s]' % (d1, d2, plus1),
         loc=idd.loc)
    ld = facts.one(Y + 'link_or_value::destroy')
    res = {'child': False, 'value_guarded': None}

    def step(ctx, n, st):
        nd, = st
        if is_call(n, cq=Y + 'value::delete_value'):
            res['value_guarded'] = (res['value_guarded'] is not False) and nd == 'T'
        if n['k'] == 'CXXDeleteExpr':
            res['child'] = True
        return st

    def branch(ctx, blk, idx, st):
        if blk.term and 'cond' in blk.term and len(blk.succ) == 2:
            t = term(ld, blk.term['cond'])
            if t[0] == 'call' and t[1] == Y + 'value::need_delete':
                return ('T' if idx == 0 else 'F',)
        return st

    Explorer(ld, step, branch).run(('?',))
    S.ob('R-DESTROY', ld.qname, 'slot teardown', res['child'] and res['value_guarded'] is True,
         'next layer destroyed+deleted; value freed only under need_delete' if (res['child'] and res['value_guarded'] is True)
         else 'link_or_value::destroy frees a value without consulting need_delete, or no longer deletes the next layer',
         loc=ld.loc)
    da = facts.one(Y + 'border_node::delete_at')
    order = {'ok': None, 'path': None}

    def step2(ctx, n, st):
        if is_call(n, cq=Y + 'value::remove_delete_flag'):
            return 'Y'
        if is_call(n, cq=Y + 'garbage_collection::push_value_container'):
            if st != 'Y':
                order['ok'] = False
                order['path'] = ctx.witness()
            elif order['ok'] is None:
                order['ok'] = True
        return st

    Explorer(da, step2).run('N')
    S.ob('R-DESTROY', da.qname, 'exactly-once hand-over', order['ok'] is True,
         'need_delete is cleared before the value is queued for the GC' if order['ok'] else
         'a retired value keeps its need_delete flag (teardown would free it a second time) or is never retired',
         loc=da.loc, path=order['path'])


def rule_root(S):
    facts = S.facts()
    S.rule('R-ROOT', 'a tree\'s root pointer is overwritten with nullptr (tree_instance::store_root_ptr(nullptr)) only on '
                     'paths where the root loaded from that same tree is established null or was destroyed and deleted: '
                     'dropping the last reference to a live root (e.g. the empty, deleted-flagged layer-0 border, which '
                     'is never retired) leaks it')
    n = 0
    for f in facts.functions.values():
        if f.is_lambda or not any(is_call(x, cq=Y + 'tree_instance::store_root_ptr') and
                                  R.const_of(f, call_args(f, x)[0]) == 'null' for x in f.all_nodes()):
            continue
        sites = {}
        loads = {}   # var id -> tree term
        for x in f.all_nodes():
            if x['k'] == 'DeclStmt':
                for v in x.get('vars', []):
                    if 'init' in v:
                        i = f.strip(v['init'], casts=True)
                        if i is not None and is_call(i, cq=Y + 'tree_instance::load_root_ptr'):
                            loads[v['id']] = term(f, call_recv(f, i))
        ptrs = tuple(v.split('@')[0] for v in loads)

        def step(ctx, nd, st):
            fs, freed = st
            fs = R.track_assign(f, nd, fs, facts)
            if nd['k'] == 'CXXDeleteExpr':
                v = root_var(f, f.ch(nd)[0])
                if v in loads:
                    return (fs, freed | {v})
            if nd['k'] == 'DeclStmt':
                for v in nd.get('vars', []):
                    if v['id'] in loads:
                        freed = freed - {v['id']}
                return (fs, freed)
            if is_call(nd, cq=Y + 'tree_instance::store_root_ptr') and R.const_of(f, call_args(f, nd)[0]) == 'null':
                t = term(f, call_recv(f, nd))
                cands = [v for v, tt in loads.items() if tt == t]
                e = sites.setdefault(short_loc(nd), {'ok': True, 'path': None, 'why': ''})
                ok = bool(cands) and any(v in freed or R.facts_get(fs, v) == 'null' for v in cands)
                if not ok:
                    e['ok'] = False
                    e['path'] = e['path'] or ctx.witness()
                    e['why'] = 'no root was loaded from this tree' if not cands else \
                        'the loaded root is neither null nor deleted on this path'
            if nd['k'] == 'ReturnStmt':
                return None
            return (fs, freed)

        def branch(ctx, blk, idx, st):
            fs2 = R.refine(f, blk, idx, st[0], ptrs=ptrs)
            return None if fs2 is None else (fs2, st[1])

        Explorer(f, step, branch).run((frozenset(), frozenset()))
        for loc, e in sorted(sites.items()):
            n += 1
            S.ob('R-ROOT', fname(f), 'root pointer cleared at ' + loc, e['ok'],
                 'the old root was released (or there was none)' if e['ok'] else
                 'the root pointer is cleared although ' + e['why'] + ': the node becomes unreachable without being freed',
                 loc=loc, path=e['path'])
    S.require('R-ROOT', 'root-pointer clearing sites', n, 3)


def _loop_bound(f, names, facts):
    for b, blk in f.blocks.items():
        if blk.term and blk.term.get('k') == 'ForStmt' and 'cond' in blk.term:
            t = term(f, blk.term['cond'])
            if t[0] == 'bin' and t[1] == '<' and t[3][0] == 'var':
                ini = None
                for n in f.all_nodes():
                    if n['k'] == 'DeclStmt':
                        for v in n.get('vars', []):
                            if v['name'] == t[3][1] and 'init' in v:
                                ini = v['init']
                if ini is not None and any(is_call(x, cq={Y + 'border_node::get_permutation_cnk', Y + 'permutation::get_cnk'})
                                           for x in f.walk(ini)):
                    return True
    return False


def run(S):
    S.undecided = ['allocator balance over operation histories',
                   'leaks of objects that are correctly owned by the tree but become unreachable through a structural bug',
                   'thread-join ordering effects']
    S.assumptions = ['an object stored into a shared link is owned by the tree and released by teardown / GC '
                     '(R-DESTROY, R-DRAIN, C07)']
    rule_own(S)
    rule_swap(S)
    rule_disp(S)
    rule_cache1(S)
    from checks.C15 import rule_copy
    rule_copy(S)
    from checks.C15 import rule_fslot
    rule_fslot(S)
    from checks.C13 import rule_atom
    rule_atom(S)
    # fin drains the GC queues only after the threads that fill them are joined (shared with C16)
    from checks.C16 import rule_fin, rule_emp
    rule_fin(S)
    # destroy() releases every tree, the catalogue tree among them, on every path (shared with C16)
    rule_emp(S)
    rule_drain(S)
    rule_destroy(S)
    rule_root(S)
    # mechanisms this property rests on (checks/shared.py)
    from checks import shared
    shared.reclamation(S)
