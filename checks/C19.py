"""C19 - the leaf permutation word always encodes a valid ordering of occupied slots.

Decided (publication and shift safety; DESIGN.md section 5 / C19):
  R-LAYP  layout witnesses: 4-bit count + 15 4-bit slots = 64 bits in one lock-free atomic word
  R-PUB1  single publication: every mutator loads the word at most once and publishes exactly one release store
          per path, of a value computed in locals
  R-SHIFT no shift reaches the word width: every shift amount, evaluated by constant propagation over the finite
          abstract inputs (rank, count, slot, num) admitted by the callers' preconditions and under the branch
          conditions guarding it, lies in [0, 63]
  R-SLOT  free-slot discipline: get_empty_slot marks the first `count` slot nibbles (skipping the count nibble) and
          returns an unmarked index; insert_lv_at is always given get_empty_slot() of the same node
"""
from yk.facts import (AnalysisBroken, CALL_KINDS, call_args, call_recv, cv_through, is_call, root_var, short_loc, term,
                      term_str, vname)
from yk.flow import Explorer
from yk import rules as R
from yk import witness

Y = 'yakushima::'
P = Y + 'permutation'
MUTATORS = ('insert_rank', 'delete_rank', 'split_dest', 'rearrange', 'set_cnk', 'init')


def rule_layp(S):
    S.rule('R-LAYP', 'compile-time witnesses: sizeof(permutation) == 8; cnk_bit_size + pkey_bit_size * key_slice_length '
                     '== 64; cnk_mask == 2^cnk_bit_size - 1; 15 slots are addressable by a 4-bit index; '
                     'std::atomic<uint64_t> always lock-free')
    n = witness.emit(S, 'C19', 'R-LAYP')
    S.require('R-LAYP', 'witnesses', n, 5)


def is_load(f, n):
    if n['k'] == 'CXXMemberCallExpr' and n.get('cn') == 'load' and (f.strip(call_recv(f, n), casts=True) or {}).get('ty', '').replace('const ', '') == 'std::atomic<unsigned long>':
        return True
    return is_call(n, cq=P + '::get_body') and root_var(f, call_recv(f, n)) == 'this'


def is_store(f, n):
    if n['k'] == 'CXXMemberCallExpr' and n.get('cn') in ('store', 'exchange', 'fetch_or', 'fetch_and', 'fetch_add',
                                                         'compare_exchange_weak', 'compare_exchange_strong') and \
            (f.strip(call_recv(f, n), casts=True) or {}).get('ty', '').replace('const ', '') == 'std::atomic<unsigned long>':
        return True
    return is_call(n, cq=P + '::set_body') and root_var(f, call_recv(f, n)) == 'this'


def rule_pub1(S):
    facts = S.facts()
    S.rule('R-PUB1', 'permutation::{insert_rank, delete_rank, split_dest, rearrange, set_cnk, init}: on every path at '
                     'most one load of body_ and exactly one store (set_body / body_.store with release order; none on a path '
                     'that returns an error status), whose '
                     'argument is a local or a constant: a reader sees the old or the new ordering, never a mixture')
    n = 0
    for name in MUTATORS:
        fs = facts.by_qname(P + '::' + name)
        if len(fs) != 1:
            raise AnalysisBroken('R-PUB1: permutation::%s not found' % name)
        f = fs[0]
        paths = []

        def step(ctx, nd, st):
            loads, stores, bad = st
            if nd['k'] == 'CXXMemberCallExpr' and nd.get('mcls') == P and nd.get('cn') in MUTATORS and \
                    root_var(f, call_recv(f, nd)) == 'this':
                # another mutator of the same word: a second load and a second publication
                return (min(loads + 1, 3), min(stores + 1, 3), bad)
            if is_load(f, nd):
                return (min(loads + 1, 3), stores, bad)
            if is_store(f, nd):
                a = call_args(f, nd)
                arg = f.strip(a[0], casts=True) if a else None
                localv = arg is not None   # any expression: loads of the shared word inside it are counted as loads
                rel = True
                if nd.get('cn') == 'store' and len(a) > 1:
                    rel = cv_through(f, a[1]) in (3, 5)  # memory_order_release / seq_cst
                return (loads, min(stores + 1, 3), bad or not localv or not rel)
            if nd['k'] == 'ReturnStmt':
                rc = R.ret_const(f, nd)
                if stores == 0 and rc is not None and rc.startswith(Y + 'status::') and rc != Y + 'status::OK':
                    # the mutator refuses (returns an error status) without publishing anything: nothing to see
                    paths.append(((loads, 1, bad), None))
                    return None
                paths.append((st, ctx.witness()))
                return None
            return st

        ex = Explorer(f, step)
        ex.run((0, 0, False))
        for st in ex.exit_states:
            paths.append((st, None))
        badp = [(st, p) for st, p in paths if st[0] > 1 or st[1] != 1 or st[2]]
        n += 1
        S.ob('R-PUB1', f.qname, 'single publication (%d paths)' % len(paths), not badp and bool(paths),
             'one load at most, one release store of a locally computed word' if not badp else
             'a path performs %d loads and %d stores of the permutation word%s' % (
                 badp[0][0][0], badp[0][0][1], ' (store of a non-local / non-release value)' if badp[0][0][2] else ''),
             loc=f.loc, path=badp[0][1] if badp else None)
    S.require('R-PUB1', 'permutation mutators', n, 6)


# ---------------------------------------------------------------------------
# R-SHIFT: constant propagation over finite abstract inputs
# ---------------------------------------------------------------------------

class Top:
    pass


TOP = None


def interp_shifts(f, env0, max_steps=4000):
    """Walk the CFG with partially known integer environment; returns [(loc, op, amount or None)] and aborts flag."""
    shifts = []
    seen = set()
    work = [(f.entry, tuple(sorted(env0.items())))]
    steps = 0
    while work:
        b, envt = work.pop()
        if (b, envt) in seen:
            continue
        seen.add((b, envt))
        steps += 1
        if steps > max_steps:
            raise AnalysisBroken('R-SHIFT: abstract evaluation of %s does not converge' % f.qname)
        env = dict(envt)
        blk = f.blocks[b]
        vals = {}

        def ev(n):
            n = f.node(n)
            if n is None:
                return TOP
            if id(n) in vals:
                return vals[id(n)]
            r = ev0(n)
            vals[id(n)] = r
            return r

        def ev0(n):
            k = n['k']
            if 'cv' in n and k != 'DeclRefExpr':
                return int(n['cv'])
            if k in ('IntegerLiteral', 'CXXBoolLiteralExpr', 'CharacterLiteral'):
                return int(n['val'])
            if k in ('ImplicitCastExpr', 'ParenExpr', 'CStyleCastExpr', 'CXXStaticCastExpr', 'CXXFunctionalCastExpr',
                     'ExprWithCleanups', 'MaterializeTemporaryExpr', 'ConstantExpr'):
                c = n.get('ch', [])
                v = ev(c[0]) if c else TOP
                if v is not TOP and k != 'ParenExpr':
                    ty = n.get('ty') or ''
                    if ty in ('unsigned char', 'uint8_t'):
                        v &= 0xff
                    elif ty in ('unsigned long', 'unsigned long long'):
                        v &= (1 << 64) - 1
                    elif ty == 'unsigned int':
                        v &= (1 << 32) - 1
                    elif ty == 'bool':
                        v = 1 if v else 0
                return v
            if k == 'DeclRefExpr':
                if n.get('dk') == 'enum':
                    return int(n['val'])
                return env.get(n.get('id'), TOP)
            if k == 'UnaryOperator':
                c = n['ch'][0]
                op = n['op']
                if op in ('++', '--'):
                    x = f.strip(c)
                    v = ev(c)
                    if x is not None and x['k'] == 'DeclRefExpr':
                        nv = TOP if v is TOP else (v + 1 if op == '++' else v - 1)
                        if nv is not TOP and 'unsigned' in (x.get('ty') or ''):
                            nv &= (1 << 64) - 1
                        env[x['id']] = nv
                        return v if n.get('postfix') else nv
                    return TOP
                v = ev(c)
                if v is TOP:
                    return TOP
                return {'!': lambda a: 0 if a else 1, '-': lambda a: -a, '~': lambda a: (~a) & ((1 << 64) - 1),
                        '+': lambda a: a}.get(op, lambda a: TOP)(v)
            if k in ('BinaryOperator', 'CompoundAssignOperator'):
                op = n['op']
                a, b2 = n['ch']
                if op == '=':
                    v = ev(b2)
                    x = f.strip(a)
                    if x is not None and x['k'] == 'DeclRefExpr':
                        env[x['id']] = v
                    return v
                if op in ('&&', '||'):
                    va = ev(a)
                    vb = ev(b2)
                    if op == '&&':
                        if va == 0 or vb == 0:
                            return 0
                        return TOP if (va is TOP or vb is TOP) else 1
                    if (va is not TOP and va) or (vb is not TOP and vb):
                        return 1
                    return TOP if (va is TOP or vb is TOP) else 0
                base = op[:-1] if (k == 'CompoundAssignOperator') else op
                va, vb = ev(a), ev(b2)
                if base in ('<<', '>>'):
                    # width of the promoted left operand: the type of the shift expression (int: 32, unsigned long: 64)
                    ty = (n.get('ty') or '')
                    if k == 'CompoundAssignOperator':
                        ty = (f.strip(a, casts=False) or {}).get('ty') or ty
                    width = 32 if ty.replace('const ', '') in ('int', 'unsigned int', 'unsigned', 'std::int32_t', 'std::uint32_t') else \
                        (16 if 'short' in ty else (8 if ty.replace('const ', '') in ('char', 'unsigned char', 'signed char') else 64))
                    width = max(width, 32)   # integral promotion
                    shifts.append((short_loc(n), base, vb, dict(env), width))
                res = TOP
                if va is not TOP and vb is not TOP:
                    try:
                        res = {'+': va + vb, '-': va - vb, '*': va * vb, '/': (va // vb if vb else TOP),
                               '%': (va % vb if vb else TOP), '&': va & vb, '|': va | vb, '^': va ^ vb,
                               '<<': (va << vb if 0 <= vb < 64 else TOP), '>>': (va >> vb if 0 <= vb < 64 else TOP),
                               '<': int(va < vb), '<=': int(va <= vb), '>': int(va > vb), '>=': int(va >= vb),
                               '==': int(va == vb), '!=': int(va != vb)}.get(base, TOP)
                    except Exception:
                        res = TOP
                    if res is not TOP and base in ('+', '-', '*', '<<', '|', '&', '^') and 'unsigned long' in (n.get('ty') or ''):
                        res &= (1 << 64) - 1
                elif base == '&' and (va == 0 or vb == 0):
                    res = 0
                elif base == '*' and (va == 0 or vb == 0):
                    res = 0
                if k == 'CompoundAssignOperator':
                    x = f.strip(a)
                    if x is not None and x['k'] == 'DeclRefExpr':
                        env[x['id']] = res
                return res
            if k == 'ConditionalOperator':
                c, a, b2 = n['ch']
                vc = ev(c)
                if vc is TOP:
                    return TOP
                return ev(a) if vc else ev(b2)
            if k == 'DeclStmt':
                for v in n.get('vars', []):
                    if 'init' in v:
                        val = ev(v['init'])
                        if v['id'] in env0 and env0[v['id']] is not TOP and (v['id'] not in env or env.get(v['id']) is TOP
                                                                             or True) and v['id'] in abstract_vars:
                            env[v['id']] = env0[v['id']]
                        else:
                            env[v['id']] = val
                    else:
                        env[v['id']] = TOP
                return TOP
            if k in CALL_KINDS or k == 'CXXConstructExpr':
                for a in n.get('args', []):
                    ev(a)
                if n.get('recv') is not None:
                    ev(n['recv'])
                return TOP
            for c in n.get('ch', []):
                ev(c)
            return TOP

        abstract_vars = set(env0)
        ended = False
        for e in blk.elems:
            nd = f.node(e)
            ev(nd)
            if nd['k'] == 'ReturnStmt':
                ended = True
                break
        if ended or b == f.exit:
            continue
        nenv = tuple(sorted((k2, v2) for k2, v2 in env.items() if v2 is TOP or isinstance(v2, int)))
        if len(blk.succ) == 2 and blk.term and 'cond' in blk.term:
            c = ev(blk.term['cond'])
            if c is TOP:
                tg = [s for s in blk.succ if s is not None]
            else:
                tg = [blk.succ[0] if c else blk.succ[1]]
                tg = [s for s in tg if s is not None]
            for s in tg:
                work.append((s, nenv))
        else:
            for s in blk.succ:
                if s is not None:
                    work.append((s, nenv))
    return shifts


def rule_shift(S):
    facts = S.facts()
    S.rule('R-SHIFT', 'every shift in class permutation, evaluated by constant propagation for all abstract inputs '
                      'admitted by the preconditions (rank <= count <= 15, rank <= 14; insert_rank: count <= 14, rank <= '
                      'count; delete_rank: 1 <= count, rank <= count - 1; split_dest: num <= 15) and under the branch '
                      'conditions guarding it, has an amount in [0, width of the promoted left operand) - 64 for the word, 32 '
                      'for an int literal such as `1 << n` (the 60/64-bit edge at rank 14 / count 15)')
    total = 0
    for f in sorted((g for g in facts.functions.values() if g.cls == P and not g.is_lambda), key=lambda g: g.qname):
        has_shift = any(x['k'] in ('BinaryOperator', 'CompoundAssignOperator') and x.get('op') in ('<<', '>>', '<<=', '>>=')
                        for x in f.all_nodes())
        if not has_shift:
            continue
        params = {p['name']: p['id'] for p in f.params}
        # abstract count variables: locals initialised as (<word> & cnk_mask)
        cnk_vars = []
        for n in f.all_nodes():
            if n['k'] == 'DeclStmt':
                for v in n.get('vars', []):
                    if 'init' in v:
                        t = term(f, v['init'])
                        while t[0] == 'cast':
                            t = t[2]
                        if t[0] == 'bin' and t[1] == '&' and ('const', 15) in (t[2], t[3]):
                            cnk_vars.append(v['id'])
        inputs = []
        rng_rank = range(0, 15)
        name = f.name
        for cnk in range(0, 16):
            for rank in (rng_rank if 'rank' in params else [None]):
                for extra in (range(0, 16) if ('num' in params or 'pos' in params) and 'rank' not in params else [None]):
                    if name == 'insert_rank' and not (cnk <= 14 and rank <= cnk):
                        continue
                    if name == 'delete_rank' and not (cnk >= 1 and rank <= cnk - 1):
                        continue
                    if name == 'get_index_of_rank' and not (rank <= 14):
                        continue
                    if extra is not None and not cnk_vars and cnk != 0:
                        continue
                    env = {}
                    for cv in cnk_vars:
                        env[cv] = cnk
                    if rank is not None:
                        env[params['rank']] = rank
                    if 'num' in params and extra is not None:
                        env[params['num']] = extra
                    if 'pos' in params:
                        env[params['pos']] = TOP
                    inputs.append(env)
        if not cnk_vars and 'rank' not in params and 'num' not in params:
            inputs = [{}]
        bad = []
        nsh = 0
        seen_in = set()
        for env in inputs:
            key = tuple(sorted(env.items()))
            if key in seen_in:
                continue
            seen_in.add(key)
            for (loc, op, amt, envs, width) in interp_shifts(f, env):
                nsh += 1
                if amt is TOP:
                    bad.append((loc, op, 'unknown', env))
                elif not (0 <= amt < width):
                    bad.append((loc, op, '%s (operand is %d bits wide)' % (amt, width), env))
        total += nsh
        desc = {vname(k): v for k, v in (bad[0][3].items() if bad else [])}
        S.ob('R-SHIFT', f.qname, 'shift amounts (%d abstract inputs, %d evaluations)' % (len(seen_in), nsh), not bad,
             'all shift amounts are below the width of the shifted operand' if not bad else
             'shift `%s` by %s at %s for abstract input %s' % (bad[0][1], bad[0][2], bad[0][0], desc),
             loc=bad[0][0] if bad else f.loc, detail=[(b[0], b[1], str(b[2])) for b in bad[:5]] or None)
    S.count('R-SHIFT: shift evaluations', total)
    S.require('R-SHIFT', 'shift evaluations', total, 400)


def rule_slot(S):
    facts = S.facts()
    S.rule('R-SLOT', 'every insert_lv_at(X, ...) call passes Y->get_permutation().get_empty_slot() with Y the receiver of '
                     'the call; get_empty_slot shifts past the count nibble before marking each of the `count` ranks and '
                     'returns an index whose mark is clear')
    n = 0
    for f in facts.functions.values():
        for x in f.all_nodes():
            if is_call(x, cq=Y + 'border_node::insert_lv_at'):
                n += 1
                a = call_args(f, x)
                recv = term(f, call_recv(f, x))
                t = term(f, a[0]) if a else None
                ok = t is not None and t[0] == 'call' and t[1] == P + '::get_empty_slot' and t[2] is not None and \
                    t[2][0] == 'call' and t[2][1] == Y + 'border_node::get_permutation' and t[2][2] == recv
                S.ob('R-SLOT', f.qname + ('<%s>' % f.targs if f.targs else ''), 'insert_lv_at at ' + short_loc(x), ok,
                     'slot = get_empty_slot() of the same node' if ok else
                     'the slot passed to insert_lv_at is %s, not get_empty_slot() of the receiving node' % term_str(t),
                     loc=short_loc(x))
    S.require('R-SLOT', 'insert_lv_at call sites', n, 4)
    g = facts.one(P + '::get_empty_slot')
    res = {'mark_after_shift': None, 'ret_clear': None}

    def step(ctx, nd, st):
        shifted, clear = st
        if nd['k'] in ('BinaryOperator', 'CompoundAssignOperator') and nd.get('op') in ('>>', '>>='):
            return (True, clear)
        if nd['k'] == 'CXXMemberCallExpr' and nd.get('cn') == 'set' and 'bitset' in (nd.get('cq') or ''):
            res['mark_after_shift'] = (res['mark_after_shift'] is not False) and shifted
            return (False, clear)
        if nd['k'] == 'ReturnStmt':
            v = g.strip(g.ch(nd)[0], casts=True) if g.ch(nd) else None
            if v is not None and v['k'] == 'DeclRefExpr':
                res['ret_clear'] = (res['ret_clear'] is not False) and clear == v['id']
            return None
        return st

    def branch(ctx, blk, idx, st):
        shifted, clear = st
        if blk.term and 'cond' in blk.term and len(blk.succ) == 2:
            t = term(g, blk.term['cond'])
            neg = False
            while t[0] == 'un' and t[1] == '!':
                neg = not neg
                t = t[2]
            if t[0] == 'call' and (t[1] or '').endswith('::test') and t[3] and t[3][0][0] == 'var':
                is_clear = ((idx == 0) != neg) is False
                if is_clear:
                    var = [v['id'] for n in g.all_nodes() if n['k'] == 'DeclStmt' for v in n.get('vars', [])
                           if v['name'] == t[3][0][1]]
                    return (shifted, var[-1] if var else None)
        return st

    Explorer(g, step, branch).run((False, None))
    S.ob('R-SLOT', g.qname, 'marks slot nibbles only', res['mark_after_shift'] is True,
         'each mark is preceded by a shift past the previous nibble (the count nibble is never marked)'
         if res['mark_after_shift'] else 'get_empty_slot marks the count nibble / does not advance between marks', loc=g.loc)
    S.ob('R-SLOT', g.qname, 'returns an unmarked index', res['ret_clear'] is True,
         'the returned index was tested clear' if res['ret_clear'] else
         'get_empty_slot can return an index without its mark having been tested clear', loc=g.loc)


def rule_idx(S):
    """R-IDX: ranks and slot numbers are different index spaces; only the permutation translates between them."""
    facts = S.facts()
    S.rule('R-IDX', 'in every function that translates ranks with permutation::get_index_of_rank, a variable used as a '
                    'rank (argument of get_index_of_rank) is never used as a slot number (first argument of get_lv_at / '
                    'get_key_slice_at / get_key_length_at / set_key_*_at / set_lv* / lv_.at): rank r and slot r hold '
                    'different entries as soon as the leaf was filled out of key order or an entry was removed')
    SLOT_FUNCS = {Y + 'border_node::get_lv_at', Y + 'base_node::get_key_slice_at', Y + 'base_node::get_key_length_at',
                  Y + 'base_node::set_key_slice_at', Y + 'base_node::set_key_length_at', Y + 'border_node::set_lv',
                  Y + 'border_node::set_lv_value', Y + 'border_node::set_lv_next_layer'}
    n = 0
    nf = 0
    for f in sorted(facts.functions.values(), key=lambda x: x.fid):
        if not f.blocks or not f.qname.startswith(Y):
            continue
        ranks = {}
        for x in f.all_nodes():
            if is_call(x, cq=Y + 'permutation::get_index_of_rank'):
                a = call_args(f, x)
                r = f.strip(a[0], casts=True) if a else None
                if r is not None and r['k'] == 'DeclRefExpr' and r.get('dk') in ('var', 'parm'):
                    ranks[r['id']] = r.get('name')
        if not ranks:
            continue
        nf += 1
        bad = []
        uses = 0
        for x in f.all_nodes():
            arg = None
            if x['k'] in CALL_KINDS and x.get('cq') in SLOT_FUNCS:
                a = call_args(f, x)
                arg = a[0] if a else None
            elif x['k'] in CALL_KINDS and x.get('cn') == 'at' and 'std::array' in (x.get('cq') or ''):
                rc = f.strip(call_recv(f, x), casts=True)
                if rc is not None and rc['k'] == 'MemberExpr' and 'link_or_value' in (rc.get('ty') or ''):
                    a = call_args(f, x)
                    arg = a[0] if a else None
            if arg is None:
                continue
            uses += 1
            r = f.strip(arg, casts=True)
            if r is not None and r['k'] == 'DeclRefExpr' and r.get('id') in ranks:
                bad.append((x, ranks[r['id']]))
        n += uses
        fname = f.qname + ('<%s>' % f.targs if f.targs else '')
        S.ob('R-IDX', fname, 'slot accesses (%d) in a function that ranks with %s' % (uses, ', '.join(sorted(set(ranks.values())))),
             not bad, 'no rank variable is used as a slot number' if not bad else
             'the rank `%s` is used as a slot number (%s): the entry at rank r is in slot perm[r], not in slot r' % (
                 bad[0][1], bad[0][0].get('cn')), loc=short_loc(bad[0][0]) if bad else f.loc)
    S.require('R-IDX', 'functions translating ranks to slots', nf, 6)
    S.require('R-IDX', 'slot accesses in those functions', n, 10)


def rule_rd1(S):
    """Reader side of 'each update is published as a single atomic word so a reader sees either the old or the new
    ordering': the lock-free readers consume the word through one local snapshot (shared with C01 / C04 / C10)."""
    from checks.C01 import snap_rule
    facts = S.facts()
    S.rule('R-RD1', 'lock-free readers (border_node::get_lv_of, scan_border<V>, iscan_findnext): the only live read of the '
                    'permutation word is the whole-word load that initialises a local snapshot; every rank / count lookup '
                    'goes through that snapshot; node accessors that read part of the live word are not used')
    fns = [facts.one(Y + 'border_node::get_lv_of')]
    fns += [f for f in facts.by_qname(Y + 'scan_border') if not f.is_lambda]
    fns += [facts.one(Y + 'iscan_findnext')]
    for f in fns:
        snap_rule(S, f, 'R-RD1')
    S.require('R-RD1', 'lock-free readers of the permutation word', len(fns), 3)


def run(S):
    S.undecided = ['that insert_rank shifts exactly the later ranks, delete_rank closes the gap, split_dest is the '
                   'identity, distinctness of the n slot numbers: bit-precise arithmetic facts that need a solver or '
                   'exhaustive execution, i.e. a different family']
    S.assumptions = ['value preconditions of the callers (rank <= count <= 15, count <= 14 before an insert) are assumed, '
                     'their structural part (split before a full node is inserted into) is C05/C01']
    rule_layp(S)
    rule_pub1(S)
    rule_shift(S)
    rule_slot(S)
    rule_rd1(S)
    rule_idx(S)
    # 'n distinct slot numbers in key order': the re-sort of a leaf uses the one key order (shared with C18)
    from checks.C18 import rule_use
    rule_use(S)
    # 'inserting at a rank places the new slot there': the rank is computed on the full leaf, the side of the split is
    # decided separately - the two agree only if both use the one key order (checks/shared.py)
    from checks import shared
    shared.key_order(S)
