"""C02 - single-threaded behaviour equals an ordered byte-string map.

The property as a whole is input/output arithmetic over all operation sequences and is NOT decided.  What is decided
here are its clauses whose truth is in the shape of the code and whose violation breaks the sequential map behaviour
(all rules are shared, none is a copy):

  R-CMP    (C18) every hand-written comparison of (8-byte slice, length) pairs - leaf lookups, rank computation,
           interior routing and separator insertion, both split side decisions, key_tuple operators - implements the
           one bytewise order with a proper prefix first, exhaustively over the finite order abstraction (zero bytes,
           keys differing only in length, slice boundaries)
  R-USE    (C18) sorting and the cursor use only the key_tuple operators
  R-SLICE  (C18) every API entry cuts a key into (slice, length) the same way for every key size 0..8 and > 8
  R-NARROW (keylen) key lengths (up to 30 KiB) reach comparisons at full width
  R-LOOKUP (C01) the leaf lookup returns the entry it examined under one permutation snapshot
  R-WUL    (C01) put / remove act on the entry (or absence) they re-looked-up under the lock: remove reports OK only
           for a found entry, a unique put reports WARN_UNIQUE_RESTRICTION only for a found entry
  R-IDX    (C19) a rank is never used as a slot number
"""
from checks import C18, C01, keylen


def run(S):
    S.undecided = ['equality of every returned status and value with an ordered map over all operation sequences '
                   '(which child, which rank, which entries move in a split, re-use of emptied trees): input/output '
                   'arithmetic, not decidable from the shape of the code',
                   'remove-all-then-reinsert equivalence with a fresh storage']
    S.assumptions = ['zero-padding invariant of stored slices (R-SLICE decides it for the slicing sites)',
                     'memcmp compares bytes as unsigned char (C standard)']
    C18.rule_cmp(S)
    C18.rule_use(S)
    C18.rule_slice(S)
    keylen.rule_narrow(S)
    C01.rule_lookup(S)
    C01.rule_wul(S)
    # 'removing every key and re-inserting': a removed slot is really cleared, in the node (shared with C15)
    from checks import C15
    C15.rule_copy(S)
    from checks import C19
    C19.rule_idx(S)
