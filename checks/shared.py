"""Bundles of rules that are necessary conditions of several properties.

A property check imports the bundles whose mechanism it rests on, so that a change in that mechanism is reported
under every property it breaks (a rule is never copied; the obligations appear in each importing property's evidence).
Each bundle runs at most once per session.
"""


def _once(S, name):
    done = S.__dict__.setdefault('_bundles_done', set())
    if name in done:
        return False
    done.add(name)
    return True


def version_word(S):
    """The node version word protocol (C17): every optimistic validation compares stable versions, so lock mutual
    exclusion, 'unlock bumps the flagged counters', 'never stable while locked or dirty' are preconditions of C01,
    C04, C05, C06, C10 alike."""
    if not _once(S, 'version_word'):
        return
    from checks import C17
    C17.rule_body(S)
    C17.rule_casl(S)
    C17.rule_mx(S)
    C17.rule_stb(S)


def permutation_word(S):
    """Single-word publication of the leaf ordering (C19) and its one-snapshot consumption by the readers."""
    if not _once(S, 'permutation_word'):
        return
    from checks import C19
    C19.rule_pub1(S)
    C19.rule_rd1(S)
    C19.rule_idx(S)


def key_order(S):
    """One key order at every comparison site, identical slicing at every entry point, full-width lengths (C18)."""
    if not _once(S, 'key_order'):
        return
    from checks import C18, keylen
    C18.rule_cmp(S)
    C18.rule_slice(S)
    C18.rule_sent(S)
    keylen.rule_narrow(S)


def descent(S):
    """Hand-over-hand validation of the descent (find_border / get_child_of), C01 R-DESC."""
    if not _once(S, 'descent'):
        return
    from checks import C01
    C01.rule_desc(S)


def writers_dirty(S):
    """Writers mark a node dirty before structural stores (C01 R-DBM): what makes a concurrent reader's version
    check fail."""
    if not _once(S, 'writers_dirty'):
        return
    from checks import C01
    C01.rule_dbm(S)


def sessions(S):
    """Exclusive session slots (C14): two sessions sharing a slot share one begin epoch, which breaks reclamation."""
    if not _once(S, 'sessions'):
        return
    from checks import C14
    C14.rule_cas(S)
    C14.rule_tok(S)


def value_words(S):
    """Stored values are immutable and swapped with one store (C15 R-IMM, R-ONE): no torn value under a reader."""
    if not _once(S, 'value_words'):
        return
    from checks import C15
    C15.rule_imm(S)
    C15.rule_one(S)
    C15.rule_copy(S)


def reclamation(S):
    """Who may free, and unlink => retire (C07 R-WMF, R-RET): exactly-once release."""
    if not _once(S, 'reclamation'):
        return
    from checks import C07
    C07.rule_wmf(S)
    C07.rule_ret(S)


def structure(S):
    """Structural stores under the guarding lock, link / parent pairing, split sibling locked + dirty + linked before it
    is reachable, a deleted border retired or without sibling links (C08 R-MUL, R-LINK, R-SIB; C06 R-SPL): what a traversal along the leaf chain relies on."""
    if not _once(S, 'structure'):
        return
    from checks import C08, C06
    from checks.lockfam import lock_analysis
    la = lock_analysis(S.facts())
    C08.rule_mul(S, la)
    C08.rule_link(S, la)
    C08.rule_move(S)
    C08.rule_sib(S)
    C06.rule_spl(S)


def writers_revalidate(S):
    """Writers act on the entry (or absence) they re-validated under the lock (C01 R-WUL)."""
    if not _once(S, 'writers_revalidate'):
        return
    from checks import C01
    C01.rule_wul(S)


def names(S, only):
    """Name-based entry points resolve the storage first (C13 R-STG)."""
    if not _once(S, 'names'):
        return
    from checks import C13
    C13.rule_stg(S, only=only)


def gc_safety(S):
    """Epoch-based reclamation (C07): what a reader obtained stays valid until it leaves - a precondition of every
    property that lets a reader look at values or nodes after its validation (C01, C04, C10, C15)."""
    if not _once(S, 'gc_safety'):
        return
    from checks import C07, C14
    C07.rule_wmf(S)
    C07.rule_ret(S)
    C07.rule_gcg(S)
    C07.rule_min(S)
    C07.rule_walk(S)
    C07.rule_adv(S)
    C07.rule_pub(S)
    C14.rule_lve(S)
