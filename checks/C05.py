"""C05 - node-version sets from reads detect every later insert into the read range.

Decided (structural, necessary conditions; see DESIGN.md section 5 / C05):
  R-REC   every non-retry exit of scan_border<V> has recorded the visited border
  R-REC0  the top-level scan records the (deleted) root border / reaches scan_border
  R-MISS  a get() miss reports the border and the version get_lv_of validated
  R-CB    iscan: the node-version callback is invoked before the cursor leaves a border
  R-BUMP  an insert dirties the border it lands in before touching it
"""
from yk.facts import (AnalysisBroken, call_args, call_recv, is_call, root, root_var, short_loc, term, term_str,
                      vname)
from yk.flow import Explorer
from yk import rules as R

NVV_ELEM = 'std::pair<yakushima::node_version64_body, yakushima::node_version64 *>'


def is_nvv_ptr_type(t):
    t = t.replace('const', '').replace(' ', '')
    return t.startswith('std::vector<std::pair<yakushima::node_version64_body,yakushima::node_version64*>') and \
        t.endswith('*')


def is_nvv_append(n):
    return n['k'] == 'CXXMemberCallExpr' and n.get('cn') in ('emplace_back', 'push_back') and \
        (n.get('cq') or '').startswith('std::vector<' + NVV_ELEM)


def is_nvv_shrink(n):
    return n['k'] == 'CXXMemberCallExpr' and n.get('cn') in ('erase', 'clear', 'pop_back', 'resize') and \
        (n.get('cq') or '').startswith('std::vector<' + NVV_ELEM)


def mentions_version_ptr_of(f, n, border_vars, aliases):
    """Does the expression below n denote the version pointer of the visited border (or a local alias of it) -
    and of no other node (a conditional that may yield another node's version pointer does not count)?"""
    found = False
    for x in f.walk(n):
        if is_call(x, cq='yakushima::base_node::get_version_ptr'):
            rv = root_var(f, call_recv(f, x))
            if rv in border_vars:
                found = True
            else:
                return False
        if x['k'] == 'DeclRefExpr' and x.get('id') in aliases:
            found = True
    return found


def version_ptr_aliases(f, border_vars, extra_funcs=()):
    """Locals of type node_version64* initialised from <border>->get_version_ptr()."""
    al = set()
    for g in (f,) + tuple(extra_funcs):
        for n in g.all_nodes():
            if n['k'] == 'DeclStmt':
                for v in n.get('vars', []):
                    if 'init' in v and v['type'].replace('const', '').strip().startswith('yakushima::node_version64 *'):
                        if mentions_version_ptr_of(g, v['init'], border_vars, set()):
                            al.add(v['id'])
    return al


# ---------------------------------------------------------------------------
# R-REC
# ---------------------------------------------------------------------------

def rule_rec(S):
    facts = S.facts()
    S.rule('R-REC', 'scan_border<V>: on every path to `return OK_SCAN_END` / `OK_SCAN_CONTINUE` (analysed under '
                    'node_version_vec != nullptr) the visited border has been appended to node_version_vec after the '
                    'last roll-back; retry exits carry no obligation')
    fns = facts.some('yakushima::scan_border', lambda f: not f.is_lambda, 'scan_border<V>')
    n_exits = 0
    n_records = 0
    for f in fns:
        nvv = R.params_of_type(f, is_nvv_ptr_type)
        if len(nvv) != 1:
            raise AnalysisBroken('R-REC: scan_border has no unique node_version_vec parameter')
        nvv = nvv[0]['id']
        tgt = [p for p in f.params if p['type'].replace(' ', '').startswith('yakushima::border_node**')]
        vfb = [p for p in f.params if p['type'].replace(' ', '') == 'yakushima::node_version64_body&']
        if len(tgt) != 1 or len(vfb) != 1:
            raise AnalysisBroken('R-REC: scan_border parameters (border_node**, node_version64_body&) not found')
        tgt, vfb = tgt[0]['id'], vfb[0]['id']
        # the visited border: locals of type border_node* initialised from *target
        border_vars = set()
        for n in f.all_nodes():
            if n['k'] == 'DeclStmt':
                for v in n.get('vars', []):
                    if 'init' in v and v['type'].replace('const', '').strip() == 'yakushima::border_node *':
                        if root_var(f, v['init']) == tgt:
                            border_vars.add(v['id'])
        if not border_vars:
            raise AnalysisBroken('R-REC: no local border pointer initialised from *target in scan_border')
        lambdas = facts.lambdas_of(f)
        aliases = version_ptr_aliases(f, border_vars, lambdas)
        assume = {nvv: 'nonnull'}
        records_seen = set()
        # lambdas that roll back node_version_vec: calling one un-records
        rollback = set()
        for g in lambdas:
            if any(is_nvv_shrink(n) and root_var(g, call_recv(g, n)) == nvv for n in g.all_nodes()):
                rollback.add(g.fid)

        reports = []

        def make_step(g):
            def step(ctx, n, st):
                rec, fs = st
                fs = R.track_assign(g, n, fs, facts)
                if is_nvv_append(n) and root_var(g, call_recv(g, n)) == nvv:
                    args = call_args(g, n)
                    good_ptr = any(mentions_version_ptr_of(g, a, border_vars, aliases) for a in args)
                    good_ver = any(any(x['k'] == 'DeclRefExpr' and x.get('id') == vfb for x in g.walk(a))
                                   for a in args)
                    records_seen.add(n.get('loc'))
                    if good_ptr and good_ver:
                        rec = 'Y'
                    else:
                        reports.append(('R-REC', 'append ' + short_loc(n), n,
                                        'node_version_vec receives a pair that is not (validated v_at_fb, version '
                                        'pointer of the visited border)', ctx.witness()))
                    return (rec, fs)
                if is_nvv_shrink(n) and root_var(g, call_recv(g, n)) == nvv:
                    return ('N', fs)
                tg = R.lambda_target(facts, g, n)
                if tg is not None:
                    if tg.fid in rollback:
                        return ('N', fs)
                    outs, _ = R.inline_states(facts, tg, (rec, fs), make_step(tg), make_branch(tg))
                    return list(outs)
                if n['k'] == 'ReturnStmt' and g is f:
                    rc = R.ret_const(g, n, fs)
                    nonlocal_exits.append(1)
                    if rc in ('yakushima::status::OK_RETRY_FROM_ROOT', 'yakushima::status::OK_RETRY_AFTER_FB'):
                        return None
                    trail = R.branch_trail(ctx.ex, ctx.key, g, 2)
                    site = '%s after [%s]' % (R.ret_desc(g, n), '; '.join(trail))
                    exits.setdefault(site, {'ok': True, 'loc': short_loc(n), 'paths': []})
                    if rec != 'Y':
                        exits[site]['ok'] = False
                        if len(exits[site]['paths']) < 1:
                            exits[site]['paths'].append(ctx.witness())
                    return None
                return (rec, fs)
            return step

        def make_branch(g):
            def branch(ctx, blk, idx, st):
                rec, fs = st
                fs2 = R.refine(g, blk, idx, fs, assume)
                if fs2 is None:
                    return None
                return (rec, fs2)
            return branch

        exits = {}
        nonlocal_exits = []
        ex = Explorer(f, make_step(f), make_branch(f))
        ex.run(('N', frozenset()))
        fname = 'yakushima::scan_border<%s>' % f.targs
        for site, info in sorted(exits.items()):
            n_exits += 1
            S.ob('R-REC', fname, site, info['ok'],
                 'exit reached with the visited border %s' % ('recorded' if info['ok'] else
                                                              'NOT recorded in node_version_vec'),
                 loc=info['loc'], path=(info['paths'][0] if info['paths'] else None))
        for (rule, site, n, what, path) in reports:
            S.ob(rule, fname, site, False, what, loc=short_loc(n), path=path)
        n_records += len(records_seen)
        S.count('R-REC: CFG visits', ex.visits)
    S.require('R-REC', 'non-retry exits of scan_border', n_exits, 8)
    S.require('R-REC', 'record sites (appends to node_version_vec)', n_records, 2)


# ---------------------------------------------------------------------------
# R-REC0: top-level scan
# ---------------------------------------------------------------------------

def rule_rec0(S):
    facts = S.facts()
    S.rule('R-REC0', 'scan<V>(tree_instance*,...): every `return OK` (under node_version_vec != nullptr) happens '
                     'after a scan_border call or after appending the root border\'s (version, pointer) pair, '
                     'counted from the last clear()')
    fns = facts.some('yakushima::scan',
                     lambda f: f.params and f.params[0]['type'] == 'yakushima::tree_instance *', 'scan<V>(ti,...)')
    n = 0
    for f in fns:
        nvv = R.params_of_type(f, is_nvv_ptr_type)
        if len(nvv) != 1:
            raise AnalysisBroken('R-REC0: scan has no unique node_version_vec parameter')
        nvv = nvv[0]['id']
        assume = {nvv: 'nonnull'}
        exits = {}
        border_vars = {v['id'] for nd in f.all_nodes() if nd['k'] == 'DeclStmt' for v in nd.get('vars', [])
                       if v['type'].replace('const', '').strip() == 'yakushima::border_node *'}

        def step(ctx, nd, st):
            have, fs = st
            fs = R.track_assign(f, nd, fs, facts)
            if is_nvv_shrink(nd) and root_var(f, call_recv(f, nd)) == nvv:
                return ('N', fs)
            if is_nvv_append(nd) and root_var(f, call_recv(f, nd)) == nvv:
                if any(mentions_version_ptr_of(f, a, border_vars, set()) for a in call_args(f, nd)):
                    return ('Y', fs)
                return (have, fs)
            if is_call(nd, cq='yakushima::scan_border'):
                return ('Y', fs)
            if nd['k'] == 'ReturnStmt':
                rc = R.ret_const(f, nd, fs)
                if rc == 'yakushima::status::OK':
                    trail = R.branch_trail(ctx.ex, ctx.key, f, 2)
                    site = '%s after [%s]' % (R.ret_desc(f, nd), '; '.join(trail))
                    e = exits.setdefault(site, {'ok': True, 'loc': short_loc(nd), 'path': None})
                    if have != 'Y':
                        e['ok'] = False
                        e['path'] = e['path'] or ctx.witness()
                return None
            return (have, fs)

        def branch(ctx, blk, idx, st):
            fs2 = R.refine(f, blk, idx, st[1], assume)
            return None if fs2 is None else (st[0], fs2)

        Explorer(f, step, branch).run(('N', frozenset()))
        for site, e in sorted(exits.items()):
            n += 1
            S.ob('R-REC0', 'yakushima::scan<%s>' % f.targs, site, e['ok'],
                 'OK exit %s a recorded border' % ('with' if e['ok'] else 'WITHOUT'), loc=e['loc'], path=e['path'])
    S.require('R-REC0', 'OK exits of top-level scan', n, 2)


# ---------------------------------------------------------------------------
# R-MISS: get
# ---------------------------------------------------------------------------

def rule_miss(S):
    facts = S.facts()
    S.rule('R-MISS', 'get<V>: every `return WARN_NOT_EXIST` reached after get_lv_of (and under checked_version != '
                     'nullptr) has stored checked_version->first = the version get_lv_of validated and '
                     '->second = version pointer of the border get_lv_of was called on')
    fns = facts.some('yakushima::get',
                     lambda f: f.params and f.params[0]['type'] == 'yakushima::tree_instance *', 'get<V>(ti,...)')
    n = 0
    for f in fns:
        cvp = [p for p in f.params if p['type'].replace(' ', '').startswith(
            'std::pair<yakushima::node_version64_body,yakushima::node_version64*>*')]
        if len(cvp) != 1:
            raise AnalysisBroken('R-MISS: get has no unique checked_version parameter')
        cv = cvp[0]['id']
        assume = {cv: 'nonnull'}
        exits = {}

        def step(ctx, nd, st):
            looked, first, second, fs = st  # looked = (border var, version var) of the last get_lv_of
            fs = R.track_assign(f, nd, fs, facts)
            if is_call(nd, cq='yakushima::tree_instance::load_root_ptr'):
                # a new descent: a miss reported from here (root == nullptr) has no border to report
                return (None, 'N', 'N', fs)
            if is_call(nd, cq='yakushima::border_node::get_lv_of'):
                args = call_args(f, nd)
                bv = root_var(f, call_recv(f, nd))
                vv = root_var(f, args[2]) if len(args) >= 3 else None
                return ((bv, vv), 'N', 'N', fs)
            if nd['k'] == 'BinaryOperator' and nd.get('op') == '=':
                c = f.ch(nd)
                lhs = f.strip(c[0])
                if lhs is not None and lhs['k'] == 'MemberExpr' and root_var(f, lhs) == cv:
                    fld = lhs['name']
                    rhs = c[1]
                    if fld == 'first':
                        good = looked is not None and root_var(f, rhs) == looked[1] and \
                            f.strip(rhs, casts=True)['k'] == 'DeclRefExpr'
                        return (looked, 'Y' if good else 'N', second, fs)
                    if fld == 'second':
                        good = looked is not None and mentions_version_ptr_of(f, rhs, {looked[0]}, set())
                        return (looked, first, 'Y' if good else 'N', fs)
                return st[:3] + (fs,)
            if nd['k'] == 'CXXOperatorCallExpr' and nd.get('cn') == 'operator=':
                a = [f.node(x) for x in nd.get('args', [])]
                if len(a) == 2:
                    lhs = f.strip(a[0])
                    if lhs is not None and lhs['k'] == 'MemberExpr' and root_var(f, lhs) == cv and \
                            lhs['name'] == 'first':
                        good = looked is not None and root_var(f, a[1]) == looked[1] and \
                            f.strip(a[1], casts=True)['k'] == 'DeclRefExpr'
                        return (looked, 'Y' if good else 'N', second, fs)
                    if lhs is not None and lhs['k'] == 'DeclRefExpr' and lhs.get('id') == cv:
                        return (looked, 'N', 'N', fs)
                return st[:3] + (fs,)
            if nd['k'] == 'ReturnStmt':
                rc = R.ret_const(f, nd, fs)
                if rc == 'yakushima::status::WARN_NOT_EXIST' and looked is not None:
                    trail = R.branch_trail(ctx.ex, ctx.key, f, 2)
                    site = '%s after [%s]' % (R.ret_desc(f, nd), '; '.join(trail))
                    e = exits.setdefault(site, {'ok': True, 'loc': short_loc(nd), 'path': None})
                    if not (first == 'Y' and second == 'Y'):
                        e['ok'] = False
                        e['path'] = e['path'] or ctx.witness()
                        e['why'] = 'first %s, second %s' % ('set' if first == 'Y' else 'NOT set from the validated version',
                                                           'set' if second == 'Y' else 'NOT set from the border')
                return None
            return st[:3] + (fs,)

        def branch(ctx, blk, idx, st):
            fs2 = R.refine(f, blk, idx, st[3], assume)
            return None if fs2 is None else st[:3] + (fs2,)

        Explorer(f, step, branch).run((None, 'N', 'N', frozenset()))
        for site, e in sorted(exits.items()):
            n += 1
            S.ob('R-MISS', 'yakushima::get<%s>' % f.targs, site, e['ok'],
                 'miss exit: checked_version ' + ('filled' if e['ok'] else e.get('why', 'incomplete')),
                 loc=e['loc'], path=e['path'])
    S.require('R-MISS', 'WARN_NOT_EXIST exits after get_lv_of', n, 1)


# ---------------------------------------------------------------------------
# R-BUMP
# ---------------------------------------------------------------------------

def rule_bump(S):
    facts = S.facts()
    S.rule('R-BUMP', 'insert_lv: set_version_inserting_deleting(true) on the target border precedes insert_lv_at / '
                     'border_split on every path; border_split: set_version_splitting(true) precedes the first '
                     'move of entries and the sibling receives a copy of the dirty word; init_border<V> (first key '
                     'of a fresh border) bumps vinsert')
    # inserts into a published border happen under a dirty bit; a helper that expects its caller to have set it shifts
    # the requirement to its call sites (inferred need-summaries of the lock analysis, checks/lockfam.py)
    from checks.lockfam import lock_analysis
    from yk.locks import tok_str
    la = lock_analysis(facts)
    INS = ('yakushima::border_node::insert_lv_at', 'yakushima::insert_lv', 'yakushima::permutation::insert_rank')
    ni = 0
    seen_sites = set()
    for ev in la.events:
        if ev['kind'] == 'callneed' and ev.get('level') == 'D' and ev['callee'].qname in INS:
            key = (ev['fn'].qname, ev['callee'].qname, ev['loc'])
            if key in seen_sites and not ev['bad']:
                continue
            seen_sites.add(key)
            ni += 1
            S.ob('R-BUMP', ev['fn'].qname, 'call %s on %s at %s' % (ev['callee'].qname.replace('yakushima::', ''),
                                                               tok_str(ev['token']), ev['loc']), not ev['bad'],
                 'the border is marked inserting (or splitting) when the entry is inserted' if not ev['bad'] else
                 'an entry is inserted into a border that is not marked inserting / splitting on this path: its '
                 'version does not change on unlock and recorded node versions stay fresh (%s)' % ev.get('what', ''),
                 loc=ev['loc'], path=ev.get('ctx_path'))
    S.require('R-BUMP', 'insert sites under a dirty-bit requirement', ni, 3)

    # border_split
    g = facts.one('yakushima::border_split')
    bp = [p for p in g.params if p['type'].replace('const', '').replace(' ', '') == 'yakushima::border_node*']
    if len(bp) != 1:
        raise AnalysisBroken('R-BUMP: border_split has no unique border_node* parameter')
    b2 = bp[0]['id']
    MOVES = {'yakushima::border_node::init_border', 'yakushima::permutation::delete_rank',
             'yakushima::border_node::insert_lv_at', 'yakushima::border_node::set_next',
             'yakushima::base_node::set_key_slice_at', 'yakushima::base_node::set_key_length_at',
             'yakushima::base_node::set_key', 'yakushima::border_node::set_lv'}
    msites = {}
    copy_seen = {'ok': False, 'loc': None}

    def step2(ctx, nd, st):
        if is_call(nd, cq='yakushima::base_node::set_version_splitting') and root_var(g, call_recv(g, nd)) == b2:
            a = call_args(g, nd)
            return 'Y' if (a and R.const_of(g, a[0]) == 'T') else 'N'
        if is_call(nd, cq=MOVES) and root_var(g, call_recv(g, nd)) == b2:
            if nd['cq'].endswith('init_border') and not call_args(g, nd):
                return st
            site = 'store ' + nd['cn']
            e = msites.setdefault(site, {'ok': True, 'loc': short_loc(nd), 'path': None})
            if st != 'Y':
                e['ok'] = False
                e['path'] = e['path'] or ctx.witness()
        if is_call(nd, cq='yakushima::base_node::set_version'):
            a = call_args(g, nd)
            if a and any(is_call(x, cq='yakushima::base_node::get_version') and
                         root_var(g, call_recv(g, x)) == b2 for x in g.walk(a[0])):
                copy_seen['loc'] = short_loc(nd)
                if st == 'Y':
                    copy_seen['ok'] = True
        return st

    Explorer(g, step2).run('N')
    for site, e in sorted(msites.items()):
        S.ob('R-BUMP', g.qname, site, e['ok'],
             'store to the split border is %sdominated by set_version_splitting(true)' % ('' if e['ok'] else 'NOT '),
             loc=e['loc'], path=e['path'])
    S.ob('R-BUMP', g.qname, 'sibling version copy', copy_seen['ok'],
         'new sibling %s a copy of the dirty (splitting) word of the old border' %
         ('receives' if copy_seen['ok'] else 'does NOT receive'), loc=copy_seen['loc'] or g.loc)
    S.require('R-BUMP', 'structural stores in border_split', len(msites), 3)

    # init_border<V>
    ibs = facts.some('yakushima::border_node::init_border', lambda x: len(x.params) == 4, 'init_border<V>')
    for ib in ibs:
        has = any(is_call(n, cq='yakushima::node_version64::atomic_inc_vinsert') for n in ib.all_nodes())
        S.ob('R-BUMP', 'yakushima::border_node::init_border<%s>' % ib.targs, 'first key of a fresh border', has,
             'init_border<V> %s atomic_inc_vinsert' % ('calls' if has else 'does NOT call'), loc=ib.loc)


def run(S):
    S.undecided = [
        'that the recorded set is sufficient for every tree shape x interval x new key (one border per visit)',
        'staleness under 29-bit counter wrap-around',
        'R-CB is decided only for the per-border iteration of iscan_findnext and the exits of iscan_findfirst',
    ]
    S.assumptions = ['clang CFG of the instantiated templates is a faithful over-approximation of the control flow',
                     'version_unlock turns each dirty bit into a counter increment (decided under C17)']
    rule_rec(S)
    rule_rec0(S)
    rule_miss(S)
    # a roll-back must not cut the node set below what enclosing levels recorded (shared with C04)
    from checks import C04
    S.rule('R-RBK', 'roll-back closures of scan / scan_border restore each container (result list, node-version vector) '
                    'to the size recorded for that container')
    C04.rule_rbk_sizes(S)
    # the miss report is only meaningful for a border that is still the right one: post-lookup check (shared with C01)
    from checks import occ
    S.rule('R-PLC', 'get<V>: before the miss is reported (and before the slot is read) the version get_lv_of validated is '
                    'established to have the vsplit of the descent and not to be deleted unless still a root - otherwise '
                    'the reported (version, node) pair can belong to a border that was unlinked and never changes again')
    for f in S.facts().by_qname('yakushima::get', lambda f: f.params and f.params[0]['type'] == 'yakushima::tree_instance *'):
        occ.point_reader(S, f, only_plc=True)
    rule_bump(S)
    from checks import C05_cb
    C05_cb.rule_cb(S)
    # mechanisms this property rests on (checks/shared.py)
    from checks import shared
    shared.version_word(S)
    shared.descent(S)
    shared.writers_dirty(S)
