"""C14 - sessions are exclusive slots: distinct tokens, hard capacity, reuse after leave.

Decided (claim protocol shape; DESIGN.md section 5 / C14):
  R-CAS  thread_info::gain_the_right returns true only on the success edge of a compare-exchange on running_ from
         false to true, false only after observing true, and re-tests the refreshed value after a failed CAS
  R-TOK  assign_thread_info hands out &elem only after elem.gain_the_right() returned true for the same elem, and
         reports WARN_MAX_SESSIONS only after the range-for over the whole table is exhausted
  R-PUB  the begin epoch is published before enter returns (shared with C07)
  R-LVE  leave clears the begin epoch, then the running flag, of the token's slot and writes nothing else
  R-CAP  the table is a std::array of exactly YAKUSHIMA_MAX_PARALLEL_SESSIONS slots; the atomics are lock-free
"""
from yk.facts import (AnalysisBroken, CALL_KINDS, call_args, call_recv, cv_through, is_call, root_var, short_loc, term)
from yk.flow import Explorer
from yk import rules as R
from yk import witness
from checks.C07 import rule_pub

Y = 'yakushima::'
TI = Y + 'thread_info'
OKS = Y + 'status::OK'


def rule_cas(S):
    facts = S.facts()
    S.rule('R-CAS', 'thread_info::gain_the_right: `return true` only on the success edge of running_.compare_exchange_*'
                    '(expected, true) reached with expected established false; `return false` only with the current '
                    'expected value established true; a failed CAS loops back to the test of the refreshed value')
    f = facts.one(TI + '::gain_the_right')
    rets = {}
    cas = {}

    def step(ctx, nd, st):
        fs, won = st
        is_cas = nd['k'] == 'CXXMemberCallExpr' and nd.get('cn', '').startswith('compare_exchange')
        if is_cas:
            a = call_args(f, nd)
            on_running = (f.strip(call_recv(f, nd), casts=True) or {}).get('member') == TI + '::running_'
            ev = f.strip(a[0], casts=True)
            exp_false = ev is not None and ev['k'] == 'DeclRefExpr' and R.facts_get(fs, ev['id']) == 'F'
            des_true = R.const_of(f, a[1]) == 'T'
            e = cas.setdefault(short_loc(nd), {'ok': True, 'path': None})
            if not (on_running and exp_false and des_true):
                e['ok'] = False
                e['path'] = ctx.witness()
            fs = R.facts_set(fs, ev['id'], None) if ev is not None and ev['k'] == 'DeclRefExpr' else fs
            return (fs, False)
        fs = R.track_assign(f, nd, fs, facts)
        if nd['k'] == 'ReturnStmt':
            v = R.const_of(f, f.ch(nd)[0]) if f.ch(nd) else None
            e = rets.setdefault('return ' + str({'T': 'true', 'F': 'false'}.get(v, v)),
                                {'ok': True, 'loc': short_loc(nd), 'path': None, 'why': ''})
            if v == 'T' and not won:
                e['ok'] = False
                e['why'] = 'claims the slot without a successful CAS'
                e['path'] = ctx.witness()
            if v == 'F':
                exp_vars = [x for x, val in fs if val == 'T']
                if not exp_vars:
                    e['ok'] = False
                    e['why'] = 'gives up although the slot was not observed occupied'
                    e['path'] = ctx.witness()
            if v not in ('T', 'F'):
                e['ok'] = False
                e['why'] = 'returns a non-constant'
            return None
        return (fs, won)

    def branch(ctx, blk, idx, st):
        fs, won = st
        fs2 = R.refine(f, blk, idx, fs)
        if fs2 is None:
            return None
        if blk.term and 'cond' in blk.term:
            c = f.strip(blk.term['cond'], casts=True)
            if c is not None and c['k'] == 'CXXMemberCallExpr' and c.get('cn', '').startswith('compare_exchange'):
                return (fs2, idx == 0)
        return (fs2, won)

    Explorer(f, step, branch).run((frozenset(), False))
    S.require('R-CAS', 'compare-exchange sites', len(cas), 1)
    for loc, e in sorted(cas.items()):
        S.ob('R-CAS', f.qname, 'CAS at ' + loc, e['ok'], 'running_: false -> true' if e['ok'] else
             'the claim is not a compare-exchange of running_ from (established) false to true', loc=loc, path=e['path'])
    for k in ('return true', 'return false'):
        if k not in rets:
            S.ob('R-CAS', f.qname, k, False, 'gain_the_right never returns %s' % k.split()[1], loc=f.loc)
    for site, e in sorted(rets.items()):
        S.ob('R-CAS', f.qname, site, e['ok'], 'as specified' if e['ok'] else e['why'], loc=e['loc'], path=e['path'])


def rule_tok(S):
    facts = S.facts()
    S.rule('R-TOK', 'assign_thread_info: `token = &elem` and `return OK` only on the true edge of elem.gain_the_right() '
                    'for the same range-for element over thread_info_table_; `return WARN_MAX_SESSIONS` only from the '
                    'exit of that range-for (every slot was tried)')
    f = facts.one(Y + 'thread_info_table::assign_thread_info')
    tokp = f.params[0]['id']
    res = {'ok': {}, 'max': {}}
    has_range = any(v['name'].startswith('__range') and 'init' in v and
                    R.global_ref(f, v['init']) == Y + 'thread_info_table::thread_info_table_'
                    for n in f.all_nodes() if n['k'] == 'DeclStmt' for v in n.get('vars', []))

    # a counted loop over the whole table: for (i = 0; i < thread_info_table_.size() [or the capacity]; ++i)
    TABLE = Y + 'thread_info_table::thread_info_table_'
    cap = None
    rec = facts.records.get(Y + 'thread_info_table') or {}
    counted = set()
    for b_, blk_ in f.blocks.items():
        t_ = blk_.term
        if not t_ or t_.get('k') != 'ForStmt' or 'cond' not in t_ or len(blk_.succ) != 2:
            continue
        c_ = f.strip(f.node(t_['cond']), casts=True)
        if c_ is None or c_['k'] != 'BinaryOperator' or c_.get('op') not in ('<', '!='):
            continue
        l_, r_ = f.strip(f.ch(c_)[0], casts=True), f.strip(f.ch(c_)[1], casts=True)
        if l_ is None or l_['k'] != 'DeclRefExpr' or r_ is None:
            continue
        whole = (r_['k'] in CALL_KINDS and r_.get('cn') == 'size' and R.global_ref(f, call_recv(f, r_)) == TABLE)
        ini_ = R.var_decl_init(f, l_.get('id'))
        from_zero = ini_ is not None and cv_through(f, ini_) == 0
        stepped = any(x['k'] == 'UnaryOperator' and x.get('op') == '++' and root_var(f, f.ch(x)[0]) == l_.get('id')
                      for x in f.all_nodes())
        if whole and from_zero and stepped:
            counted.add(b_)
    has_range = has_range or bool(counted)

    # the lowered std::find_if(TABLE.begin(), TABLE.end(), pred) (yk/inline.py): a bounded loop over [__begin, __end) whose
    # result is the iterator of the accepted element or TABLE.end()
    def table_call(n, which, depth=0):
        n = f.strip(n, casts=True)
        if n is None or depth > 4:
            return False
        if n['k'] in CALL_KINDS and n.get('cn') == which and R.global_ref(f, call_recv(f, n)) == TABLE:
            return True
        if n['k'] == 'DeclRefExpr' and n.get('dk') == 'var':
            inits = [v['init'] for m in f.all_nodes() if m['k'] == 'DeclStmt' for v in m.get('vars', [])
                     if v['id'] == n.get('id') and 'init' in v]
            return len(inits) == 1 and table_call(f.node(inits[0]), which, depth + 1)
        return False

    iters = {}
    for m in f.all_nodes():
        if m['k'] == 'DeclStmt':
            for v in m.get('vars', []):
                if v['name'] == '__begin' and 'init' in v and table_call(f.node(v['init']), 'begin'):
                    iters[v['id']] = 'begin'
    if iters and any(v['name'] == '__end' and 'init' in v and table_call(f.node(v['init']), 'end')
                     for m in f.all_nodes() if m['k'] == 'DeclStmt' for v in m.get('vars', [])):
        has_range = True

    def it_value(n, env):
        n = f.strip(n, casts=True)
        if n is None:
            return None
        if n['k'] == 'DeclRefExpr':
            if n.get('id') in iters:
                return ('it', n['id'])
            for (v, val) in env:
                if v == n.get('id'):
                    return val
        if table_call(n, 'end'):
            return ('end',)
        return None

    def step(ctx, nd, st):
        claimed, tok, exhausted, env = st
        if nd['k'] == 'DeclStmt' and iters:
            for v in nd.get('vars', []):
                if 'init' in v and v['id'] not in iters:
                    val = it_value(f.node(v['init']), env)
                    env = frozenset(x for x in env if x[0] != v['id'])
                    if val is not None:
                        env = env | {(v['id'], val)}
            return (claimed, tok, exhausted, env)
        if nd['k'] == 'BinaryOperator' and nd.get('op') == '=':
            c = f.ch(nd)
            if root_var(f, c[0]) == tokp:
                r = f.strip(c[1], casts=True)
                src = root_var(f, c[1]) if r is not None and r['k'] == 'UnaryOperator' and r.get('op') == '&' else None
                for (v, val) in env:
                    if v == src and val[0] == 'it':
                        src = val[1]          # &*it for the iterator of the accepted element
                return (claimed, src or 'other', exhausted, env)
        if nd['k'] == 'ReturnStmt':
            rc = R.ret_const(f, nd)
            if rc == OKS:
                e = res['ok'].setdefault(short_loc(nd), {'ok': True, 'path': None})
                if not (claimed and tok == claimed):
                    e['ok'] = False
                    e['path'] = ctx.witness()
            elif rc == Y + 'status::WARN_MAX_SESSIONS':
                e = res['max'].setdefault(short_loc(nd), {'ok': True, 'path': None})
                if not exhausted:
                    e['ok'] = False
                    e['path'] = ctx.witness()
            return None
        return st

    def branch(ctx, blk, idx, st):
        claimed, tok, exhausted, env = st
        if blk.term and 'cond' in blk.term and len(blk.succ) == 2 and iters:
            c0 = f.strip(blk.term['cond'], casts=True)
            if c0 is not None and c0['k'] in ('BinaryOperator', 'CXXOperatorCallExpr') and \
                    (c0.get('op') in ('==', '!=') or c0.get('cn') in ('operator==', 'operator!=')):
                kids = f.ch(c0) if c0['k'] == 'BinaryOperator' else call_args(f, c0) or [f.node(x) for x in c0.get('args', [])]
                if len(kids) == 2:
                    a, b = it_value(kids[0], env), it_value(kids[1], env)
                    # (the loop's own test `__begin != __end` is not a test of the algorithm's result)
                    own = any((f.strip(x, casts=True) or {}).get('id') in iters for x in kids)
                    if a is not None and b is not None and ('end',) in (a, b) and not own:
                        equal = a == b       # the found iterator differs from end (the loop test held)
                        is_eq = (c0.get('op') == '==') or (c0.get('cn') == 'operator==')
                        if (idx == 0) != (equal == is_eq):
                            return None
        if blk.term and 'cond' in blk.term and len(blk.succ) == 2:
            c = f.strip(blk.term['cond'], casts=True)
            neg = False
            while c is not None and c['k'] == 'UnaryOperator' and c.get('op') == '!':
                neg = not neg
                c = f.strip(f.ch(c)[0], casts=True)
            if c is not None and is_call(c, cq=TI + '::gain_the_right'):
                if (idx == 0) != neg:
                    return (root_var(f, call_recv(f, c)), tok, exhausted, env)
                return (None, tok, exhausted, env)
            if blk.term.get('k') == 'CXXForRangeStmt':
                if idx == 1:
                    return (None, tok, True, env)
                return (None, None, False, env)
            if blk.id in counted:
                if idx == 1:
                    return (None, tok, True, env)
                return (None, None, False, env)
        return st

    Explorer(f, step, branch).run((None, None, False, frozenset()))
    S.ob('R-TOK', f.qname, 'iterates the session table', has_range, 'a loop over the whole thread_info_table_' if has_range else
         'assign_thread_info does not iterate thread_info_table_', loc=f.loc)
    S.require('R-TOK', 'OK returns', len(res['ok']), 1)
    S.require('R-TOK', 'WARN_MAX_SESSIONS returns', len(res['max']), 1)
    for loc, e in sorted(res['ok'].items()):
        S.ob('R-TOK', f.qname, 'return OK at ' + loc, e['ok'],
             'the token is the address of the slot whose claim succeeded' if e['ok'] else
             'a token is handed out without (or for a different slot than) a successful gain_the_right()', loc=loc,
             path=e['path'])
    for loc, e in sorted(res['max'].items()):
        S.ob('R-TOK', f.qname, 'return WARN_MAX_SESSIONS at ' + loc, e['ok'],
             'only after every slot was tried' if e['ok'] else 'gives up before the whole table was tried', loc=loc,
             path=e['path'])


def _slot_setters(facts, field):
    """thread_info methods with one parameter whose body stores that parameter into `field` (setters found by effect)."""
    out = set()
    for g in facts.functions.values():
        if g.cls != TI or len(g.params) != 1 or g.is_lambda:
            continue
        for n in g.all_nodes():
            if n['k'] == 'CXXMemberCallExpr' and n.get('cn') in ('store', 'exchange'):
                r = g.strip(call_recv(g, n), casts=True)
                a = call_args(g, n)
                if r is not None and r['k'] == 'MemberExpr' and r.get('name') == field and a and \
                        root_var(g, a[0]) == g.params[0]['id']:
                    out.add(g.fid)
    return out


def rule_lve(S):
    facts = S.facts()
    S.rule('R-LVE', 'leave_thread_info: on every path the slot behind the token is released (a store of false into its '
                    'running flag, directly or through a setter) only after its begin epoch was cleared (a store of 0), '
                    'the begin epoch is not written after the release (the slot may already belong to the next '
                    'session, whose published epoch would be erased), and a return of OK has released the slot')
    f = facts.one(Y + 'thread_info_table::leave_thread_info')
    run_f = R.field_of(facts, TI, 'atomic<bool>', 'running flag')
    ep_f = R.field_of(facts, TI, 'atomic<unsigned long>', 'begin epoch')
    run_set, ep_set = _slot_setters(facts, run_f), _slot_setters(facts, ep_f)
    if not run_set or not ep_set:
        raise AnalysisBroken('R-LVE: setters of the running flag / begin epoch not found')
    sites = {}
    seen = {'rel': 0, 'clr': 0}

    def event(nd):
        """('rel' | 'clr' | 'epw', node) for stores into the two slot fields"""
        if nd['k'] not in CALL_KINDS:
            return None
        a = call_args(f, nd)
        if nd.get('callee') in run_set or (nd.get('callee') is None and False):
            return 'rel' if a and R.const_of(f, a[0]) == 'F' else 'run-set'
        if nd.get('callee') in ep_set:
            return 'clr' if a and cv_through(f, a[0]) == 0 else 'epw'
        if nd['k'] == 'CXXMemberCallExpr' and nd.get('cn') in ('store', 'exchange', 'compare_exchange_strong',
                                                                 'compare_exchange_weak'):
            r = f.strip(call_recv(f, nd), casts=True)
            if r is not None and r['k'] == 'MemberExpr' and r.get('name') == run_f:
                v = a[-1] if nd['cn'].startswith('compare') and len(a) >= 2 else (a[0] if a else None)
                if nd['cn'].startswith('compare'):
                    v = a[1]
                return 'rel' if v is not None and R.const_of(f, v) == 'F' else 'run-set'
            if r is not None and r['k'] == 'MemberExpr' and r.get('name') == ep_f:
                return 'clr' if a and cv_through(f, a[0]) == 0 else 'epw'
        return None

    def note(key, loc, ok, ctx, what):
        e = sites.setdefault(key, {'ok': True, 'loc': loc, 'path': None, 'what': what})
        if not ok and e['ok']:
            e['ok'] = False
            e['path'] = ctx.witness()
            e['what'] = what

    def step(ctx, nd, st):
        ev = event(nd)
        if ev == 'clr':
            seen['clr'] += 1
            if 'rel' in st:
                note('begin epoch written at ' + short_loc(nd), short_loc(nd), False, ctx,
                     'the begin epoch of the slot is written after the slot was released: a session that acquired the '
                     'slot in between has its published begin epoch erased and is invisible to the epoch thread')
            return st | {'clr'}
        if ev == 'epw':
            if 'rel' in st:
                note('begin epoch written at ' + short_loc(nd), short_loc(nd), False, ctx,
                     'the begin epoch of the slot is written after the slot was released')
            return st - {'clr'}
        if ev == 'rel':
            seen['rel'] += 1
            note('release at ' + short_loc(nd), short_loc(nd), 'clr' in st, ctx,
                 'the slot is released before its begin epoch was cleared')
            return st | {'rel'}
        if nd['k'] == 'ReturnStmt':
            if R.ret_const(f, nd) == 'yakushima::status::OK':
                note('return OK at ' + short_loc(nd), short_loc(nd), 'rel' in st, ctx,
                     'leave reports OK without having released the slot')
            return None
        return st

    Explorer(f, step).run(frozenset())
    S.require('R-LVE', 'slot releases in leave_thread_info', seen['rel'], 1)
    S.require('R-LVE', 'begin-epoch clears in leave_thread_info', seen['clr'], 1)
    for key, e in sorted(sites.items()):
        S.ob('R-LVE', f.qname, key, e['ok'],
             'begin epoch cleared before the slot is released, not touched afterwards' if e['ok'] else e['what'],
             loc=e['loc'], path=e['path'])


def rule_cap(S, extra=()):
    S.rule('R-CAP', 'compile-time witnesses: thread_info_table is a std::array with exactly '
                    'YAKUSHIMA_MAX_PARALLEL_SESSIONS elements; std::atomic<bool> and std::atomic<Epoch> are always '
                    'lock-free; Token is a raw pointer')
    n = witness.emit(S, 'C14', 'R-CAP', extra=extra)
    if not extra:
        S.require('R-CAP', 'witnesses', n, 4)


def run(S):
    S.undecided = ['mutual exclusion of tokens and the capacity bound over all interleavings (they follow from R-CAS + '
                   'CAS atomicity, which is trusted)',
                   'advisory, not armed: the stores in enter/leave are memory_order_relaxed; on x86-64 TSO no failing '
                   'execution can be shown']
    S.assumptions = ['std::atomic<bool>::compare_exchange_weak is atomic']
    rule_cas(S)
    rule_tok(S)
    rule_pub(S)
    rule_lve(S)
    from checks import C07
    C07.rule_walk(S)   # a session is counted by the reclamation protocol from the moment enter returns
    rule_cap(S)


def run_thorough(S):
    for n in (1, 2, 300):
        rule_cap(S, extra=('-DYAKUSHIMA_MAX_PARALLEL_SESSIONS=%d' % n,))
