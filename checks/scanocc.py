"""Typestate of the range readers (scan_border<V>, iscan_findnext): shared by C04, C06 and C10.

Events on the visited border `bn`:
  L   load of node state of bn (get_next / get_prev, permutation body, key slice/length, lv slot pointer and
      the slot word through it)                                   -> `pending` (unvalidated data in hand)
  C   c := (i)scan_check_retry(bn, v_at_fb[, perm])              -> data loaded before C is covered by C
  OK  the path has established c == status::OK (by elimination over the callee's return set)
  P   push of a result (tuple_list.emplace_back / out = value) or descent into a next layer loaded from bn
  NV  x := next->get_stable_version() (and the neighbour's permutation for iscan)
  H   hand-over to the neighbour: *target = next; v_at_fb = next_version  /  bn = to_bn; v_at_fb = to_version
Obligations:
  R-VAR  at P: nothing pending, and the covering check is known OK
  R-SNAP at every non-retry return: nothing pending / covering check OK (the visit is validated)
  R-RBK  at every retry edge (`goto retry*`, `return OK_RETRY_*`, early-abort return): outputs pushed by this
         visit were rolled back (scan_border), i.e. no push since the last clean-up
  R-ORD  at H: neighbour pointer and neighbour version (and permutation) were loaded before the final check, the
         final check is known OK, and exactly those values are handed over
  R-RV   at a value push for an out-of-line value type: the loaded word was tested non-null, or the check
         function itself compares the permutation word (iscan_check_retry)
"""
from yk.facts import (AnalysisBroken, CALL_KINDS, call_args, call_recv, is_call, root_var, short_loc, term, term_str,
                      vname)
from yk.flow import Explorer
from yk import rules as R

Y = 'yakushima::'
OK = Y + 'status::OK'
BN_LOADS = {Y + 'border_node::get_next', Y + 'border_node::get_prev', Y + 'base_node::get_key_slice_at',
            Y + 'base_node::get_key_length_at', Y + 'border_node::get_lv_at', Y + 'permutation::get_body',
            Y + 'border_node::get_permutation_cnk'}
SLOT_LOADS = {Y + 'link_or_value::get_value', Y + 'link_or_value::get_next_layer'}
STABLE = Y + 'base_node::get_stable_version'


def is_status(t):
    return (t or '').replace('const ', '').strip() == 'yakushima::status'


def check_fn_compares_perm(facts, q):
    """Does the check function re-compare the permutation word (then a remove is visible to it)?"""
    for g in facts.by_qname(q):
        for n in g.all_nodes():
            if is_call(n, cq=Y + 'permutation::get_body'):
                return True
    return False


def _from_next_layer(g, a, depth=0):
    """Is the expression (through local copies) the result of link_or_value::get_next_layer?"""
    for x in g.walk(a):
        if is_call(x, cq=Y + 'link_or_value::get_next_layer'):
            return True
        if x['k'] == 'DeclRefExpr' and x.get('dk') == 'var' and depth < 3:
            ini = R.var_decl_init(g, x.get('id'))
            if ini is not None and _from_next_layer(g, ini, depth + 1):
                return True
    return False


class RangeReader:
    def __init__(self, S, f, check_q, bn_var, vfb_var, mode):
        self.S = S
        self.f = f
        self.facts = S.facts()
        self.check_q = check_q
        self.bn = bn_var          # variable id of the visited border
        self.vfb = vfb_var
        self.mode = mode          # 'scan' | 'iscan'
        self.sites = {'push': {}, 'ret': {}, 'retry': {}, 'hand': {}, 'rv': {}}
        self.perm_visible = check_fn_compares_perm(self.facts, check_q)
        self.lambdas = {g.fid: g for g in self.facts.lambdas_of(f)}
        self.rollback = set()
        for g in self.lambdas.values():
            if any(n['k'] == 'CXXMemberCallExpr' and n.get('cn') in ('erase', 'resize', 'pop_back', 'clear') for n in g.all_nodes()):
                self.rollback.add(g.fid)
        self.visits = 0
        self.out_params = {p['id'] for p in f.params if p['type'].replace(' ', '') == 'void*&'}
        # variables whose comparisons make paths infeasible, found structurally (not by name):
        # neighbour pointers loaded from the visited border, and the key length loaded from it
        self.ptr_names = set()
        self.int_names = set()
        for g in [f] + list(self.lambdas.values()):
            for n in g.all_nodes():
                if n['k'] == 'DeclStmt':
                    for v in n.get('vars', []):
                        if 'init' not in v:
                            continue
                        for x in g.walk(v['init']):
                            if is_call(x, cq={Y + 'border_node::get_next', Y + 'border_node::get_prev'}) and \
                                    root_var(g, call_recv(g, x)) == self.bn:
                                self.ptr_names.add(vname(v['id']))
                            if is_call(x, cq=Y + 'base_node::get_key_length_at') and \
                                    root_var(g, call_recv(g, x)) == self.bn:
                                self.int_names.add(vname(v['id']))

    # -- helpers --------------------------------------------------------------
    def _site(self, kind, key, n, ok, why, ctx):
        e = self.sites[kind].setdefault(key, {'ok': True, 'loc': short_loc(n), 'path': None, 'why': ''})
        if not ok:
            if e['ok']:
                e['why'] = why
                e['path'] = ctx.witness()
            e['ok'] = False

    def covered_ok(self, st):
        pending, chk, fs = st[0], st[1], st[2]
        if pending:
            return False, 'node data loaded after the last version check'
        if chk is None and self.mode == 'iscan':
            return True, ''
        if chk is None:
            return False, 'no version check of the visited border on this path'
        v = R.facts_get(fs, chk)
        if v != 'in:' + OK:
            return False, 'the result of the version check is not established to be OK on this path (%s)' % (
                (v or 'unknown').replace('in:', '').replace(Y + 'status::', ''))
        return True, ''

    def run(self):
        f = self.f
        facts = self.facts
        me = self

        def mk(g):
            def step(ctx, n, st):
                pending, chk, fs, pushed, nbr, vp, vpok = st
                fs_before = fs
                fs = R.track_assign(g, n, fs, facts, tracked_types=(is_status,))
                k = n['k']
                if k in CALL_KINDS:
                    cq = n.get('cq')
                    if cq == me.check_q:
                        var = R.assigned_var(g, n)
                        a = call_args(g, n)
                        if a and root_var(g, a[0]) != me.bn:
                            return st[:2] + (fs,) + st[3:]
                        if var is None:
                            return (pending, None, fs, pushed, nbr, vp, vpok)
                        # neighbour loads made before this check are now covered by it
                        nbr = frozenset((v, 'covered', src) if s == 'loaded' else (v, s, src) for (v, s, src) in nbr)
                        return (False, var, fs, pushed, nbr, vp, vpok)
                    if cq in BN_LOADS and root_var(g, call_recv(g, n)) == me.bn:
                        if cq in (Y + 'border_node::get_next', Y + 'border_node::get_prev'):
                            p = g.parent(n)
                            if p is not None and p['k'] == 'ConditionalOperator':
                                p = g.parent(p)
                            if p is not None and p['k'] == 'DeclStmt':
                                nbr = frozenset(x for x in nbr if x[0] != p['vars'][0]['id']) | \
                                    {(p['vars'][0]['id'], 'loaded', 'ptr')}
                        return (True, chk, fs, pushed, nbr, vp, vpok)
                    if cq in SLOT_LOADS:
                        p = g.parent(n)
                        var = p['vars'][0]['id'] if (p is not None and p['k'] == 'DeclStmt') else None
                        if cq.endswith('get_value') and var:
                            return (True, chk, fs, pushed, nbr, var, False)
                        return (True, chk, fs, pushed, nbr, vp, vpok)
                    if cq == STABLE or cq == Y + 'permutation::get_body':
                        rv = root_var(g, call_recv(g, n))
                        names = {x[0] for x in nbr if x[2] == 'ptr'}
                        if rv in names:
                            var = R.assigned_var(g, n)
                            if var:
                                nbr = frozenset(x for x in nbr if x[0] != var) | {(var, 'loaded', 'of:' + rv)}
                            return (pending, chk, fs, pushed, nbr, vp, vpok)
                    if k == 'CXXOperatorCallExpr' and n.get('cn') == 'operator=' and \
                            n.get('mcls') == 'yakushima::node_version64_body':
                        a = [g.node(x) for x in n.get('args', [])]
                        l = g.strip(a[0]) if a else None
                        if l is not None and l['k'] == 'DeclRefExpr' and l.get('id') == me.vfb:
                            me._handover(ctx, g, n, l, a[1], (pending, chk, fs, pushed, nbr, vp, vpok))
                        return (pending, chk, fs, pushed, nbr, vp, vpok)
                    tg = R.lambda_target(facts, g, n)
                    if tg is not None:
                        if tg.fid in me.rollback:
                            return (pending, chk, fs, False, nbr, vp, vpok)
                        outs, ex2 = R.inline_states(facts, tg, (pending, chk, fs, pushed, nbr, vp, vpok), *mk(tg))
                        me.visits += ex2.visits
                        return list(outs)
                    # pushes
                    is_push = (n['k'] == 'CXXMemberCallExpr' and n.get('cn') in ('emplace_back', 'push_back') and
                               'std::tuple<std::basic_string' in (n.get('cq') or ''))
                    is_desc = (cq == Y + 'scan' and g.qname == Y + 'scan_border') or \
                              (cq == Y + 'find_border' and me.mode == 'iscan' and
                               any(_from_next_layer(g, a) for a in call_args(g, n)[:1]))
                    if is_push or is_desc:
                        ok, why = me.covered_ok((pending, chk, fs_before))
                        me._site('push', ('push value' if is_push else 'descent into next layer') + ' at ' + short_loc(n),
                                 n, ok, why, ctx)
                        if is_push:
                            me._site('rv', 'push value at ' + short_loc(n), n, vpok or me.perm_visible,
                                     'value word pushed after a version-only check', ctx)
                        return (pending, chk, fs, True, nbr, vp, vpok)
                    return (pending, chk, fs, pushed, nbr, vp, vpok)
                if me.mode == 'iscan' and k == 'BinaryOperator' and n.get('op') == '=':
                    lhs = g.strip(g.ch(n)[0])
                    if lhs is not None and lhs['k'] == 'DeclRefExpr' and lhs.get('dk') == 'parm' and \
                            (lhs.get('ty') or '') == 'void *' and lhs.get('id') in me.out_params:
                        ok, why = me.covered_ok((pending, chk, fs))
                        me._site('push', 'yield value at ' + short_loc(n), n, ok, why, ctx)
                        me._site('rv', 'yield value at ' + short_loc(n), n, vpok or me.perm_visible,
                                 'value word yielded after a version-only check', ctx)
                        return (pending, chk, fs, True, nbr, vp, vpok)
                    # hand-over: bn = to_bn ; v_at_fb = to_version
                    if lhs is not None and lhs['k'] == 'DeclRefExpr' and lhs.get('id') in (me.bn, me.vfb):
                        me._handover(ctx, g, n, lhs, g.ch(n)[1], (pending, chk, fs, pushed, nbr, vp, vpok))
                        return (pending, chk, fs, pushed, nbr, vp, vpok)
                if me.mode == 'scan' and k == 'BinaryOperator' and n.get('op') == '=':
                    lhs = g.strip(g.ch(n)[0])
                    is_target = lhs is not None and lhs['k'] == 'UnaryOperator' and lhs.get('op') == '*' and \
                        'border_node **' in (g.strip(g.ch(lhs)[0]) or {}).get('ty', '')
                    if is_target:
                        me._handover(ctx, g, n, lhs, g.ch(n)[1], (pending, chk, fs, pushed, nbr, vp, vpok))
                        return (pending, chk, fs, pushed, nbr, vp, vpok)
                if me.mode == 'scan' and k == 'CXXOperatorCallExpr' and n.get('cn') == 'operator=':
                    a = [g.node(x) for x in n.get('args', [])]
                    l = g.strip(a[0]) if a else None
                    if l is not None and l['k'] == 'DeclRefExpr' and l.get('id') == me.vfb:
                        me._handover(ctx, g, n, l, a[1], (pending, chk, fs, pushed, nbr, vp, vpok))
                        return (pending, chk, fs, pushed, nbr, vp, vpok)
                if k == 'ReturnStmt' and g is f:
                    rc = R.ret_const(g, n, fs)
                    trail = R.branch_trail(ctx.ex, ctx.key, g, 1)
                    site = '%s after [%s]' % (R.ret_desc(g, n), '; '.join(trail))
                    if rc and ('RETRY' in rc or rc.endswith('WARN_CONCURRENT_OPERATIONS')):
                        if me.mode == 'scan':
                            me._site('retry', site, n, not pushed,
                                     'results pushed by this visit are not rolled back before the retry status is returned', ctx)
                        return None
                    if rc and rc.endswith('WARN_ABORTED_BY_USER'):
                        return None
                    ok, why = me.covered_ok((pending, chk, fs))
                    me._site('ret', site, n, ok, why, ctx)
                    return None
                return (pending, chk, fs, pushed, nbr, vp, vpok)

            def branch(ctx, blk, idx, st):
                pending, chk, fs, pushed, nbr, vp, vpok = st
                fs2 = R.refine(g, blk, idx, fs, tracked=is_status, ints=tuple(me.int_names), ptrs=tuple(me.ptr_names))
                if fs2 is None:
                    return None
                if vp is not None and blk.term and 'cond' in blk.term:
                    flip, shape = R.cond_shape(g, blk.term['cond'])
                    if shape[0] == 'nonnull' and shape[1] == vp and ((idx == 0) != flip):
                        vpok = True
                if blk.term and blk.term.get('k') == 'GotoStmt' and me.mode == 'iscan' and \
                        (blk.term.get('label') or '') in ('retry_from_root', 'next_layer'):
                    # the cursor re-positions itself: a new visit starts, nothing read so far is used
                    return (False, None, fs2, False, frozenset(), None, False)
                # retry edges by goto: what this visit pushed must have been rolled back
                if blk.term and blk.term.get('k') == 'GotoStmt' and me.mode == 'scan' and \
                        (blk.term.get('label') or '').startswith('retry'):
                    e = me.sites['retry'].setdefault('goto %s at %s' % (blk.term['label'], short_loc(blk.term)),
                                                     {'ok': True, 'loc': short_loc(blk.term), 'path': None, 'why': ''})
                    if pushed:
                        if e['ok']:
                            e['path'] = ctx.witness()
                            e['why'] = 'results pushed by this visit are not rolled back before the retry'
                        e['ok'] = False
                return (pending, chk, fs2, pushed, nbr, vp, vpok)
            return step, branch

        step, branch = mk(f)

        # goto-retry edges: wrap step to look at GotoStmt terminators through block labels
        def step_with_goto(ctx, n, st):
            return step(ctx, n, st)

        ex = Explorer(f, step_with_goto, self._branch_with_goto(branch))
        ex.run((False, None, frozenset(), False, frozenset(), None, False))
        self.visits += ex.visits
        return self

    def _branch_with_goto(self, branch):
        return branch

    def _handover(self, ctx, g, n, lhs, rhs, st):
        pending, chk, fs, pushed, nbr, vp, vpok = st
        r = g.strip(rhs, casts=True)
        what = 'hand-over %s := %s' % (term_str(term(g, lhs)), term_str(term(g, rhs)))
        ok, why = self.covered_ok((pending, chk, fs))
        if ok:
            if r is None or r['k'] != 'DeclRefExpr':
                ok, why = False, 'the handed-over value is re-loaded instead of being the value loaded before the final check'
            else:
                ent = [x for x in nbr if x[0] == r.get('id')]
                if not ent:
                    ok, why = False, '%s is not a value loaded from the neighbour link before the final check' % r.get('name')
                elif ent[0][1] != 'covered':
                    ok, why = False, '%s was loaded after the final version check of the current border' % r.get('name')
        self._site('hand', what, n, ok, why, ctx)


def retry_goto_sites(S, f, rr, rule):
    """R-RBK for `goto retry`: examined through the label blocks (scan_border)."""
    pass
