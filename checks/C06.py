"""C06 - a concurrent insert is seen by the scan or invalidates its node-version set.

Decided (load ordering at node boundaries; DESIGN.md section 5 / C06):
  R-ORD  scan_border<V>: the neighbour pointer and the neighbour's stable version are loaded before the final
         scan_check_retry of the current border, that check is known OK, and exactly those values are handed over
  R-CHK  every visit is validated (push sites and non-retry exits covered by an OK check) - shared with C04
  R-SPL  border_split: the old border is marked splitting, then the new sibling receives a copy of that
         (locked, dirty) version word, and only then becomes reachable; its own links are set before that
  R-EQ   scan_check_retry returns OK only on full-word equality, OK_RETRY_FROM_ROOT on a vsplit change or deletion,
         and refreshes the caller's version before OK_RETRY_AFTER_FB
  R-BUMP an insert dirties the border it lands in (shared with C05)
"""
from yk.facts import AnalysisBroken, CALL_KINDS, call_args, call_recv, is_call, root_var, short_loc, term
from yk.flow import Explorer
from yk import rules as R
from checks import C04, occ
from checks.C05 import rule_bump

Y = 'yakushima::'
OKS = Y + 'status::OK'


def rule_ord(S):
    S.rule('R-ORD', 'scan_border<V> hand-over (*target = next; v_at_fb = next_version): both right-hand sides are '
                    'variables loaded (bn->get_next(), next->get_stable_version()) before the final '
                    'scan_check_retry(bn, v_at_fb), whose result is established OK on the path; nothing is re-loaded '
                    'after that check')
    S.rule('R-CHK', 'scan_border<V>: every push / descent and every non-retry return is covered by a '
                    'scan_check_retry(bn) established OK after the last load of the visited border')
    nh = nc = 0
    for f, rr in C04.readers(S):
        nh += C04.emit(S, 'R-ORD', 'hand', f, rr, 'the values loaded before the validated final check are handed over')
        nc += C04.emit(S, 'R-CHK', 'push', f, rr, 'validated')
        nc += C04.emit(S, 'R-CHK', 'ret', f, rr, 'validated')
        nc += C04.emit(S, 'R-CHK', 'retry', f, rr, 'rolled back before retry')
    S.require('R-ORD', 'hand-over stores of scan_border', nh, 4)
    S.require('R-CHK', 'validated sites of scan_border', nc, 20)


def rule_spl(S):
    facts = S.facts()
    S.rule('R-SPL', 'border_split: set_version_splitting(true) on the old border -> new_border->set_version(border->'
                    'get_version()) -> first publication of new_border (border->set_next(new_border), next->set_prev('
                    'new_border)); new_border->set_next / set_prev (its own links) precede the publication')
    f = facts.one(Y + 'border_split')
    bp = [p['id'] for p in f.params if p['type'].replace('const', '').replace(' ', '') == 'yakushima::border_node*']
    nb = [v['id'] for n in f.all_nodes() if n['k'] == 'DeclStmt' for v in n.get('vars', [])
          if 'init' in v and (f.strip(v['init'], casts=True) or {}).get('k') == 'CXXNewExpr' and
          'border_node' in v['type']]
    if len(bp) != 1 or len(nb) != 1:
        raise AnalysisBroken('R-SPL: border_split parameter / new sibling not found')
    b, nbv = bp[0], nb[0]
    res = {'pub': [], 'copy': []}

    def step(ctx, n, st):
        splitting, copied, own_next, own_prev = st
        if n['k'] not in CALL_KINDS:
            return st
        cq = n.get('cq')
        rv = root_var(f, call_recv(f, n)) if call_recv(f, n) is not None else None
        a = call_args(f, n)
        if cq == Y + 'base_node::set_version_splitting' and rv == b:
            return (bool(a) and R.const_of(f, a[0]) == 'T', copied, own_next, own_prev)
        if cq == Y + 'base_node::set_version' and rv == nbv:
            src = any(is_call(x, cq=Y + 'base_node::get_version') and root_var(f, call_recv(f, x)) == b
                      for x in f.walk(a[0])) if a else False
            res['copy'].append((short_loc(n), splitting and src, ctx.witness() if not (splitting and src) else None))
            return (splitting, splitting and src, own_next, own_prev)
        if cq == Y + 'border_node::set_next' and rv == nbv and not _is_direct(f, call_recv(f, n), nbv) is False:
            pass
        if cq == Y + 'border_node::set_next' and _is_direct(f, call_recv(f, n), nbv):
            return (splitting, copied, True, own_prev)
        if cq == Y + 'border_node::set_prev' and _is_direct(f, call_recv(f, n), nbv):
            return (splitting, copied, own_next, True)
        if cq in (Y + 'border_node::set_next', Y + 'border_node::set_prev') and a and root_var(f, a[0]) == nbv and \
                not _is_direct(f, call_recv(f, n), nbv):
            ok = copied and own_next and own_prev
            why = []
            if not copied:
                why.append('before the sibling received the locked splitting version')
            if not own_next or not own_prev:
                why.append('before its own next/prev links are set')
            res['pub'].append((short_loc(n), ok, ', '.join(why), ctx.witness() if not ok else None))
        return st

    Explorer(f, step).run((False, False, False, False))
    for loc, ok, path in res['copy']:
        S.ob('R-SPL', f.qname, 'version copy at ' + loc, ok,
             'the sibling receives the splitting (dirty, locked) word' if ok else
             'the version copied to the new sibling is not the splitting word of the old border', loc=loc, path=path)
    S.ob('R-SPL', f.qname, 'version copy exists', bool(res['copy']),
         'found' if res['copy'] else 'the new sibling never receives the locked version of the old border', loc=f.loc)
    for loc, ok, why, path in res['pub']:
        S.ob('R-SPL', f.qname, 'publication at ' + loc, ok,
             'the sibling is locked, dirty and linked before it becomes reachable' if ok else
             'the new sibling becomes reachable ' + why, loc=loc, path=path)
    S.require('R-SPL', 'publications of the new sibling', len(res['pub']), 2)


def _is_direct(f, recv, var):
    r = f.strip(recv, casts=True)
    return r is not None and r['k'] == 'DeclRefExpr' and r.get('id') == var


def rule_eq(S):
    facts = S.facts()
    S.rule('R-EQ', 'scan_check_retry(bn, v_at_fb): loads a stable version of bn; `return OK` only on the equality edge '
                   'of the full version word with v_at_fb; `return OK_RETRY_AFTER_FB` only with vsplit equal and not '
                   'deleted established, after storing the fresh version into v_at_fb; otherwise OK_RETRY_FROM_ROOT')
    f = facts.one(Y + 'scan_check_retry')
    vfb = [p['id'] for p in f.params if 'node_version64_body' in p['type']]
    bn = [p['id'] for p in f.params if 'border_node' in p['type']]
    if len(vfb) != 1 or len(bn) != 1:
        raise AnalysisBroken('R-EQ: scan_check_retry parameters not found')
    vfb, bn = vfb[0], bn[0]
    rets = {}

    def step(ctx, n, st):
        chk, eq, atoms, refreshed = st
        if is_call(n, cq=occ.STABLE) and root_var(f, call_recv(f, n)) == bn:
            p = f.parent(n)
            if p is not None and p['k'] == 'DeclStmt':
                return (p['vars'][0]['id'], None, frozenset(), False)
        if n['k'] == 'CXXOperatorCallExpr' and n.get('cn') == 'operator=':
            a = [root_var(f, x) for x in n.get('args', [])]
            if a and a[0] == vfb and len(a) > 1 and a[1] == chk:
                return (chk, eq, atoms, True)
        if n['k'] == 'ReturnStmt':
            rc = R.ret_const(f, n)
            d = dict(atoms)
            ok, why = True, ''
            if rc == OKS:
                ok = eq is True
                why = 'returns OK without the version word being equal to the validated one'
            elif rc == Y + 'status::OK_RETRY_AFTER_FB':
                ok = d.get('vsplit_eq') is True and d.get('deleted') is False and refreshed
                why = 'OK_RETRY_AFTER_FB although a split / deletion is not excluded, or v_at_fb is not refreshed'
            elif rc == Y + 'status::OK_RETRY_FROM_ROOT':
                ok = True
            else:
                ok, why = False, 'unexpected return value'
            e = rets.setdefault(R.ret_desc(f, n), {'ok': True, 'loc': short_loc(n), 'path': None, 'why': ''})
            if not ok:
                e['ok'] = False
                e['why'] = why
                e['path'] = e['path'] or ctx.witness()
            return None
        return st

    def branch(ctx, blk, idx, st):
        chk, eq, atoms, refreshed = st
        if blk.term and 'cond' in blk.term and len(blk.succ) == 2 and chk is not None:
            c = f.strip(blk.term['cond'], casts=True)
            if c is not None and c['k'] == 'CXXOperatorCallExpr' and c.get('cn') in ('operator==', 'operator!='):
                a = {root_var(f, x) for x in c.get('args', [])}
                if a == {chk, vfb}:
                    eq = (idx == 0) == (c['cn'] == 'operator==')
            d = dict(atoms)
            from yk.facts import vname
            for (atom, val, subj, other, direct) in occ.atoms_from_branch(f, blk, idx, None):
                if subj == ('var', vname(chk)):
                    d[atom] = val
            atoms = frozenset(d.items())
        return (chk, eq, atoms, refreshed)

    Explorer(f, step, branch).run((None, None, frozenset(), False))
    S.require('R-EQ', 'returns of scan_check_retry', len(rets), 3)
    for site, e in sorted(rets.items()):
        S.ob('R-EQ', f.qname, site, e['ok'], 'as specified' if e['ok'] else e['why'], loc=e['loc'], path=e['path'])


def run(S):
    S.undecided = ['the interleaving argument itself (that these orderings suffice for every schedule)']
    S.assumptions = ['acquire/release semantics of the version and link loads as annotated in the source']
    rule_ord(S)
    rule_spl(S)
    rule_eq(S)
    rule_bump(S)
    # the recorded pair must carry the version that was validated *before* the content was read (shared with C05)
    from checks.C05 import rule_rec
    rule_rec(S)
    from checks import C04
    S.rule('R-RBK', 'roll-back closures restore each container to the size recorded for that container (shared with C04)')
    C04.rule_rbk_sizes(S)
    # mechanisms this property rests on (checks/shared.py)
    from checks import shared
    shared.version_word(S)
    shared.descent(S)
