"""C17 - the node version word obeys the lock / dirty-bit / counter protocol.

Decided (field-effect summaries and CAS-loop typestate; DESIGN.md section 5 / C17):
  R-LAYV  bit-field layout of node_version64_body: eight unsigned bit-fields 29+1+1+1+29+1+1+1 = 64 without overlap,
          one lock-free atomic word with unique object representation
  R-BODY  every accessor of node_version64_body reads / writes exactly its own field
  R-CASL  every update of the shared word is a compare-exchange loop on a fresh copy carrying exactly the effect
          listed for the function; no other store to the word outside init / set_body
  R-MX    lock is a CAS from an unlocked word (same for tree_instance::root_lock)
  R-STB   get_stable_version returns the loaded word only after testing locked / inserting_deleting / splitting on it
  R-RAWV  raw stores of a version word only on unpublished nodes (shared with C08)
"""
from yk.facts import (AnalysisBroken, CALL_KINDS, call_args, call_recv, is_call, root_var, short_loc, term, term_str,
                      vname)
from yk.flow import Explorer
from yk import rules as R
from yk import witness

Y = 'yakushima::'
NVB = Y + 'node_version64_body'
NV = Y + 'node_version64'
FIELDS = [('vinsert_delete', 29), ('locked', 1), ('inserting_deleting', 1), ('splitting', 1), ('vsplit', 29),
          ('deleted', 1), ('root', 1), ('border', 1)]


def rule_layv(S):
    facts = S.facts()
    S.rule('R-LAYV', 'record layout of node_version64_body (clang ASTRecordLayout): eight unsigned bit-fields with the '
                     'documented widths, contiguous, non-overlapping, 64 bits in total; compile-time witnesses: size 8, '
                     'unique object representation (memcmp equality compares exactly the fields), '
                     'std::atomic<node_version64_body> always lock-free')
    rec = facts.records.get(NVB)
    if rec is None:
        raise AnalysisBroken('R-LAYV: record node_version64_body not found')
    fs = rec['fields']
    names = [f['name'] for f in fs]
    S.ob('R-LAYV', NVB, 'field set', sorted(names) == sorted(n for n, _ in FIELDS),
         'the eight protocol fields' if sorted(names) == sorted(n for n, _ in FIELDS) else
         'fields are %s' % names, loc=rec.get('loc'))
    spans = []
    for f in fs:
        w = f.get('bit_width')
        want = dict(FIELDS).get(f['name'])
        ok = w is not None and w == want and f.get('unsigned')
        S.ob('R-LAYV', NVB, 'field ' + f['name'], ok,
             'unsigned bit-field of %s bits at bit %d' % (w, f['bit_offset']) if ok else
             'field %s: width %s (documented %s), unsigned=%s' % (f['name'], w, want, f.get('unsigned')),
             loc=rec.get('loc'))
        if w:
            spans.append((f['bit_offset'], f['bit_offset'] + w, f['name']))
    spans.sort()
    overlap = any(a[1] > b[0] for a, b in zip(spans, spans[1:]))
    total = sum(b - a for a, b, _ in spans)
    S.ob('R-LAYV', NVB, 'no overlap, 64 bits', (not overlap) and total == 64 and rec['size'] == 8,
         'fields tile the 64-bit word' if ((not overlap) and total == 64 and rec['size'] == 8) else
         'fields overlap or do not fill one 64-bit word (total %d bits, size %d)' % (total, rec['size']),
         loc=rec.get('loc'))
    n = witness.emit(S, 'C17', 'R-LAYV')
    S.require('R-LAYV', 'compile-time witnesses', n, 6)


def field_of_this(f, n):
    n = f.strip(n, casts=True)
    if n is not None and n['k'] == 'MemberExpr' and (n.get('member') or '').startswith(NVB + '::'):
        b = f.strip(f.ch(n)[0], casts=True)
        if b is not None and b['k'] == 'CXXThisExpr':
            return n['name']
    return None


def rule_body(S):
    facts = S.facts()
    S.rule('R-BODY', 'node_version64_body: get_F reads only F and returns it; set_F(x) writes only F with its parameter; '
                     'inc_vinsert_delete / inc_vsplit are `++` on that one bit-field (wrap within the field); init '
                     'writes all eight fields')
    n = 0
    for f in facts.functions.values():
        if f.cls != NVB or f.is_lambda:
            continue
        nm = f.name
        reads, writes = set(), []
        for x in f.all_nodes():
            fld = field_of_this(f, x) if x['k'] == 'MemberExpr' else None
            if fld:
                p = f.parent(x, transparent=False)
                if p is not None and p['k'] in ('BinaryOperator',) and p.get('op') == '=' and f.strip(f.ch(p)[0]) is x:
                    writes.append((fld, 'assign', p))
                elif p is not None and p['k'] == 'UnaryOperator' and p.get('op') in ('++', '--'):
                    writes.append((fld, p['op'], p))
                elif p is not None and p['k'] == 'CompoundAssignOperator':
                    writes.append((fld, p['op'], p))
                else:
                    reads.add(fld)
        want = None
        ok = True
        why = ''
        if nm.startswith('get_') and nm[4:] in dict(FIELDS):
            fld = nm[4:]
            ok = reads == {fld} and not writes
            why = 'reads %s, writes %s' % (sorted(reads), [w[0] for w in writes])
        elif nm.startswith('set_') and nm[4:] in dict(FIELDS):
            fld = nm[4:]
            ok = len(writes) == 1 and writes[0][0] == fld and writes[0][1] == 'assign' and not reads
            if ok:
                rhs = f.ch(writes[0][2])[1]
                ok = root_var(f, rhs) == f.params[0]['id']
            why = 'reads %s, writes %s' % (sorted(reads), [(w[0], w[1]) for w in writes])
        elif nm in ('inc_vinsert_delete', 'inc_vsplit'):
            fld = nm[4:]
            ok = len(writes) == 1 and writes[0][0] == fld and writes[0][1] == '++' and reads <= {fld}
            why = 'writes %s' % [(w[0], w[1]) for w in writes]
        elif nm == 'init':
            ok = {w[0] for w in writes} == {x for x, _ in FIELDS} and all(w[1] == 'assign' for w in writes)
            why = 'writes %s' % sorted({w[0] for w in writes})
        else:
            continue
        n += 1
        S.ob('R-BODY', f.qname, 'effect', ok, 'touches exactly its own field' if ok else
             'accessor effect differs from its name: ' + why, loc=f.loc)
    S.require('R-BODY', 'accessors of node_version64_body', n, 17)


# effects: function name -> set of (method, const arg or 'param')
def expected_effect(fname, ins, spl):
    if fname.startswith('atomic_set_'):
        return {('set_' + fname[len('atomic_set_'):], 'param')}
    if fname == 'atomic_inc_vinsert':
        return {('inc_vinsert_delete', None)}
    if fname == 'lock':
        return {('set_locked', 'T')}
    if fname == 'unlock':
        e = {('set_locked', 'F')}
        if ins:
            e |= {('inc_vinsert_delete', None), ('set_inserting_deleting', 'F')}
        if spl:
            e |= {('inc_vsplit', None), ('set_splitting', 'F')}
        return e
    return None


def rule_casl(S):
    facts = S.facts()
    S.rule('R-CASL', 'node_version64::{atomic_set_*, atomic_inc_vinsert, lock, unlock}: on every path to '
                     'body_.compare_exchange_weak(expected, desired) the desired word was copied from the current '
                     'expected word (after the last load / failed CAS) and then modified by exactly the effect of the '
                     'function (unlock: locked := false, plus counter bump and flag clear for each dirty flag found set '
                     'on the copy, each guarded by the getter of its own flag); the function returns only after a '
                     'successful CAS; body_ is stored directly only by set_body')
    n = 0
    for f in facts.functions.values():
        if f.cls != NV or f.is_lambda or len(f.params) > 1:
            continue
        if expected_effect(f.name, False, False) is None:
            continue
        if f.name == 'unlock' and f.params:
            continue
        n += 1
        sites = {}
        exits = {'ok': True, 'path': None}
        param = f.params[0]['id'] if f.params else None

        def var_of(nd):
            x = f.strip(nd, casts=True)
            return x.get('id') if x is not None and x['k'] == 'DeclRefExpr' else None

        def step(ctx, nd, st):
            copied, mods, guards, success, bools = st
            k = nd['k']
            if k == 'DeclStmt' or (k == 'BinaryOperator' and nd.get('op') == '='):
                # bool local := getter of one flag of a word variable: a later branch on the local is a test of that
                # flag, as long as neither the word variable is re-assigned nor that flag set in between
                defs = []
                if k == 'DeclStmt':
                    defs = [(v['id'], f.node(v['init'])) for v in nd.get('vars', []) if 'init' in v and
                            (v.get('type') or '').replace('const ', '').strip() == 'bool']
                else:
                    lv = var_of(f.ch(nd)[0])
                    if lv is not None and (f.strip(f.ch(nd)[0], casts=True).get('ty') or '').strip() == 'bool':
                        defs = [(lv, f.ch(nd)[1])]
                for vid, init in defs:
                    bools = frozenset(x for x in bools if x[0] != vid)
                    t = term(f, init)
                    neg = False
                    while t[0] == 'un' and t[1] == '!':
                        neg = not neg
                        t = t[2]
                    if t[0] == 'call' and (t[1] or '').startswith(NVB + '::get_') and t[2] and t[2][0] == 'var':
                        bools = bools | {(vid, t[1].split('::get_')[1], t[2][1], neg)}
                    ci = f.strip(init, casts=True)
                    while ci is not None and ci['k'] == 'UnaryOperator' and ci.get('op') == '!':
                        ci = f.strip(f.ch(ci)[0], casts=True)
                    if ci is not None and ci['k'] == 'CXXMemberCallExpr' and \
                            ci.get('cn', '').startswith('compare_exchange'):
                        bools = bools | {(vid, '#cas', None, neg)}
                if defs:
                    return (copied, mods, guards, success, bools)
            if k == 'CXXOperatorCallExpr' and nd.get('cn') == 'operator=' and nd.get('mcls') == NVB:
                a = [var_of(x) for x in nd.get('args', [])]
                src_call = any(is_call(x, cq=NV + '::get_body') for x in f.walk(nd['args'][1]))
                if a[0] and a[1]:
                    # desired = expected (what was established about the source word still holds for the copy)
                    return ((a[0], a[1]), frozenset(), guards, False,
                            frozenset(x for x in bools if x[2] != vname(a[0])))
                if a[0] and src_call:
                    # expected = get_body(): any earlier copy is stale
                    return (None, frozenset(), frozenset(), False, frozenset())
                if a[0]:
                    return (copied, mods, guards, success, frozenset(x for x in bools if x[2] != vname(a[0])))
                return st
            if k == 'CXXMemberCallExpr' and nd.get('mcls') == NVB and copied and \
                    var_of(call_recv(f, nd)) == copied[0]:
                cn = nd.get('cn')
                if cn.startswith('set_') or cn.startswith('inc_'):
                    a = call_args(f, nd)
                    arg = None
                    if a:
                        c = R.const_of(f, a[0])
                        arg = c if c in ('T', 'F') else ('param' if var_of(a[0]) == param else 'other')
                    if cn.startswith('set_'):
                        bools = frozenset(x for x in bools if not (x[2] == vname(copied[0]) and x[1] == cn[4:]))
                    return (copied, mods | {(cn, arg)}, guards, False, bools)
                return st
            if k == 'CXXMemberCallExpr' and nd.get('cn') in ('compare_exchange_weak', 'compare_exchange_strong') and \
                    'atomic<yakushima::node_version64_body>' in (nd.get('cq') or ''):
                a = [var_of(x) for x in call_args(f, nd)[:2]]
                g = dict(guards)
                want = expected_effect(f.name, g.get('inserting_deleting') is True, g.get('splitting') is True)
                why = None
                if not copied or copied != (a[1], a[0]):
                    why = 'the desired word is not a copy of the current expected word (stale or never copied)'
                elif mods != want:
                    why = 'the modification applied to the copy is %s, the protocol effect on this path is %s' % (
                        sorted((m, str(x)) for m, x in mods), sorted((m, str(x)) for m, x in want))
                elif f.name == 'unlock' and (g.get('inserting_deleting') is None or g.get('splitting') is None):
                    why = 'a dirty flag is not tested on the copy before the CAS'
                elif f.name == 'lock' and g.get('locked') is not False:
                    why = 'the CAS is attempted although the loaded word was not established unlocked'
                trail = R.branch_trail(ctx.ex, ctx.key, f, 2)
                e = sites.setdefault('CAS after [%s]' % '; '.join(trail), {'ok': True, 'loc': short_loc(nd), 'path': None, 'why': ''})
                if why:
                    e['ok'] = False
                    e['why'] = why
                    e['path'] = e['path'] or ctx.witness()
                return st
            if k == 'ReturnStmt':
                if not success:
                    exits['ok'] = False
                    exits['path'] = exits['path'] or ctx.witness()
                return None
            return st

        def branch(ctx, blk, idx, st):
            copied, mods, guards, success, bools = st
            if blk.term and 'cond' in blk.term and len(blk.succ) == 2:
                c = f.strip(blk.term['cond'], casts=True)
                t = term(f, blk.term['cond'])
                neg = False
                while t[0] == 'un' and t[1] == '!':
                    neg = not neg
                    t = t[2]
                truth = (idx == 0) != neg
                if t[0] == 'var':
                    bound = [x for x in bools if vname(x[0]) == t[1]]
                    if len(bound) == 1 and bound[0][1] != '#cas':
                        # the local stands for the flag getter it was bound to
                        t = ('call', NVB + '::get_' + bound[0][1], ('var', bound[0][2]))
                        truth = truth != bound[0][3]
                    if len(bound) == 1 and bound[0][1] == '#cas':
                        if truth:
                            return (copied, mods, guards, True, bools)
                        return (None, frozenset(), frozenset(), False, frozenset())
                if t[0] == 'call' and (t[1] or '').startswith(NVB + '::get_') and t[2] and t[2][0] == 'var':
                    fld = t[1].split('::get_')[1]
                    subj_ok = copied is not None and t[2][1] in (vname(copied[0]), vname(copied[1]))
                    if f.name == 'lock':
                        subj_ok = True
                    if subj_ok:
                        g = dict(guards)
                        g[fld] = truth
                        guards = frozenset(g.items())
                cneg = False
                while c is not None and c['k'] == 'UnaryOperator' and c.get('op') == '!':
                    cneg = not cneg
                    c = f.strip(f.ch(c)[0], casts=True)
                if c is not None and c['k'] == 'CXXMemberCallExpr' and c.get('cn', '').startswith('compare_exchange'):
                    if (idx == 0) != cneg:
                        return (copied, mods, guards, True, bools)
                    return (None, frozenset(), frozenset(), False, frozenset())  # failed CAS refreshed expected: copy is stale
            return (copied, mods, guards, success, bools)

        ex = Explorer(f, step, branch)
        ex.run((None, frozenset(), frozenset(), False, frozenset()))
        falloff_bad = [s for s in ex.exit_states if not s[3]]
        S.ob('R-CASL', f.qname, 'has a CAS', bool(sites), 'updates through compare-exchange' if sites else
             'the function no longer updates the word through a compare-exchange', loc=f.loc)
        for site, e in sorted(sites.items()):
            S.ob('R-CASL', f.qname, site, e['ok'], 'fresh copy + exact effect' if e['ok'] else e['why'], loc=e['loc'],
                 path=e['path'])
        S.ob('R-CASL', f.qname, 'leaves only after a successful CAS', exits['ok'] and not falloff_bad,
             'every exit follows the success edge' if (exits['ok'] and not falloff_bad) else
             'the function can return without having installed its update', loc=f.loc, path=exits['path'])
    S.require('R-CASL', 'CAS-loop functions of node_version64', n, 8)
    # direct stores to body_
    stores = []
    for f in facts.functions.values():
        if f.cls != NV:
            continue
        for x in f.all_nodes():
            if x['k'] == 'CXXMemberCallExpr' and x.get('cn') in ('store', 'exchange', 'operator=') and \
                    'atomic<yakushima::node_version64_body>' in (x.get('cq') or ''):
                stores.append((f, x))
    bad = [(f, x) for f, x in stores if f.name not in ('set_body',)]
    S.ob('R-CASL', NV, 'plain stores of the word', not bad and bool(stores),
         'only set_body stores the word directly' if (not bad and stores) else
         '%s stores the version word without a compare-exchange' % (bad[0][0].qname if bad else 'nobody'),
         loc=short_loc(bad[0][1]) if bad else None)
    # who may call set_body: a plain store overwrites the whole word, so a compare-exchange another thread completes on
    # a different field between the caller's load and this store is lost (the root bit is updated by the holder of the
    # PARENT's lock, not of the node's own lock)
    RAW_OK = {NV + '::init': 'resets the word of a node that is being initialised',
              Y + 'base_node::set_version': 'the raw-store entry point; its call sites are decided by R-RAWV (unpublished '
                                            'nodes only)'}
    callers = []
    for f in facts.functions.values():
        if not f.blocks:
            continue
        for x in f.all_nodes():
            if is_call(x, cq=NV + '::set_body'):
                callers.append((f, x))
    badc = [(f, x) for f, x in callers if f.qname not in RAW_OK]
    S.ob('R-CASL', NV + '::set_body', 'callers of the plain store', not badc and bool(callers),
         'called only by %s' % ', '.join(sorted({f.qname for f, _ in callers})) if (not badc and callers) else
         ('%s stores a whole version word it loaded earlier (get_body ... set_body) instead of updating the field '
          'through a compare-exchange: an update another thread makes to a different field in between is overwritten'
          % badc[0][0].qname if badc else 'nobody calls set_body'),
         loc=short_loc(badc[0][1]) if badc else None)


def rule_mx(S):
    facts = S.facts()
    S.rule('R-MX', 'tree_instance::root_lock: the compare-exchange on root_lock_ is reached only after the loaded flag '
                   'was found false, desires true, and the function returns only on its success edge; root_unlock stores '
                   'false (node_version64::lock is covered by R-CASL)')
    f = facts.one(Y + 'tree_instance::root_lock')
    res = {'cas': {}, 'ret_ok': True, 'path': None}

    def step(ctx, nd, st):
        fs, success = st
        if not (nd['k'] == 'CXXMemberCallExpr' and nd.get('cn', '').startswith('compare_exchange')):
            fs = R.track_assign(f, nd, fs, facts)
        if nd['k'] == 'CXXMemberCallExpr' and nd.get('cn', '').startswith('compare_exchange'):
            a = call_args(f, nd)
            ev = f.strip(a[0], casts=True)
            exp_false = ev is not None and ev['k'] == 'DeclRefExpr' and R.facts_get(fs, ev['id']) == 'F'
            dv = f.strip(a[1], casts=True)
            des_true = R.const_of(f, a[1]) == 'T' or (dv is not None and dv['k'] == 'DeclRefExpr' and
                                                      R.facts_get(fs, dv['id']) == 'T')
            e = res['cas'].setdefault(short_loc(nd), {'ok': True, 'path': None})
            if not (exp_false and des_true):
                e['ok'] = False
                e['path'] = ctx.witness()
            return (fs, False)
        if nd['k'] == 'ReturnStmt':
            if not success:
                res['ret_ok'] = False
                res['path'] = ctx.witness()
            return None
        return (fs, success)

    def branch(ctx, blk, idx, st):
        fs, success = st
        fs2 = R.refine(f, blk, idx, fs)
        if fs2 is None:
            return None
        if blk.term and 'cond' in blk.term:
            c = f.strip(blk.term['cond'], casts=True)
            if c is not None and c['k'] == 'CXXMemberCallExpr' and c.get('cn', '').startswith('compare_exchange'):
                return (fs2, idx == 0)
        return (fs2, success)

    Explorer(f, step, branch).run((frozenset(), False))
    for loc, e in sorted(res['cas'].items()):
        S.ob('R-MX', f.qname, 'CAS at ' + loc, e['ok'], 'CAS from false to true' if e['ok'] else
             'the root lock is taken by a CAS that does not go from unlocked to locked', loc=loc, path=e['path'])
    S.ob('R-MX', f.qname, 'returns only holding the lock', res['ret_ok'] and bool(res['cas']),
         'every return follows a successful CAS' if res['ret_ok'] else 'root_lock can return without owning the lock',
         loc=f.loc, path=res['path'])
    g = facts.one(Y + 'tree_instance::root_unlock')
    ok = any(x['k'] == 'CXXMemberCallExpr' and x.get('cn') == 'store' and R.const_of(g, call_args(g, x)[0]) == 'F'
             for x in g.all_nodes())
    S.ob('R-MX', g.qname, 'stores false', ok, 'releases by storing false' if ok else 'root_unlock does not store false',
         loc=g.loc)


def rule_stb(S):
    facts = S.facts()
    S.rule('R-STB', 'node_version64::get_stable_version: the returned value is the local loaded from body_ in the same '
                    'iteration on which get_inserting_deleting(), get_locked() and get_splitting() were all evaluated '
                    'false')
    f = facts.one(NV + '::get_stable_version')
    rets = {}

    def step(ctx, nd, st):
        var, atoms = st
        if is_call(nd, cq=NV + '::get_body'):
            v = R.assigned_var(f, nd)
            if v:
                return (v, frozenset())
        if nd['k'] == 'ReturnStmt':
            rv = root_var(f, f.ch(nd)[0]) if f.ch(nd) else None
            d = dict(atoms)
            ok = rv == var and all(d.get(x) is False for x in ('locked', 'inserting_deleting', 'splitting'))
            e = rets.setdefault(short_loc(nd), {'ok': True, 'path': None, 'why': ''})
            if not ok:
                e['ok'] = False
                e['path'] = ctx.witness()
                e['why'] = 'returned although not established clear: ' + ', '.join(
                    x for x in ('locked', 'inserting_deleting', 'splitting') if d.get(x) is not False)
            return None
        return st

    def branch(ctx, blk, idx, st):
        var, atoms = st
        if var and blk.term and 'cond' in blk.term and len(blk.succ) == 2:
            t = term(f, blk.term['cond'])
            neg = False
            while t[0] == 'un' and t[1] == '!':
                neg = not neg
                t = t[2]
            truth = (idx == 0) != neg
            if t[0] == 'call' and (t[1] or '').startswith(NVB + '::get_') and t[2] == ('var', vname(var)):
                d = dict(atoms)
                d[t[1].split('::get_')[1]] = truth
                atoms = frozenset(d.items())
        return (var, atoms)

    Explorer(f, step, branch).run((None, frozenset()))
    S.require('R-STB', 'returns of get_stable_version', len(rets), 1)
    for loc, e in sorted(rets.items()):
        S.ob('R-STB', f.qname, 'return at ' + loc, e['ok'], 'a clean, unlocked word is returned' if e['ok'] else e['why'],
             loc=loc, path=e['path'])


def run(S):
    S.undecided = ['mutual exclusion and "equal stable versions => no completed insert/split in between" as statements '
                   'over interleavings (they follow from the above plus atomicity of the hardware CAS, the trusted base)',
                   'ABA after 2^29 increments']
    S.assumptions = ['std::atomic<node_version64_body>::compare_exchange_weak is an atomic 64-bit CAS']
    rule_layv(S)
    rule_body(S)
    rule_casl(S)
    rule_mx(S)
    rule_stb(S)
    from checks.C08 import rule_rawv
    from checks.lockfam import lock_analysis
    rule_rawv(S, lock_analysis(S.facts()))
