"""C07 - memory handed out inside a session stays valid until that session leaves.

Decided (reclamation discipline; DESIGN.md section 5 / C07):
  R-WMF  who may free: every delete / ::operator delete / value::delete_value site belongs to one class of a frozen
         table (GC-guarded, teardown, speculative-unpublished, primitive, one named exception); speculative sites
         act on an object that was never published on that path
  R-RET  unlink => retire with the retiring session's begin epoch
  R-GCG  the GC frees only entries whose tag is below the GC epoch, and tag-comparison strictness plus the
         subtracted slack give at least 2 epochs of distance from the minimum begin epoch
  R-MIN  the GC epoch is derived from the minimum over *non-zero* begin epochs (0 = slot not in a session)
  R-ADV  the global epoch is incremented only after every session was seen at the current epoch (or on shutdown)
  R-PUB  enter publishes the begin epoch before it returns; leave clears it (shared with C14)
"""
from yk.facts import (AnalysisBroken, CALL_KINDS, call_args, call_recv, cv_through, is_call, root_var, short_loc, term,
                      term_str, vname)
from yk.flow import Explorer
from yk import rules as R

Y = 'yakushima::'
GC = Y + 'garbage_collection'
OKS = Y + 'status::OK'

FREE_TABLE = {
    GC + '::gc_node': ('gc-guarded', 'free below the GC epoch (R-GCG)'),
    GC + '::gc_value': ('gc-guarded', 'free below the GC epoch (R-GCG)'),
    GC + '::fin': ('teardown', 'single-threaded drain in fin()'),
    Y + 'destroy': ('teardown', 'single-threaded teardown of all storages'),
    Y + 'storage::delete_storage': ('teardown', 'the dropped tree is unreachable: its name was removed first'),
    Y + 'border_node::destroy': ('teardown', 'recursive teardown'),
    Y + 'interior_node::destroy': ('teardown', 'recursive teardown'),
    Y + 'link_or_value::destroy': ('teardown', 'recursive teardown'),
    Y + 'iscan_close': ('teardown', 'cursor owned by the caller'),
    Y + 'put': ('speculative', 'root border that lost the CAS, never published'),
    Y + 'storage::create_storage': ('speculative', 'root border of a storage whose unique insert failed'),
    Y + 'value::delete_value': ('primitive', 'the release primitive itself'),
    Y + 'link_or_value::set_value': ('exception', 'old_value == nullptr: only reachable from the insert into a fresh '
                                                  'slot (every overwrite of a looked-up entry passes old_value, checked '
                                                  'at the call sites)'),
}


def free_sites(f):
    out = []
    for n in f.all_nodes():
        if n['k'] == 'CXXDeleteExpr':
            out.append((n, 'delete'))
        elif n['k'] in CALL_KINDS and n.get('cq') == 'operator delete' and not n.get('mcls'):
            out.append((n, '::operator delete'))
        elif is_call(n, cq=Y + 'value::delete_value'):
            out.append((n, 'value::delete_value'))
    return out


def enclosing(facts, f):
    while f is not None and f.is_lambda and f.enclosing:
        f = facts.get(f.enclosing)
    return f


def rule_wmf(S):
    facts = S.facts()
    S.rule('R-WMF', 'every delete / ::operator delete / value::delete_value call in the library sits in a function of '
                    'the frozen table {gc_node, gc_value | fin, destroy, delete_storage, *::destroy, iscan_close | put '
                    '(lost root CAS), create_storage (failed insert) | value::delete_value | link_or_value::set_value '
                    'with old_value == nullptr}; speculative sites delete an object allocated by the same function '
                    'that is unpublished on every path to the delete')
    n = 0
    for f in facts.functions.values():
        sites = free_sites(f)
        if not sites:
            continue
        ef = enclosing(facts, f)
        cls = FREE_TABLE.get(ef.qname)
        for (nd, kind) in sites:
            n += 1
            ok = cls is not None
            if ok and cls[0] == 'speculative' and kind != 'delete':
                # a speculative site may only `delete` the object this function allocated and never published
                # (decided path-wise below); any other release here frees something readers may still see
                ok = False
            what = '%s site: %s' % (cls[0], cls[1]) if ok else \
                'release outside the frozen who-may-free table: an object reachable by concurrent readers must be ' \
                'retired to the GC queues, not freed'
            fname = ef.qname + ('<%s>' % ef.targs if ef.targs else '')
            S.ob('R-WMF', fname, '%s at %s' % (kind, short_loc(nd)), ok, what, loc=short_loc(nd))
    S.require('R-WMF', 'release sites', n, 15)
    # link_or_value::set_value: the direct free only under old_value == nullptr
    sv = facts.one(Y + 'link_or_value::set_value')
    ov = [p['id'] for p in sv.params if p['name'] == 'old_value' or p['type'].replace(' ', '') == 'yakushima::value**']
    res = {'ok': True, 'path': None, 'seen': False}

    def step(ctx, nd, st):
        if is_call(nd, cq=Y + 'value::delete_value'):
            res['seen'] = True
            if st != 'null':
                res['ok'] = False
                res['path'] = ctx.witness()
        return st

    def branch(ctx, blk, idx, st):
        if blk.term and 'cond' in blk.term and len(blk.succ) == 2:
            flip, shape = R.cond_shape(sv, blk.term['cond'])
            if shape[0] == 'nonnull' and ov and shape[1] == ov[0]:
                return 'nonnull' if ((idx == 0) != flip) else 'null'
        return st

    Explorer(sv, step, branch).run('?')
    S.ob('R-WMF', sv.qname, 'direct free only when no old_value out-pointer is given', res['ok'],
         ('guarded by old_value == nullptr' if res['seen'] else 'set_value frees nothing itself') if res['ok'] else
         'the displaced value can be freed although the caller asked for it',
         loc=sv.loc, path=res['path'])
    # callers of set_value: an existing entry's slot may hold an out-of-line value whatever the value type of the call is
    # (finding F9), so whoever overwrites an entry found by a lookup must take the displaced value and retire it
    ncall = 0
    for f in facts.functions.values():
        for nd in f.all_nodes():
            if not is_call(nd, cq=Y + 'link_or_value::set_value'):
                continue
            ncall += 1
            args = call_args(f, nd)
            third = f.strip(args[2], casts=True) if len(args) > 2 else None
            takes_old = third is not None and third['k'] != 'CXXDefaultArgExpr' and R.const_of(f, third) != 'null'
            rv = root_var(f, call_recv(f, nd))
            looked_up = False
            if rv is not None:
                for x in f.all_nodes():
                    if x['k'] in CALL_KINDS and (x.get('cn') or '').startswith('get_lv_of') and R.assigned_var(f, x) == rv:
                        looked_up = True
            ef = enclosing(facts, f)
            fname = ef.qname + ('<%s>' % ef.targs if ef.targs else '')
            if looked_up:
                S.ob('R-WMF', fname, 'set_value on an entry found by lookup at %s' % short_loc(nd), takes_old,
                     'the displaced value is handed to the caller (old_value out-pointer) and retired' if takes_old else
                     'overwrites an existing entry without taking the displaced value: set_value frees it at once '
                     'although open sessions may hold it (the slot can hold an out-of-line value even when the new '
                     'value is inline)', loc=short_loc(nd))
            else:
                fresh = ef.qname in (Y + 'border_node::insert_lv_at', Y + 'border_node::set_lv_value')
                S.ob('R-WMF', fname, 'set_value without lookup at %s' % short_loc(nd), fresh or takes_old,
                     'fresh slot of an insert (nothing displaced)' if fresh else
                     ('takes the displaced value' if takes_old else
                      'set_value without old_value outside the insert path: a displaced value would be freed at once'),
                     loc=short_loc(nd))
    S.require('R-WMF', 'call sites of link_or_value::set_value', ncall, 3)
    # speculative sites
    for q, arg in ((Y + 'put', None), (Y + 'storage::create_storage', None)):
        for f in facts.by_qname(q):
            if not free_sites(f):
                continue
            _speculative(S, facts, f)


def _speculative(S, facts, f):
    fresh = {v['id'] for n in f.all_nodes() if n['k'] == 'DeclStmt' for v in n.get('vars', [])
             if 'init' in v and (f.strip(v['init'], casts=True) or {}).get('k') == 'CXXNewExpr'}
    alias = {}
    for n in f.all_nodes():
        if n['k'] == 'DeclStmt':
            for v in n.get('vars', []):
                if 'init' in v:
                    r = root_var(f, v['init'])
                    if r in fresh and v['id'] not in fresh:
                        alias[v['id']] = r
    holders = {v['id'] for n in f.all_nodes() if n['k'] == 'DeclStmt' for v in n.get('vars', [])
               if v['type'].replace('const ', '') == 'yakushima::tree_instance'}
    sites = {}

    def step(ctx, nd, st):
        pub, held_in, cond, fs = st
        fs = R.track_assign(f, nd, fs, facts)
        if nd['k'] == 'CXXDeleteExpr':
            v = root_var(f, f.ch(nd)[0])
            v = alias.get(v, v)
            e = sites.setdefault(short_loc(nd), {'ok': True, 'path': None, 'why': ''})
            why = None
            if v not in fresh:
                why = 'deletes an object this function did not allocate'
            elif v in pub:
                why = 'the object may already be published (visible to concurrent readers) on this path'
            else:
                for (x, r) in cond:
                    if x == v:
                        val = R.facts_get(fs, r)
                        if not (val and val.startswith('in:') and OKS not in val[3:].split('|')):
                            why = 'the insert that publishes the object is not established to have failed'
            if why:
                e['ok'] = False
                e['why'] = why
                e['path'] = e['path'] or ctx.witness()
            return (pub, held_in, cond, fs)
        if nd['k'] in CALL_KINDS:
            cq = nd.get('cq')
            a = call_args(f, nd)
            if cq == Y + 'tree_instance::store_root_ptr' and a:
                v = alias.get(root_var(f, a[0]), root_var(f, a[0]))
                h = root_var(f, call_recv(f, nd))
                if v in fresh:
                    if h in holders:
                        return (pub, held_in | {(h, v)}, cond, fs)
                    return (pub | {v}, held_in, cond, fs)
            if cq in (Y + 'border_node::set_next', Y + 'interior_node::set_child_at', Y + 'border_node::set_lv_next_layer',
                      Y + 'link_or_value::set_next_layer', Y + 'interior_node::insert'):
                for x in a:
                    v = alias.get(root_var(f, x), root_var(f, x))
                    if v in fresh:
                        pub = pub | {v}
                return (pub, held_in, cond, fs)
            for x in a:
                xx = f.strip(x, casts=True)
                if xx is not None and xx['k'] == 'UnaryOperator' and xx.get('op') == '&':
                    h = root_var(f, xx)
                    for (hh, v) in held_in:
                        if hh == h:
                            r = R.assigned_var(f, nd)
                            if r:
                                cond = cond | {(v, r)}
        return (pub, held_in, cond, fs)

    def branch(ctx, blk, idx, st):
        pub, held_in, cond, fs = st
        fs2 = R.refine(f, blk, idx, fs)
        if fs2 is None:
            return None
        if blk.term and 'cond' in blk.term and len(blk.succ) == 2:
            c = f.strip(blk.term['cond'], casts=True)
            if c is not None and is_call(c, cq=Y + 'tree_instance::cas_root_ptr') and idx == 0:
                for x in call_args(f, c):
                    v = root_var(f, x)
                    v = alias.get(v, v)
                    if v in fresh:
                        pub = pub | {v}
        return (pub, held_in, cond, fs2)

    Explorer(f, step, branch).run((frozenset(), frozenset(), frozenset(), frozenset()))
    fname = f.qname + ('<%s>' % f.targs if f.targs else '')
    for loc, e in sorted(sites.items()):
        S.ob('R-WMF', fname, 'speculative delete at ' + loc, e['ok'],
             'the object is unpublished on every path to this delete' if e['ok'] else e['why'], loc=loc, path=e['path'])


def rule_ret(S):
    facts = S.facts()
    S.rule('R-RET', 'every push_value_container / push_node_container is tagged with get_begin_epoch() of the same '
                    'thread_info whose queue receives it, derived from the operation\'s own Token; a border / interior '
                    'that marks itself deleted and detaches from its parent queues itself on every such path; '
                    'delete_at queues the value before clearing the slot')
    n = 0
    for f in facts.functions.values():
        for nd in f.all_nodes():
            if is_call(nd, cq={GC + '::push_value_container', GC + '::push_node_container'}):
                ef = enclosing(facts, f)
                if ef.cls == GC:
                    continue
                n += 1
                q = f.strip(call_recv(f, nd), casts=True)
                if q is not None and is_call(q, cq=Y + 'thread_info::get_gc_info'):
                    q = call_recv(f, q)
                owner = root_var(f, q)
                a = call_args(f, nd)
                tag_ok = False
                # the epoch component is the first element of the braced tuple; it must be exactly
                # <owner>->get_begin_epoch(), not an expression computed from it
                tup = f.strip(a[0], casts=True) if a else None
                first = None
                if tup is not None:
                    kids = [f.strip(c, casts=True) for c in (tup.get('args') or tup.get('ch') or [])]
                    kids = [k_ for k_ in kids if k_ is not None]
                    first = kids[0] if kids else None
                if first is not None and is_call(first, cq=Y + 'thread_info::get_begin_epoch'):
                    tag_ok = root_var(f, call_recv(f, first)) == owner
                ini = R.var_decl_init(f, owner) if owner else None
                if ini is None and owner and f.is_lambda:
                    # a captured variable: its definition is in the enclosing function
                    g = f
                    while ini is None and g.is_lambda and g.enclosing:
                        g = facts.get(g.enclosing)
                        ini = R.var_decl_init(g, owner)
                    if ini is not None:
                        from_token = any(x['k'] == 'DeclRefExpr' and (x.get('ty') or '') == 'void *' and x.get('dk') == 'parm'
                                         for x in g.walk(ini))
                        fname = ef.qname + ('<%s>' % ef.targs if ef.targs else '')
                        S.ob('R-RET', fname, 'retire at ' + short_loc(nd), tag_ok and from_token,
                             'tagged with the begin epoch of the operation\'s own session' if (tag_ok and from_token) else
                             'retired object is not tagged with get_begin_epoch() of the session whose queue receives it '
                             '[own epoch=%s, session from token=%s]' % (tag_ok, from_token), loc=short_loc(nd))
                        continue
                from_token = ini is not None and any(
                    x['k'] == 'DeclRefExpr' and (x.get('ty') or '') == 'void *' and x.get('dk') == 'parm'
                    for x in f.walk(ini))
                fname = ef.qname + ('<%s>' % ef.targs if ef.targs else '')
                S.ob('R-RET', fname, 'retire at ' + short_loc(nd), tag_ok and from_token,
                     'tagged with the begin epoch of the operation\'s own session' if (tag_ok and from_token) else
                     'retired object is not tagged with get_begin_epoch() of the session whose queue receives it '
                     '[own epoch=%s, session from token=%s]' % (tag_ok, from_token), loc=short_loc(nd))
    S.require('R-RET', 'retire sites', n, 4)
    # detach => retire (nodes)
    for q in (Y + 'border_node::delete_of', Y + 'interior_node::delete_of'):
        for f in facts.by_qname(q):
            if not any(is_call(x, cq=Y + 'base_node::set_version_deleted') for x in f.all_nodes()):
                continue
            res = {}

            def step(ctx, nd, st):
                if nd['k'] in CALL_KINDS:
                    cq = nd.get('cq')
                    if cq in (Y + 'border_node::delete_of', Y + 'interior_node::delete_of') and \
                            any(x['k'] == 'CXXThisExpr' for a in call_args(f, nd) for x in f.walk(a)):
                        return 'detached'
                    if cq in (Y + 'interior_node::swap_child', Y + 'link_or_value::set_next_layer') and st == 'deleted':
                        return 'detached'
                    if cq == Y + 'tree_instance::store_root_ptr' and st == 'deleted':
                        return 'detached'
                    if cq == Y + 'base_node::set_version_deleted' and root_var(f, call_recv(f, nd)) == 'this' and \
                            R.const_of(f, call_args(f, nd)[0]) == 'T':
                        return 'deleted' if st == 'live' else st
                    if cq == GC + '::push_node_container':
                        if any(x['k'] == 'CXXThisExpr' for a in call_args(f, nd) for x in f.walk(a)):
                            return 'retired'
                if nd['k'] == 'ReturnStmt':
                    if st == 'detached':
                        res.setdefault(short_loc(nd), ctx.witness())
                    return None
                return st

            ex = Explorer(f, step)
            ex.run('live')
            bad_fall = [s for s in ex.exit_states if s == 'detached']
            fname = f.qname + ('<%s>' % f.targs if f.targs else '')
            S.ob('R-RET', fname, 'detach => retire', not res and not bad_fall,
                 'every path that detaches the deleted node queues it for the GC' if (not res and not bad_fall) else
                 'a path detaches the deleted node from its parent without retiring it (leak) or retires nothing',
                 loc=(sorted(res)[0] if res else f.loc), path=(res[sorted(res)[0]] if res else None))
    da = facts.one(Y + 'border_node::delete_at')
    order = {'ok': None, 'path': None}

    def step2(ctx, nd, st):
        if is_call(nd, cq=GC + '::push_value_container'):
            return 'Y'
        if is_call(nd, cq=Y + 'link_or_value::init_lv'):
            if st != 'Y':
                order['ok'] = False
                order['path'] = ctx.witness()
            elif order['ok'] is None:
                order['ok'] = True
        return st

    Explorer(da, step2).run('N')
    S.ob('R-RET', da.qname, 'slot cleared only after the value is queued', order['ok'] is True,
         'retire precedes the clearing of the slot' if order['ok'] else
         'the slot is cleared on a path that did not queue the value (leak) or is never cleared', loc=da.loc,
         path=order['path'])


def rule_gcg(S):
    facts = S.facts()
    S.rule('R-GCG', 'gc_node / gc_value: every release is reached only through the negative edge of `tag >= gc_epoch` '
                    '(or `>`), on the element being released; with set_gc_epoch(<minimum begin epoch or current '
                    'epoch> - k): k + [comparison frees only tag < gc_epoch] >= 2 (two overlapping sessions differ by '
                    'at most one epoch, so an object retired with tag t may still be read by a session that began in '
                    't+1)')
    strict = {}
    for q in (GC + '::gc_node', GC + '::gc_value'):
        f = facts.one(q)
        sites = {}
        gce = [v['id'] for n in f.all_nodes() if n['k'] == 'DeclStmt' for v in n.get('vars', [])
               if 'init' in v and any(is_call(x, cq=GC + '::get_gc_epoch') for x in f.walk(v['init']))]
        if not gce:
            raise AnalysisBroken('R-GCG: %s does not load the GC epoch into a local' % q)
        # the local may be const: resolved terms then show its initialiser instead of the variable
        gterms = {('var', vname(gce[0]))}
        for n_ in f.all_nodes():
            if n_['k'] == 'DeclStmt':
                for v_ in n_.get('vars', []):
                    if v_['id'] == gce[0] and 'init' in v_:
                        gterms.add(term(f, v_['init'], res=True))

        def subject(t):
            # std::get<k>(X) -> X
            if t[0] == 'call' and (t[1] or '').startswith('std::get') and t[3]:
                return t[3][0]
            return None

        def step(ctx, nd, st):
            if nd['k'] == 'CXXDeleteExpr' or (nd['k'] in CALL_KINDS and nd.get('cq') == 'operator delete'):
                tgt = f.ch(nd)[0] if nd['k'] == 'CXXDeleteExpr' else call_args(f, nd)[0]
                sub = subject(term(f, tgt, res=True))
                e = sites.setdefault(short_loc(nd), {'ok': True, 'path': None})
                if sub is None or (sub, 'below') not in st:
                    e['ok'] = False
                    e['path'] = e['path'] or ctx.witness()
                return st
            if nd['k'] in CALL_KINDS and nd.get('cn') == 'try_pop':
                a = call_args(f, nd)
                if a:
                    t = term(f, a[0])
                    return frozenset(x for x in st if x[0] != t)
            if nd['k'] in ('BinaryOperator', 'CXXOperatorCallExpr') and (nd.get('op') == '=' or nd.get('cn') == 'operator='):
                return st
            return st

        def branch(ctx, blk, idx, st):
            if blk.term and 'cond' in blk.term and len(blk.succ) == 2:
                t = term(f, blk.term['cond'], res=True)
                if t[0] == 'bin' and t[1] in ('>=', '>', '<', '<='):
                    a, b = t[2], t[3]
                    sa = subject(a)
                    if sa is not None and b in gterms:
                        op = t[1]
                        truth = idx == 0
                        # established relation tag ? gc
                        rel = op if truth else {'>=': '<', '>': '<=', '<': '>=', '<=': '>'}[op]
                        if rel in ('<', '<='):
                            strict[q] = strict.get(q, True) and (rel == '<')
                            return st | {(sa, 'below')}
                        return frozenset(x for x in st if x[0] != sa)
            return st

        Explorer(f, step, branch).run(frozenset())
        S.require('R-GCG', 'release sites in ' + q.split('::')[-1], len(sites), 2)
        for loc, e in sorted(sites.items()):
            S.ob('R-GCG', f.qname, 'release at ' + loc, e['ok'],
                 'reached only with tag below the GC epoch established for the released element' if e['ok'] else
                 'an element is released without its tag having been compared with the GC epoch on this path',
                 loc=loc, path=e['path'])
    # slack
    et = facts.one(Y + 'epoch_manager::epoch_thread')
    ks = []
    for nd in et.all_nodes():
        if is_call(nd, cq=GC + '::set_gc_epoch'):
            t = term(et, call_args(et, nd)[0], res=True)
            k = None
            if t[0] == 'bin' and t[1] == '-' and t[3][0] == 'const':
                k = t[3][1]
            elif t[0] in ('var', 'call'):
                k = 0
            ks.append((short_loc(nd), k, term_str(t)))
    S.require('R-GCG', 'publications of the GC epoch', len(ks), 2)
    for loc, k, ts in ks:
        s = 1 if all(strict.get(q, False) for q in (GC + '::gc_node', GC + '::gc_value')) else 0
        ok = k is not None and k + s >= 2
        S.ob('R-GCG', et.qname, 'slack of set_gc_epoch(%s)' % ts, ok,
             'k=%s, strict=%d: objects are freed only two epochs below the minimum begin epoch' % (k, s) if ok else
             'k=%s, strict=%d: an object retired one epoch before a still-active session began can be freed' % (k, s),
             loc=loc)


def _fold_funcs(facts):
    """epoch_thread and the functions it reaches that fold a begin epoch into a minimum (the fold may have been
    extracted into a helper): [(function, begin-epoch locals, blocks holding a fold)]."""
    et = facts.one(Y + 'epoch_manager::epoch_thread')
    out = []
    for g in sorted(R.reachable_funcs(facts, [et]).values(), key=lambda x: x.fid):
        if not g.blocks:
            continue
        be_vars = {v['id'] for n in g.all_nodes() if n['k'] == 'DeclStmt' for v in n.get('vars', [])
                   if 'init' in v and any(is_call(x, cq=Y + 'thread_info::get_begin_epoch') for x in g.walk(v['init']))}
        fold_blocks = set()
        for b, blk in g.blocks.items():
            for e in blk.elems:
                nd = g.node(e)
                if nd['k'] in CALL_KINDS and (nd.get('cq') or '').startswith('std::min'):
                    for a in call_args(g, nd):
                        aa = g.strip(a, casts=True)
                        if (aa is not None and aa['k'] == 'DeclRefExpr' and aa.get('id') in be_vars) or \
                                any(is_call(x, cq=Y + 'thread_info::get_begin_epoch') for x in g.walk(a)):
                            fold_blocks.add(b)
                # an accumulator that simply takes a begin epoch (`acc = x`) is a place where the value that will be
                # published is formed, too (whether it is a minimum is R-MIN's question)
                if nd['k'] == 'BinaryOperator' and nd.get('op') == '=':
                    l = g.strip(g.ch(nd)[0], casts=True)
                    r = g.strip(g.ch(nd)[1], casts=True)
                    if l is not None and l['k'] == 'DeclRefExpr' and l.get('dk') == 'var' and l.get('id') not in be_vars \
                            and r is not None and r['k'] == 'DeclRefExpr' and r.get('id') in be_vars and \
                            'unsigned long' in (l.get('ty') or ''):
                        fold_blocks.add(b)
        if fold_blocks:
            out.append((g, be_vars, fold_blocks))
    return et, out


def rule_min(S):
    facts = S.facts()
    S.rule('R-MIN', 'epoch_thread (and a helper it calls, if the fold was extracted): every value folded into the minimum '
                    'begin epoch (std::min) is a begin epoch loaded '
                    'into a local and established non-zero on that path (0 marks a slot that is not in a session; '
                    'folding it in publishes gc epoch 0 - 1 = UINT64_MAX); the idle case publishes current epoch - k')
    _, folds = _fold_funcs(facts)
    total = 0
    for f, be_vars, fold_blocks in folds:
        total += _rule_min_in(S, facts, f, be_vars)
        # the accumulator is a minimum over the WHOLE table: it takes a begin epoch only through std::min (or under the
        # test that the new value is smaller), and the walk is left only when the table is exhausted
        from yk.flow import natural_loops
        plain = []
        for b in sorted(fold_blocks):
            for e in f.blocks[b].elems:
                nd = f.node(e)
                if nd['k'] == 'BinaryOperator' and nd.get('op') == '=':
                    r = f.strip(f.ch(nd)[1], casts=True)
                    if r is not None and r['k'] == 'DeclRefExpr' and r.get('id') in be_vars:
                        plain.append(nd)
        for nd in plain:
            total += 1
            S.ob('R-MIN', f.qname, 'accumulator update at ' + short_loc(nd), False,
                 'the value that will be published takes a begin epoch without comparing it with what was found so far: '
                 'it is the begin epoch of one slot, not the minimum over the table', loc=short_loc(nd))
        loops = natural_loops(f)
        for b in sorted(fold_blocks):
            inner = [(len(body), h, body) for h, body in loops.items() if b in body]
            if not inner:
                continue
            _, h, body = min(inner)
            early = [(x, t) for x in body if x != h for t in f.blocks[x].succ if t is not None and t not in body]
            S.ob('R-MIN', f.qname, 'walk at block %s covers the whole table' % h, not early,
                 'the walk is left only when the table is exhausted' if not early else
                 'the walk over the session table can be left before every slot was looked at (break / return inside '
                 'the loop): sessions in the remaining slots are not counted', loc=f.loc)
    S.require('R-MIN', 'minimum folds over begin epochs', total, 1)


def _rule_min_in(S, facts, f, be_vars):
    sites = {}

    def step(ctx, nd, st):
        fs = R.track_assign(f, nd, st, facts)
        if nd['k'] in CALL_KINDS and (nd.get('cq') or '').startswith('std::min'):
            for a in call_args(f, nd):
                aa = f.strip(a, casts=True)
                has_call = any(is_call(x, cq=Y + 'thread_info::get_begin_epoch') for x in f.walk(a))
                if aa is not None and aa['k'] == 'DeclRefExpr' and aa.get('id') in be_vars:
                    v = R.facts_get(fs, aa['id'])
                    nz = False
                    if v and v.startswith('int:'):
                        lo, hi, ne = (v[4:].split(':') + [''])[:3]
                        nz = int(lo) > 0 or '0' in ne.split(',')
                    e = sites.setdefault(short_loc(nd), {'ok': True, 'path': None})
                    if not nz:
                        e['ok'] = False
                        e['path'] = e['path'] or ctx.witness()
                elif has_call:
                    e = sites.setdefault(short_loc(nd), {'ok': True, 'path': None})
                    e['ok'] = False
                    e['path'] = e['path'] or ctx.witness()
        return fs

    def branch(ctx, blk, idx, st):
        return R.refine(f, blk, idx, st, ints=tuple(vname(v) for v in be_vars))

    Explorer(f, step, branch).run(frozenset())
    for loc, e in sorted(sites.items()):
        S.ob('R-MIN', f.qname, 'std::min at ' + loc, e['ok'],
             'only non-zero begin epochs enter the minimum' if e['ok'] else
             'a begin epoch that may be 0 (slot not in a session, or between claim and publication) enters the minimum',
             loc=loc, path=e['path'])
    return len(sites)


def rule_walk(S):
    facts = S.facts()
    S.rule('R-WALK', 'epoch_thread: every publication of the GC epoch (set_gc_epoch) is reached only after a walk of the '
                     'session table that folds the begin epochs into the minimum (or finds none) and that started after '
                     'the most recent epoch_inc() on that path: a session that enters behind a walk made before the '
                     'increment carries the pre-increment epoch and is not below the published value')
    from yk.flow import dominators
    f, folds = _fold_funcs(facts)
    if not folds:
        raise AnalysisBroken('R-WALK: no fold of a begin epoch into a minimum is reachable from epoch_thread')
    helpers = {g.fid for g, _, _ in folds if g.fid != f.fid}
    # functions through which a helper holding the fold is reached: calling one of them is a walk
    walkers = set(helpers)
    changed = True
    while changed:
        changed = False
        for g in R.reachable_funcs(facts, [f]).values():
            if g.fid not in walkers and g.fid != f.fid and any(c.fid in walkers for c in R.callees(facts, g)):
                walkers.add(g.fid)
                changed = True
    heads = set()
    for g, _, fold_blocks in folds:
        if g.fid != f.fid:
            continue
        # innermost natural loop around each fold = the table walk; its header marks the start of a walk
        dom = dominators(f)
        preds = f.preds()
        loops = []
        for u in dom:
            for h in f.blocks[u].succ:
                if h is not None and h in dom.get(u, ()):
                    body = {h, u}
                    work = [u] if u != h else []
                    while work:
                        x = work.pop()
                        for (pb, _) in preds.get(x, []):
                            if pb not in body and pb in dom:
                                body.add(pb)
                                work.append(pb)
                    loops.append((h, body))
        # the walk = the innermost loop around the LOAD of the begin epoch that is folded (the fold itself may sit in a
        # block that leaves the loop)
        be_all = {v['id'] for n_ in f.all_nodes() if n_['k'] == 'DeclStmt' for v in n_.get('vars', [])
                  if 'init' in v and any(is_call(x, cq=Y + 'thread_info::get_begin_epoch') for x in f.walk(v['init']))}
        folded = set()
        for fb in fold_blocks:
            for e in f.blocks[fb].elems:
                for x in f.walk(f.node(e)):
                    if x['k'] == 'DeclRefExpr' and x.get('id') in be_all:
                        folded.add(x['id'])
        load_blocks = {b_ for b_, blk_ in f.blocks.items() for e in blk_.elems
                       if f.node(e)['k'] == 'DeclStmt' and any(v['id'] in folded for v in f.node(e).get('vars', []))}
        for fb in (load_blocks or fold_blocks):
            inner = [(len(body), h) for h, body in loops if fb in body]
            if not inner:
                raise AnalysisBroken('R-WALK: the fold at block %s is not inside a loop' % fb)
            heads.add(min(inner)[1])
    sites = {}

    def step(ctx, nd, st):
        if ctx.block in heads:
            st = 'walked'
        if is_call(nd, cq=Y + 'epoch_management::epoch_inc'):
            return 'inc'
        if nd['k'] in CALL_KINDS and walkers:
            g = facts.get(nd.get('callee'))
            if g is not None and g.fid in walkers:
                return 'walked'
        if is_call(nd, cq=GC + '::set_gc_epoch'):
            e = sites.setdefault(short_loc(nd), {'ok': True, 'path': None})
            if st != 'walked':
                e['ok'] = False
                e['path'] = e['path'] or ctx.witness()
        return st

    def branch(ctx, blk, idx, st):
        if blk.id in heads:
            return 'walked'
        return st

    Explorer(f, step, branch).run('start')
    n_inc = sum(1 for n in f.all_nodes() if is_call(n, cq=Y + 'epoch_management::epoch_inc'))
    S.require('R-WALK', 'epoch increments in epoch_thread', n_inc, 1)
    S.require('R-WALK', 'publications of the GC epoch', len(sites), 1)
    for loc, e in sorted(sites.items()):
        S.ob('R-WALK', f.qname, 'set_gc_epoch at ' + loc, e['ok'],
             'the minimum was folded by a table walk that started after the last epoch increment' if e['ok'] else
             'the GC epoch is published from a table walk made before epoch_inc() (or from none): a session that entered '
             'behind that walk is not below the published value', loc=loc, path=e['path'])


def rule_adv(S):
    facts = S.facts()
    S.rule('R-ADV', 'epoch_thread: epoch_inc() is reached only after a pass over the whole session table in which no '
                    'session had a non-zero begin epoch different from the current epoch (flag established true), or '
                    'on the stop-flag edge')
    f = facts.one(Y + 'epoch_manager::epoch_thread')
    sites = {}
    has_cmp = False
    for b, blk in f.blocks.items():
        if blk.term and 'cond' in blk.term:
            t = term(f, blk.term['cond'])
            if t[0] == 'bin' and t[1] == '!=' and t[2][0] == 'var' and t[3][0] == 'var':
                has_cmp = True
    flags = {v['id'] for n in f.all_nodes() if n['k'] == 'DeclStmt' for v in n.get('vars', []) if v['type'] == 'bool'}

    def step(ctx, nd, st):
        fs, stop = st
        fs = R.track_assign(f, nd, fs, facts)
        if is_call(nd, cq=Y + 'epoch_management::epoch_inc'):
            ok = stop or any(R.facts_get(fs, v) == 'T' for v in flags)
            e = sites.setdefault(short_loc(nd), {'ok': True, 'path': None})
            if not ok:
                e['ok'] = False
                e['path'] = e['path'] or ctx.witness()
            return (fs, False)
        return (fs, stop)

    def branch(ctx, blk, idx, st):
        fs, stop = st
        fs2 = R.refine(f, blk, idx, fs)
        if fs2 is None:
            return None
        if blk.term and 'cond' in blk.term and len(blk.succ) == 2:
            c = f.strip(blk.term['cond'], casts=True)
            if c is not None and c['k'] == 'CXXMemberCallExpr' and c.get('cn') == 'load' and \
                    'atomic<bool>' in (c.get('cq') or '') and idx == 0:
                stop = True
        return (fs2, stop)

    Explorer(f, step, branch).run((frozenset(), False))
    S.require('R-ADV', 'epoch increments', len(sites), 1)
    for loc, e in sorted(sites.items()):
        S.ob('R-ADV', f.qname, 'epoch_inc at ' + loc, e['ok'] and has_cmp,
             'gated by the all-sessions-caught-up flag (or shutdown)' if (e['ok'] and has_cmp) else
             'the global epoch can advance while a session still runs in an older epoch', loc=loc, path=e['path'])


def rule_pub(S):
    facts = S.facts()
    S.rule('R-PUB', 'assign_thread_info: on the OK path set_begin_epoch(<value read from epoch_management::get_epoch()>) '
                    'on the claimed slot precedes the return; leave_thread_info: set_begin_epoch(0) on the token\'s slot')
    S.rule('R-FRESH', 'assign_thread_info: the published begin epoch is re-validated after its publication: on every path '
                      'to `return OK` the stored value e was compared equal to a later epoch_management::get_epoch() '
                      '(until the store the epoch thread does not wait for the slot, so the value read before it can be '
                      'arbitrarily old; a stale begin epoch makes the retire tags of the session too old - finding F10)')
    f = facts.one(Y + 'thread_info_table::assign_thread_info')
    res = {}
    GE = Y + 'epoch_management::get_epoch'
    epoch_vars = {v['id'] for n in f.all_nodes() if n['k'] == 'DeclStmt' for v in n.get('vars', [])
                  if 'init' in v and any(is_call(x, cq=GE) for x in f.walk(f.node(v['init'])))}

    def step(ctx, nd, st):
        pub, var, fresh = st
        if is_call(nd, cq=Y + 'thread_info::set_begin_epoch'):
            a = call_args(f, nd)
            x = f.strip(a[0], casts=True) if a else None
            if x is not None and x['k'] == 'DeclRefExpr' and x.get('id') in epoch_vars:
                return (True, x['id'], False)
            if a and any(is_call(y, cq=GE) for y in f.walk(a[0])):
                return (True, None, False)
            return (False, None, False)
        if is_call(nd, cq=Y + 'thread_info::gain_the_right'):
            return (False, None, False)
        if nd['k'] == 'DeclStmt' and any(v['id'] == var for v in nd.get('vars', [])):
            return (False, None, False)
        if nd['k'] == 'ReturnStmt':
            if R.ret_const(f, nd) == OKS:
                e = res.setdefault(short_loc(nd), {'pub': True, 'fresh': True, 'path': None})
                if not pub:
                    e['pub'] = False
                    e['path'] = e['path'] or ctx.witness()
                if not fresh:
                    e['fresh'] = False
                    e['path'] = e['path'] or ctx.witness()
            return None
        return st

    def branch(ctx, blk, idx, st):
        pub, var, fresh = st
        t = blk.term
        if pub and var is not None and t and 'cond' in t and len(blk.succ) == 2:
            c = f.strip(f.node(t['cond']))
            flip = False
            while c is not None and c['k'] == 'UnaryOperator' and c.get('op') == '!':
                flip = not flip
                c = f.strip(f.ch(c)[0])
            if c is not None and c['k'] == 'BinaryOperator' and c.get('op') in ('==', '!='):
                a, b = f.ch(c)[0], f.ch(c)[1]
                for x, y in ((a, b), (b, a)):
                    xs = f.strip(x, casts=True)
                    if xs is not None and xs['k'] == 'DeclRefExpr' and xs.get('id') == var and \
                            any(is_call(z, cq=GE) for z in f.walk(y)):
                        truth = (idx == 0) != flip
                        equal = truth if c['op'] == '==' else not truth
                        if equal:
                            return (pub, var, True)
        return st

    Explorer(f, step, branch).run((False, None, False))
    S.require('R-PUB', 'OK returns of assign_thread_info', len(res), 1)
    for loc, e in sorted(res.items()):
        S.ob('R-PUB', f.qname, 'return OK at ' + loc, e['pub'],
             'the session\'s begin epoch is published before enter returns' if e['pub'] else
             'enter returns a token whose begin epoch is still 0: the session is invisible to epoch advance and GC',
             loc=loc, path=e['path'])
        S.ob('R-FRESH', f.qname, 'return OK at ' + loc, e['fresh'],
             'the published begin epoch was confirmed to be the global epoch after its publication' if e['fresh'] else
             'the begin epoch is published without being re-validated against the global epoch: a thread descheduled '
             'between reading the epoch and storing it opens a session with a stale begin epoch; what it retires is '
             'freed while sessions that were already open still use it', loc=loc, path=e['path'])
    g = facts.one(Y + 'thread_info_table::leave_thread_info')
    clears = any(is_call(n, cq=Y + 'thread_info::set_begin_epoch') and cv_through(g, call_args(g, n)[0]) == 0
                 for n in g.all_nodes())
    S.ob('R-PUB', g.qname, 'begin epoch cleared', clears,
         'leave resets the begin epoch to 0' if clears else 'leave does not clear the begin epoch (the epoch can never advance again)',
         loc=g.loc)


def run(S):
    S.undecided = ['absence of use-after-free over all interleavings (stale gc_epoch_, non-atomic table scan, adequacy of '
                   'the memory orders around the begin-epoch publication)', 'contents of the memory']
    S.assumptions = ['two overlapping sessions differ by at most one epoch (follows from R-ADV + R-PUB + R-FRESH)',
                     'begin epoch 0 denotes "not in a session" (leave_thread_info, thread_info_table::init)']
    rule_wmf(S)
    rule_ret(S)
    rule_gcg(S)
    rule_min(S)
    rule_walk(S)
    rule_adv(S)
    rule_pub(S)
    from checks import C14
    C14.rule_lve(S)
    # mechanisms this property rests on (checks/shared.py)
    # the library's own sessions obey the property too: nothing looked up inside one is used after its leave
    from checks.C13 import rule_sess
    rule_sess(S)
    from checks import shared
    shared.sessions(S)
    # 'keeps its contents': a stored value is never written in place (C15 R-IMM, R-ONE)
    shared.value_words(S)
