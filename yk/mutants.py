"""Mutant corpus: the 'fires-when-broken' half of testing the checker (thorough tier only).

Each mutant is one small edit of /repo/include (file, old text, new text) applied to a scratch
copy under /var/tmp (removed afterwards).  It must still parse with the pinned flags; the named
rule must then report a violation.  Outcomes are evidence about the *checker*; they never change
the verdict of a check.  A mutant whose `old` text no longer occurs exactly once is 'skipped'.
"""
import json
import os
import shutil
import subprocess
import tempfile

from . import session


def load(prop):
    p = os.path.join(session.VERIF, 'mutants', prop + '.json')
    if not os.path.exists(p):
        return []
    with open(p) as fh:
        return json.load(fh)


def apply_edits(root, edits):
    for e in edits:
        path = os.path.join(root, e['file'])
        with open(path) as fh:
            s = fh.read()
        if s.count(e['old']) != 1:
            return False
        s = s.replace(e['old'], e['new'])
        with open(path, 'w') as fh:
            fh.write(s)
    return True


def compiles(include_root):
    flags = session.BASE_FLAGS + session.CONFIGS['pinned'] + ['-I' + include_root, '-fsyntax-only',
                                                            os.path.join(session.VERIF, 'tu', 'yk_all.cpp')]
    p = subprocess.run(['clang++'] + flags, stdout=subprocess.PIPE, stderr=subprocess.STDOUT, text=True)
    return p.returncode == 0, p.stdout[-800:]


def run_one(prop, m, run_check):
    """Returns a dict describing the outcome for one mutant."""
    src = os.path.join(session.REPO, 'include')
    tmp = tempfile.mkdtemp(prefix='ykmut.', dir='/var/tmp')
    try:
        inc = os.path.join(tmp, 'include')
        shutil.copytree(src, inc)
        edits = m.get('edits') or [{'file': m['file'], 'old': m['old'], 'new': m['new']}]
        if not apply_edits(inc, edits):
            return {'id': m['id'], 'outcome': 'skipped', 'why': 'edit does not apply to the current tree'}
        ok, out = compiles(inc)
        if not ok:
            return {'id': m['id'], 'outcome': 'skipped', 'why': 'mutant does not compile: ' + out[-200:]}
        rc, viol, kfs, S = run_check(prop, 'quick', include_root=inc, write=False, quiet=True)
        rules = sorted({v.rule for v in viol})
        want = m.get('expect_rule')
        wants = want if isinstance(want, list) else [want]
        hit = any(w in rules for w in wants) if want else bool(viol)
        if m.get('expect_silent'):
            return {'id': m['id'], 'outcome': 'control-ok' if rc == 0 else 'control-false-alarm',
                    'rules_fired': rules, 'expected': 'silent (behaviour-preserving edit)',
                    'first_report': (viol[0].as_dict() if viol else None)}
        res = {'id': m['id'], 'outcome': 'killed' if (rc == 1 and hit) else ('broken' if rc == 2 else 'missed'),
               'rules_fired': rules, 'expected': want,
               'first_report': (viol[0].as_dict() if viol else None)}
        if res['first_report'] and 'path' in res['first_report']:
            res['first_report'].pop('path')
        return res
    finally:
        shutil.rmtree(tmp, ignore_errors=True)
        session.drop_scratch()


def run_corpus(prop, run_check, only=None):
    ms = load(prop)
    out = []
    for m in ms:
        if only and m['id'] not in only:
            continue
        out.append(run_one(prop, m, run_check))
    summary = {'applied': sum(1 for r in out if r['outcome'] in ('killed', 'missed', 'broken')),
               'controls_silent': sum(1 for r in out if r['outcome'] == 'control-ok'),
               'controls_false_alarm': [r['id'] for r in out if r['outcome'] == 'control-false-alarm'],
               'killed': sum(1 for r in out if r['outcome'] == 'killed'),
               'missed': [r['id'] for r in out if r['outcome'] == 'missed'],
               'broken': [r['id'] for r in out if r['outcome'] == 'broken'],
               'skipped': [r['id'] for r in out if r['outcome'] == 'skipped'],
               'results': out}
    return summary
