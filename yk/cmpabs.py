"""E-CMP: hand-written key comparisons evaluated over a finite order abstraction.

An (8-byte slice, length) pair is abstracted to its length and, for a *pair* of tuples (a, b), to
  d in {0..7, 8}: index of the first differing slice byte (8 = slices equal)
  s in {-1,+1}: sign of a[d] - b[d]
with the library's zero-padding invariant restricting the consistent combinations (a byte at or beyond the length
of its tuple is 0).  Every operation the comparison sites apply to keys is determined by this abstraction:
  sign(memcmp(a, b, n)) = s if d < min(n, 8) else 0          lengths: plain integers 0..9 (9 = link)
The reference order is bytewise lexicographic order of the key prefixes with a proper prefix first and the link
marker last.  A comparison site is a region of a function's CFG; the abstract evaluator follows the one path that
the abstract input selects and reports which *marker* (return value, call, block) it reaches.
Nothing of yakushima is executed: expressions from the AST are evaluated by this interpreter on abstract values.
"""
import os
from .facts import AnalysisBroken, CALL_KINDS, call_args, call_recv, is_call, short_loc, WRAPPERS, EXPLICIT_CASTS

Y = 'yakushima::'
A, B = ('S', 'A'), ('S', 'B')


def abstract_pairs():
    """All consistent (la, lb, d, s)."""
    out = []
    for la in range(0, 10):
        for lb in range(0, 10):
            for d in range(0, 9):
                if d == 8:
                    out.append((la, lb, 8, 0))
                    continue
                az = la <= 8 and d >= la
                bz = lb <= 8 and d >= lb
                if az and bz:
                    continue
                for s in (-1, 1):
                    if az and s != -1:
                        continue
                    if bz and s != 1:
                        continue
                    out.append((la, lb, d, s))
    return out


def ref_cmp(la, lb, d, s):
    """-1 / 0 / +1: reference order of a vs b."""
    pa, pb = min(la, 8), min(lb, 8)
    m = min(pa, pb)
    if d < m:
        return s
    if pa != pb:
        return -1 if pa < pb else 1
    if la != lb:
        return -1 if la < lb else 1
    return 0


class Stop(Exception):
    def __init__(self, marker):
        self.marker = marker


class AbsEval:
    """Evaluates one function region on one abstract pair."""

    def __init__(self, f, pair, bind, markers, extra=None):
        self.f = f
        self.la, self.lb, self.d, self.s = pair
        self.bind = bind          # dict: how to bind parameters / members / calls (see sites)
        self.markers = markers    # function(node) -> marker or None
        self.env = {}
        self.extra = extra or {}
        self.key_ops = 0
        self.tolerated = 0

    # ---- values -------------------------------------------------------------
    def memcmp(self, p, q, n):
        if n == 0:
            return 0            # zero bytes compare equal whatever the operands are
        if p == ('P', A) and q == ('P', B):
            sg = 1
        elif p == ('P', B) and q == ('P', A):
            sg = -1
        else:
            raise AnalysisBroken('E-CMP: memcmp over operands that are not the two key slices (%s, %s)' % (p, q))
        if not isinstance(n, int):
            raise AnalysisBroken('E-CMP: memcmp length is not an abstract integer')
        if n > 9:
            raise AnalysisBroken('E-CMP: memcmp length %d exceeds slice + length byte' % n)
        if self.d < min(n, 8):
            return sg * self.s
        if n == 9:
            # key_tuple::operator<: the length byte directly after the slice takes part
            if self.la != self.lb:
                return sg * (-1 if self.la < self.lb else 1)
        return 0

    def ev(self, n):
        f = self.f
        n = f.node(n)
        if n is None:
            raise AnalysisBroken('E-CMP: missing node')
        k = n['k']
        b = self.bind
        if k in WRAPPERS or k in EXPLICIT_CASTS:
            if 'cv' in n:
                return int(n['cv'])
            c = n.get('ch', [])
            if not c:
                raise AnalysisBroken('E-CMP: empty wrapper')
            v = self.ev(c[0])
            if isinstance(v, int) and (n.get('ty') in ('unsigned char',)):
                v &= 0xff
            return v
        if 'cv' in n and k != 'DeclRefExpr':
            return int(n['cv'])
        if k in ('IntegerLiteral', 'CXXBoolLiteralExpr', 'CharacterLiteral'):
            return int(n['val'])
        if k == 'DeclRefExpr':
            vid = n.get('id')
            if vid in self.env:
                return self.env[vid]
            if n.get('dk') == 'enum':
                return int(n['val'])
            nm = n.get('name')
            if nm in b.get('vars', {}):
                return self._bound(b['vars'][nm])
            raise AnalysisBroken('E-CMP: unbound variable %s at %s in %s' % (nm, n.get('loc'), f.qname))
        if k == 'CXXThisExpr':
            return ('OBJ', 'this')
        if k in ('CXXNullPtrLiteralExpr', 'GNUNullExpr'):
            return 0
        if k == 'MemberExpr':
            base = self.ev(f.ch(n)[0]) if f.ch(n) else None
            if isinstance(base, tuple) and base and base[0] == 'TUP' and n.get('name') in ('first', 'second'):
                return base[1][0 if n['name'] == 'first' else 1]
            key = (base[1] if isinstance(base, tuple) and base[0] == 'OBJ' else None, n['name'])
            if key in b.get('members', {}):
                return self._bound(b['members'][key])
            raise AnalysisBroken('E-CMP: unmodelled member %s of %s in %s' % (n['name'], base, f.qname))
        if k == 'UnaryOperator':
            op = n['op']
            c = f.ch(n)[0]
            if op == '&':
                v = self.ev(c)
                if v in (A, B):
                    return ('P', v)
                return ('P', v)
            if op == '*':
                v = self.ev(c)
                if isinstance(v, tuple) and v[0] == 'P':
                    return v[1]
                return v
            v = self.ev(c)
            if op == '!':
                return 0 if v else 1
            if op == '-':
                return -v
            if op in ('++', '--'):
                x = f.strip(c)
                nv = v + (1 if op == '++' else -1)
                self.env[x['id']] = nv
                return v if n.get('postfix') else nv
            if op == '~' and isinstance(v, int):
                return (~v) & 0xFFFFFFFFFFFFFFFF
            raise AnalysisBroken('E-CMP: unary %s' % op)
        if k in ('BinaryOperator', 'CompoundAssignOperator'):
            op = n['op']
            l, r = f.ch(n)
            if op == '=':
                v = self.ev(r)
                x = f.strip(l)
                if x is not None and x['k'] == 'DeclRefExpr':
                    self.env[x['id']] = v
                return v
            if op == '&&':
                return 1 if (self.ev(l) and self.ev(r)) else 0
            if op == '||':
                return 1 if (self.ev(l) or self.ev(r)) else 0
            a, c2 = self.ev(l), self.ev(r)
            if op in ('==', '!=') and (a in (A, B) or c2 in (A, B)):
                # direct comparison of two slices (key_tuple::operator==)
                if {a, c2} == {A, B}:
                    eq = self.d == 8
                    return int(eq if op == '==' else not eq)
                raise AnalysisBroken('E-CMP: slice compared with a non-slice')
            if not (isinstance(a, int) and isinstance(c2, int)):
                raise AnalysisBroken('E-CMP: arithmetic on non-integers (%s %s %s) at %s' % (a, op, c2, n.get('loc')))
            return {'<': int(a < c2), '<=': int(a <= c2), '>': int(a > c2), '>=': int(a >= c2), '==': int(a == c2),
                    '!=': int(a != c2), '+': a + c2, '-': a - c2, '*': a * c2}[op]
        if k == 'ConditionalOperator':
            c, x, y = f.ch(n)
            return self.ev(x) if self.ev(c) else self.ev(y)
        if k == 'InitListExpr':
            cs = f.ch(n)
            if len(cs) == 0:
                return 0
            if len(cs) == 1 and (n.get('ty') or '') in ('bool', 'int', 'unsigned long', 'unsigned char', 'unsigned int'):
                return self.ev(cs[0])
            if len(cs) == 1 and 'initializer_list' not in (n.get('ty') or '') and \
                    not (n.get('ty') or '').startswith('std::'):
                v1 = self.ev(cs[0])
                if isinstance(v1, int):
                    return v1          # `T x{e}` for a scalar typedef
                return [v1]
            return [self.ev(c) for c in cs]
        if k in ('CXXScalarValueInitExpr', 'ImplicitValueInitExpr'):
            return 0
        if k == 'CXXStdInitializerListExpr':
            return self.ev(f.ch(n)[0])
        if k in CALL_KINDS:
            cq = n.get('cq') or ''
            args = call_args(f, n)
            if cq == 'memcmp':
                self.key_ops += 1
                return self.memcmp(self.ev(args[0]), self.ev(args[1]), self.ev(args[2]))
            if cq in ('memcpy',):
                dst = self.ev(args[0])
                src = self.ev(args[1])
                x = f.strip(args[0], casts=True)
                if x is not None and x['k'] == 'UnaryOperator' and src == ('P', 'KEYDATA'):
                    tgt = f.strip(f.ch(x)[0])
                    if tgt is not None and tgt['k'] == 'DeclRefExpr':
                        self.env[tgt['id']] = A
                        return 0
                raise AnalysisBroken('E-CMP: unmodelled memcpy at %s' % n.get('loc'))
            if cq.startswith('std::min') or cq.startswith('std::max'):
                vals = []
                for a in args:
                    v = self.ev(a)
                    vals.extend(v if isinstance(v, list) else [v])
                return min(vals) if cq.startswith('std::min') else max(vals)
            # small value aggregates: pairs / tuples of abstract values (a helper returning (slice, length), a
            # lexicographic compare written with std::tie)
            if cq in ('std::make_pair', 'std::make_tuple', 'std::tie', 'std::forward_as_tuple'):
                return ('TUP', tuple(self.ev(a) for a in args))
            if cq == 'std::get':
                import re as _re
                m_ = _re.match(r'std::get<(\d+)', n.get('callee') or '')
                v = self.ev(args[0])
                if m_ and isinstance(v, tuple) and v and v[0] == 'TUP':
                    return v[1][int(m_.group(1))]
                raise AnalysisBroken('E-CMP: std::get on a non-tuple at %s' % n.get('loc'))
            if cq in ('std::operator<', 'std::operator>', 'std::operator<=', 'std::operator>=', 'std::operator==',
                      'std::operator!=') and len(args) == 2:
                x, y = self.ev(args[0]), self.ev(args[1])
                if isinstance(x, tuple) and isinstance(y, tuple) and x[0] == 'TUP' and y[0] == 'TUP' and \
                        all(isinstance(c_, int) for c_ in x[1] + y[1]):
                    op_ = cq[len('std::operator'):]
                    return int({'<': x[1] < y[1], '>': x[1] > y[1], '<=': x[1] <= y[1], '>=': x[1] >= y[1],
                                '==': x[1] == y[1], '!=': x[1] != y[1]}[op_])
                raise AnalysisBroken('E-CMP: tuple comparison of non-integers at %s' % n.get('loc'))
            if cq in b.get('calls', {}):
                return self._bound(b['calls'][cq])
            if cq.startswith('std::array') and n.get('cn') in ('at', 'operator[]'):
                return self.ev(call_recv(f, n))
            if cq.startswith('std::basic_string_view<char>::'):
                which = n.get('cn')
                if which == 'size':
                    return self.extra['key_size']
                if which == 'empty':
                    return int(self.extra['key_size'] == 0)
                if which == 'data':
                    return ('P', 'KEYDATA')
            if n['k'] == 'CXXOperatorCallExpr' and n.get('lambda_call'):
                raise AnalysisBroken('E-CMP: lambda in comparison slice')
            raise AnalysisBroken('E-CMP: unmodelled call %s at %s in %s' % (cq, n.get('loc'), f.qname))
        if k == 'CXXConstructExpr' and ('std::pair<' in (n.get('ctor') or '') or 'std::tuple<' in (n.get('ctor') or '')):
            a_ = [self.ev(x) for x in n.get('args', [])]
            if len(a_) == 1 and isinstance(a_[0], tuple) and a_[0] and a_[0][0] == 'TUP':
                return a_[0]
            return ('TUP', tuple(a_))
        if k == 'DeclStmt':
            for v in n.get('vars', []):
                if 'init' in v:
                    self.env[v['id']] = self.ev(v['init'])
            return None
        if k == 'UnaryExprOrTypeTraitExpr':
            raise AnalysisBroken('E-CMP: sizeof without constant')
        raise AnalysisBroken('E-CMP: unmodelled expression %s at %s in %s' % (k, n.get('loc'), f.qname))

    def _bound(self, what):
        if what == 'A':
            return A
        if what == 'B':
            return B
        if what == 'la':
            return self.la
        if what == 'lb':
            return self.lb
        if what == 'PA':
            return ('P', A)
        if what == 'PB':
            return ('P', B)
        if isinstance(what, tuple) and what[0] == 'atom':
            return self.extra[what[1]]
        if isinstance(what, tuple) and what[0] == 'obj':
            return ('OBJ', what[1])
        if isinstance(what, int):
            return what
        raise AnalysisBroken('E-CMP: bad binding %s' % (what,))

    # ---- control --------------------------------------------------------------
    def prologue(self, header):
        """Tolerantly evaluate the declarations that precede a loop header (straight-line set-up code)."""
        f = self.f
        seen = {f.entry}
        st = [f.entry]
        while st:
            x = st.pop()
            for s in f.blocks[x].succ:
                if s is not None and s != header and s not in seen:
                    seen.add(s)
                    st.append(s)
        from .flow import natural_loops
        nl = natural_loops(f).get(header)
        if nl is not None:
            # the loop's own blocks only: set-up code of an enclosing loop (which the body reaches again through the outer
            # back edge) is still prologue
            body = set(nl) - {header}
        else:
            body = set()
            st = [f.blocks[header].succ[0]]
            while st:
                x = st.pop()
                if x in body or x == header or x is None:
                    continue
                body.add(x)
                st.extend(f.blocks[x].succ)
        for b in sorted(seen - body, reverse=True):
            for e in f.blocks[b].elems:
                nd = f.node(e)
                if nd['k'] == 'DeclStmt':
                    try:
                        self.ev(nd)
                    except AnalysisBroken:
                        for v in nd.get('vars', []):
                            self.env[v['id']] = ('UNK', v['name'])
        # the induction variable of the loop (declared in the block that falls into the header) gets the
        # abstract index chosen by the site, so that `return i` is distinguishable from `return 0`
        if 'ivar' in self.extra:
            for (p, _) in f.preds()[header]:
                if p not in body:
                    continue
                for e in f.blocks[p].elems:
                    nd = f.node(e)
                    if nd['k'] == 'UnaryOperator' and nd.get('op') in ('++', '--'):
                        x = f.strip(f.ch(nd)[0])
                        if x is not None and x['k'] == 'DeclRefExpr':
                            self.env[x['id']] = self.extra['ivar']

    def run(self, start_block, max_steps=400, header=None):
        f = self.f
        if header is not None:
            self.prologue(header)
        b = start_block
        steps = 0
        while True:
            steps += 1
            if steps > max_steps:
                raise AnalysisBroken('E-CMP: comparison slice of %s does not terminate abstractly' % f.qname)
            blk = f.blocks[b]
            m = self.markers(('block', b))
            if m is not None:
                return m
            cache = {}
            for e in blk.elems:
                nd = f.node(e)
                m = self.markers(('node', nd, self))
                if m is not None:
                    return m
                if nd['k'] == 'ReturnStmt':
                    v = self.ev(f.ch(nd)[0]) if f.ch(nd) else None
                    return ('return', v)
                if nd['k'] in ('DeclStmt',) or (nd['k'] == 'BinaryOperator' and nd.get('op') == '=') or \
                        (nd['k'] in CALL_KINDS and nd.get('cq') == 'memcpy'):
                    try:
                        self.ev(nd)
                    except AnalysisBroken as _e:
                        if os.environ.get('YK_CMP_DEBUG'):
                            print('E-CMP debug: %s -> %s' % (nd.get('loc'), _e))
                        if nd['k'] == 'DeclStmt':
                            # declarations outside the comparison (e.g. the slot pointer) are irrelevant:
                            # the variable becomes unknown, any later use in the comparison raises
                            for v in nd.get('vars', []):
                                self.env[v['id']] = ('UNK', v['name'])
                        elif nd['k'] == 'BinaryOperator':
                            x = f.strip(f.ch(nd)[0])
                            if x is not None and x['k'] == 'DeclRefExpr':
                                self.env[x['id']] = ('UNK', x.get('name'))
                            else:
                                raise
                        else:
                            raise
                elif nd['k'] == 'UnaryOperator' and nd.get('op') in ('++', '--'):
                    try:
                        self.ev(nd)
                    except AnalysisBroken:
                        pass
            if b == f.exit or not blk.succ:
                return ('falloff', None)
            if len(blk.succ) == 1:
                b = blk.succ[0]
            else:
                if not blk.term or 'cond' not in blk.term:
                    b = next(s for s in blk.succ if s is not None)
                else:
                    try:
                        c = self.ev(blk.term['cond'])
                    except AnalysisBroken:
                        if self.key_ops:
                            raise
                        # set-up code before the first key operation (null tests of out-parameters, link fix-ups):
                        # not part of the comparison; its bodies rejoin, so the false edge is followed
                        self.tolerated += 1
                        c = 0
                    b = blk.succ[0] if c else blk.succ[1]
            if b is None:
                raise AnalysisBroken('E-CMP: pruned edge taken in %s' % f.qname)


def loop_blocks(f, header):
    """(body entry, exit block) of a for/while header block."""
    blk = f.blocks[header]
    return blk.succ[0], blk.succ[1]
