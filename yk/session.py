"""Run plumbing: fact extraction and caching, obligations, verdicts, evidence, known findings."""
import hashlib
import json
import os
import subprocess
import sys
import time

from .facts import Facts, AnalysisBroken

VERIF = os.path.dirname(os.path.dirname(os.path.abspath(__file__)))
REPO = os.environ.get('YKVERIF_REPO', '/repo')
TOOL = os.path.join(VERIF, 'tool', 'ykfacts')
TOOL_SRC = os.path.join(VERIF, 'tool', 'ykfacts.cc')
CACHE = os.path.join(VERIF, '.cache')
GUARD = 'YAKUSHIMA_VERIF'

# Flags of the pinned build (ninja -t compdb of /repo/_build, test targets) plus
# -fsized-deallocation which cmake/CompileOptions.cmake adds for clang.
BASE_FLAGS = ['-std=c++17', '-fsized-deallocation', '-DYAKUSHIMA_EPOCH_TIME=40', '-DYAKUSHIMA_LINUX',
              '-Wno-everything']

CONFIGS = {
    # name: (extra flags, driver TU defines)
    'pinned': ['-DNDEBUG', '-DYAKUSHIMA_MAX_PARALLEL_SESSIONS=8', '-D' + GUARD],
    'debug': ['-UNDEBUG', '-DYAKUSHIMA_MAX_PARALLEL_SESSIONS=8', '-D' + GUARD, '-DYKVERIF_THOROUGH'],
    'guard_off': ['-DNDEBUG', '-DYAKUSHIMA_MAX_PARALLEL_SESSIONS=8', '-DYKVERIF_THOROUGH'],
}


def resource_dir():
    return subprocess.check_output(['clang++', '-print-resource-dir'], text=True).strip()


def tree_hash(include_root, extra=()):
    h = hashlib.sha256()
    for name in sorted(os.listdir(include_root)):
        p = os.path.join(include_root, name)
        if os.path.isfile(p):
            h.update(name.encode())
            with open(p, 'rb') as fh:
                h.update(fh.read())
    for x in extra:
        h.update(str(x).encode())
    return h.hexdigest()[:24]


def ensure_tool():
    if os.path.exists(TOOL) and os.path.getmtime(TOOL) >= os.path.getmtime(TOOL_SRC):
        return
    cxxflags = subprocess.check_output(['llvm-config-14', '--cxxflags'], text=True).split()
    cmd = ['clang++'] + cxxflags + ['-fno-rtti', '-O1', TOOL_SRC, '-o', TOOL,
                                    '/usr/lib/llvm-14/lib/libclang-cpp.so.14',
                                    '/usr/lib/llvm-14/lib/libLLVM-14.so']
    subprocess.check_call(cmd)


def extract(config='pinned', include_root=None, tu=None):
    """Return the path of the fact base for (current tree under include_root, config)."""
    include_root = include_root or os.path.join(REPO, 'include')
    tu = tu or os.path.join(VERIF, 'tu', 'yk_all.cpp')
    ensure_tool()
    flags = BASE_FLAGS + CONFIGS[config] + ['-I' + include_root]
    with open(tu, 'rb') as fh:
        tu_h = hashlib.sha256(fh.read()).hexdigest()
    with open(TOOL_SRC, 'rb') as fh:
        tool_h = hashlib.sha256(fh.read()).hexdigest()
    key = tree_hash(include_root, [config, flags, tu_h, tool_h])
    os.makedirs(CACHE, exist_ok=True)
    scratch = not os.path.abspath(include_root).startswith(os.path.abspath(REPO) + os.sep)
    # scratch fact bases (mutants, other revisions) are private to the process: concurrent thorough runs of
    # different properties must not delete each other's files in drop_scratch()
    out = os.path.join(CACHE, '%s_%s_%s.json' % ('scratch_%d' % os.getpid() if scratch else 'facts', config, key))
    if os.path.exists(out) and os.path.getsize(out) > 0:
        try:
            os.utime(out, None)   # in use: keep it out of the age-based clean-up of concurrent runs
        except OSError:
            pass
        return out
    tmp = out + '.tmp.%d' % os.getpid()
    cmd = [TOOL, '--root=' + include_root, '--out=' + tmp, tu, '--'] + flags + ['-resource-dir', resource_dir()]
    p = subprocess.run(cmd, stdout=subprocess.PIPE, stderr=subprocess.STDOUT, text=True)
    for _attempt in range(2):
        # under heavy load of the sandbox (many concurrent regression runs) the extractor was seen to die without a
        # diagnostic; a tree that really does not parse fails again, with its diagnostics
        if p.returncode == 0 and os.path.exists(tmp):
            break
        if 'error:' in (p.stdout or ''):
            break
        time.sleep(2 + 3 * _attempt)
        p = subprocess.run(cmd, stdout=subprocess.PIPE, stderr=subprocess.STDOUT, text=True)
    if p.returncode != 0 or not os.path.exists(tmp):
        if os.path.exists(tmp):
            os.unlink(tmp)
        raise AnalysisBroken('fact extraction failed (the tree does not parse with the pinned flags?) rc=%s:\n' % p.returncode +
                             p.stdout[-3000:])
    os.replace(tmp, out)
    # keep the cache small: drop fact bases older than a day that are not this one
    try:
        now = time.time()
        for n in os.listdir(CACHE):
            q = os.path.join(CACHE, n)
            if n.startswith('facts_') and q != out and now - os.path.getmtime(q) > 6 * 3600:
                os.unlink(q)
    except OSError:
        pass
    return out


_FACTS_MEMO = {}


def load_facts(config='pinned', include_root=None):
    path = extract(config, include_root)
    if path not in _FACTS_MEMO:
        _FACTS_MEMO[path] = Facts(path)
    return _FACTS_MEMO[path]


def drop_scratch():
    """Forget and delete fact bases extracted from scratch trees (mutants, other revisions)."""
    for p in list(_FACTS_MEMO):
        if os.path.basename(p).startswith('scratch_'):
            del _FACTS_MEMO[p]
    mine = 'scratch_%d_' % os.getpid()
    try:
        now = time.time()
        for n in os.listdir(CACHE):
            q = os.path.join(CACHE, n)
            if n.startswith(mine) or (n.startswith('scratch_') and now - os.path.getmtime(q) > 2 * 3600):
                os.unlink(q)
    except OSError:
        pass


class Obligation:
    __slots__ = ('rule', 'function', 'site', 'ok', 'what', 'loc', 'path', 'detail', 'config', 'nontrivial')

    def __init__(self, rule, function, site, ok, what, loc=None, path=None, detail=None, config='pinned',
                 nontrivial=True):
        self.rule = rule
        self.function = function
        self.site = site
        self.ok = ok
        self.what = what
        self.loc = loc
        self.path = path
        self.detail = detail
        self.config = config
        self.nontrivial = nontrivial

    def key(self):
        return (self.rule, self.function, self.site)

    def as_dict(self):
        d = {'rule': self.rule, 'function': self.function, 'site': self.site, 'ok': self.ok, 'what': self.what}
        if self.loc:
            d['loc'] = self.loc
        if self.path:
            d['path'] = self.path
        if self.detail:
            d['detail'] = self.detail
        if self.config != 'pinned':
            d['config'] = self.config
        return d


class Session:
    """Collects the obligations of one property check and produces verdict + evidence."""

    def __init__(self, prop, tier='quick', include_root=None, quiet=False):
        self.prop = prop
        self.tier = tier
        self.include_root = include_root
        self.obs = []
        self.notes = []
        self.rules = {}      # rule id -> description (clause decided)
        self.undecided = []
        self.assumptions = []
        self.counters = {}
        self.functions_analysed = set()
        self.config = os.environ.get('YKVERIF_CONFIG', 'pinned')
        self.quiet = quiet
        self.t0 = time.time()
        self.mutants = None
        self.broken = []

    # ---- facts -----------------------------------------------------------
    def facts(self, config=None):
        fb = load_facts(config or self.config, self.include_root)
        log = getattr(fb, 'inline_log', None)
        if log and not getattr(self, '_inline_noted', False):
            self._inline_noted = True
            for l in log:
                self.note('yk/inline.py: ' + l)
        return fb

    # ---- recording -------------------------------------------------------
    def rule(self, rid, text):
        self.rules[rid] = text

    def ob(self, rule, function, site, ok, what, loc=None, path=None, detail=None, nontrivial=True):
        o = Obligation(rule, function, site, bool(ok), what, loc, path, detail, self.config, nontrivial)
        self.obs.append(o)
        self.functions_analysed.add(function)
        return o

    def require(self, rule, what, count, minimum):
        """Anchor / instance-count guard: a rule that matches too little is analysis-broken."""
        self.counters['%s: %s' % (rule, what)] = count
        if count < minimum:
            # deferred: a real violation found by the same run is reported first (exit 1); only a run
            # without violations is turned into analysis-broken (exit 2) by a failed instance minimum
            self.broken.append('%s: %s: found %d, confirmed minimum is %d (anchor vanished or logic moved; '
                                 'the rule would pass vacuously)' % (rule, what, count, minimum))

    def count(self, name, n):
        self.counters[name] = self.counters.get(name, 0) + n

    def note(self, text):
        self.notes.append(text)


def load_known():
    p = os.path.join(VERIF, 'known_findings.json')
    if not os.path.exists(p):
        return []
    with open(p) as fh:
        return json.load(fh)


def finish(sess, level_explanation, trusted_base=None, write=True):
    """Compare with known findings, write evidence and reports, print verdict lines, return exit code."""
    prop = sess.prop
    known = [k for k in load_known() if k.get('property') == prop and k.get('status') == 'open']
    known_keys = {(k['rule'], k['function'], k['site']): k for k in known}
    viol = []
    kfs = []
    seen_keys = set()
    for o in sess.obs:
        if o.ok:
            continue
        if (o.key(), o.config) in seen_keys:
            continue
        seen_keys.add((o.key(), o.config))
        if o.key() in known_keys:
            kfs.append((o, known_keys[o.key()]))
        else:
            viol.append(o)
    rep_dir = os.path.join(VERIF, 'reports', prop)
    if write:
        os.makedirs(rep_dir, exist_ok=True)
        for n in os.listdir(rep_dir):
            os.unlink(os.path.join(rep_dir, n))
    lines = []
    for o, k in kfs:
        lines.append('KNOWN-FINDING: property=%s %s' % (prop, k.get('what_fails') or o.what))
    for i, o in enumerate(viol):
        rp = os.path.join(rep_dir, 'violation_%d.json' % (i + 1))
        if write:
            with open(rp, 'w') as fh:
                json.dump({'property': prop, 'tier': sess.tier, **o.as_dict(),
                           'rule_text': sess.rules.get(o.rule, ''),
                           'how_to_read': 'static report: the named rule is violated at the named construct; '
                                          '`path` lists source hops of one offending CFG path from the function entry'},
                          fh, indent=1)
        lines.append('VIOLATION property=%s replay=%s' % (prop, rp))
        lines.append('  rule %s at %s [%s]: %s' % (o.rule, o.function, o.loc or '', o.what))

    total = len(sess.obs)
    ok = sum(1 for o in sess.obs if o.ok)
    distinct = len({(o.key(), o.config) for o in sess.obs if o.nontrivial})
    samples = []
    per_rule = {}
    for o in sess.obs:
        per_rule.setdefault(o.rule, []).append(o)
    for r, lst in per_rule.items():
        for o in lst[:3]:
            samples.append(o.as_dict())
    for o in viol[:10]:
        if o.as_dict() not in samples:
            samples.append(o.as_dict())
    cov = {
        'explanation': level_explanation,
        'rules': sess.rules,
        'obligations': total,
        'discharged': ok,
        'evaluations': total,
        'distinct_nontrivial': distinct,
        'rule': 'one obligation per (rule, function, semantic site, configuration) instance found in the current '
                'tree; an instance is non-trivial when at least one CFG path / call site / expression was '
                'actually examined for it; distinct by (rule, function, site, configuration)',
        'obligations_per_rule': {r: {'total': len(l), 'ok': sum(1 for o in l if o.ok)} for r, l in per_rule.items()},
        'functions_analysed': len(sess.functions_analysed),
        'functions': sorted(sess.functions_analysed)[:80],
        'counters': sess.counters,
        'samples': samples[:60],
        'undecided_clauses': sess.undecided,
        'notes': sess.notes,
        'known_findings_still_present': [k.get('what_fails') for _, k in kfs],
        'checker_cmd': 'python3 /verif/run.py %s --tier %s' % (prop, sess.tier),
        'trusted_base': trusted_base or ['clang 14 front end (AST, CFG, record layout)',
                                         'tool/ykfacts.cc serialisation', 'python rule code in checks/ and yk/'],
        'configurations': sorted({o.config for o in sess.obs}) or [sess.config],
        'exhaustive': False,
    }
    if sess.mutants is not None:
        cov['mutants'] = sess.mutants
    ev = {
        'property_id': prop,
        'tier': sess.tier,
        'seed': int(os.environ.get('VERIF_SEED', '0') or 0),
        'level': 'other',
        'coverage': cov,
        'assumptions': sess.assumptions,
        'wall_s': round(time.time() - sess.t0, 3),
        'violations': len(viol),
    }
    if write:
        os.makedirs(os.path.join(VERIF, 'evidence'), exist_ok=True)
        with open(os.path.join(VERIF, 'evidence', prop + '.json'), 'w') as fh:
            json.dump(ev, fh, indent=1)
    if not sess.quiet:
        for l in lines:
            print(l)
        print('%s [%s]: %d obligations, %d discharged, %d violations, %d known findings; %d functions; %.1fs' %
              (prop, sess.tier, total, ok, len(viol), len(kfs), len(sess.functions_analysed), time.time() - sess.t0))
    return (1 if viol else 0), viol, kfs
