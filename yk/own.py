"""E-OWN: allocation ownership typestate (owned -> transferred | freed) over every CFG path.

An allocation (`new T`, value::create_value, ::operator new) bound to a local variable is *owned* by the
function until it is
  - transferred: stored into a shared link (publication primitive), passed to a callee whose summary consumes
    that parameter, handed to an out-parameter / reference parameter, retired to a GC container, or returned;
  - freed: delete / ::operator delete / value::delete_value.
Reaching a function exit with an owned object is a leak path; freeing twice is a double free.
Consumption summaries of callees are computed from their bodies (same typestate with the parameter owned at
entry) - no hand-written list beyond the primitive sinks below.
"""
from .facts import (AnalysisBroken, CALL_KINDS, call_args, call_recv, is_call, root_var, short_loc, term, term_str,
                    vname)
from .flow import Explorer
from . import rules as R

Y = 'yakushima::'
OKS = Y + 'status::OK'
# primitive sinks: callee -> indices of arguments whose ownership moves into shared structure
SINKS = {
    Y + 'border_node::set_next': (0,), Y + 'interior_node::set_child_at': (1,),
    Y + 'border_node::set_lv_next_layer': (1,), Y + 'link_or_value::set_next_layer': (0,),
    Y + 'interior_node::insert': (0,), Y + 'interior_node::swap_child': (1,),
    Y + 'link_or_value::set_value': (0,),
    Y + 'garbage_collection::push_value_container': (0,), Y + 'garbage_collection::push_node_container': (0,),
}
FREES = {Y + 'value::delete_value': 0}
ALLOC_CALLS = {Y + 'value::create_value'}


def is_alloc(f, n):
    if n['k'] == 'CXXNewExpr' and not n.get('placement'):
        return 'new ' + (n.get('alloc_ty') or '').replace(Y, '')
    if n['k'] in CALL_KINDS and n.get('cq') in ALLOC_CALLS:
        return 'create_value'
    if n['k'] in CALL_KINDS and (n.get('cq') or '') == 'operator new' and not n.get('mcls'):
        return '::operator new'
    return None


class OwnAnalysis:
    def __init__(self, facts):
        self.facts = facts
        self.consumes = {}   # (fid, param index) -> bool
        self.in_progress = set()
        self.visits = 0

    # ---- summaries --------------------------------------------------------
    def callee_consumes(self, g, k):
        key = (g.fid, k)
        if key in self.consumes:
            return self.consumes[key]
        if key in self.in_progress:
            return True  # optimistic for recursion (interior_split): re-established by the outer run
        if k >= len(g.params) or not g.blocks:
            return False
        ty = g.params[k]['type']
        if '*' not in ty:
            self.consumes[key] = False
            return False
        self.in_progress.add(key)
        leaks, _, _ = self.run(g, entry_owned=g.params[k]['id'])
        self.in_progress.discard(key)
        res = not leaks
        self.consumes[key] = res
        return res

    # ---- one function -------------------------------------------------------
    def run(self, f, entry_owned=None):
        facts = self.facts
        oa = self
        # non-owning aliases: locals initialised from a cast / copy of another pointer variable
        alias = {}
        nullinit = set()
        for n in f.all_nodes():
            if n['k'] == 'DeclStmt':
                for v in n.get('vars', []):
                    if 'init' in v and v['type'] in ('unsigned long', 'const unsigned long'):
                        # pointer tagging through an integer: uintptr_t p = reinterpret_cast<uintptr_t>(v) | FLAG
                        srcs = [x for x in f.walk(v['init']) if x['k'] == 'DeclRefExpr' and
                                (x.get('ty') or '').rstrip().endswith('*') and x.get('dk') in ('var', 'parm')]
                        if len(srcs) == 1:
                            alias[v['id']] = srcs[0]['id']
                    if 'init' in v and v['type'].rstrip().endswith('*'):
                        ini = f.strip(v['init'], casts=True)
                        if ini is not None and ini['k'] == 'DeclRefExpr' and ini.get('dk') in ('var', 'parm'):
                            alias[v['id']] = ini['id']
                        if ini is not None and R.const_of(f, ini) in ('null', 'ZERO'):
                            nullinit.add(v['id'])
        local_holders = {v['id'] for n in f.all_nodes() if n['k'] == 'DeclStmt' for v in n.get('vars', [])
                         if v['type'].replace('const ', '') == 'yakushima::tree_instance'}
        leaks = {}
        dfrees = {}
        allocs = {}

        def canon(v):
            seen = set()
            while v in alias and v not in seen:
                seen.add(v)
                v = alias[v]
            return v

        def owned_arg(st, a):
            a = f.strip(a, casts=True)
            if a is not None and a['k'] == 'UnaryOperator' and a.get('op') == '&':
                a = f.strip(f.ch(a)[0], casts=True)
            if a is not None and a['k'] == 'DeclRefExpr':
                v = canon(a.get('id'))
                if v in st[0]:
                    return v
            return None

        def drop(st, v, freed=False):
            owned, pend, fr, holder, cond, fs = st
            owned = owned - {v}
            if freed:
                fr = fr | {v}
            return (owned, pend, fr, holder, cond, fs)

        def step(ctx, n, st):
            owned, pend, fr, holder, cond, fs = st
            fs = R.track_assign(f, n, fs, facts)
            st = (owned, pend, fr, holder, cond, fs)
            k = n['k']
            if k == 'CXXNewExpr' and n.get('placement'):
                # placement new: the storage (if owned) is now known under the new expression's variable
                for c in f.ch(n):
                    v0 = owned_arg(st, c) if c is not None else None
                    if v0 is not None:
                        var = R.assigned_var(f, n)
                        if var is not None and var != v0:
                            allocs.setdefault(var, allocs.get(v0, ('object', short_loc(n))))
                            return ((owned - {v0}) | {var}, pend, fr, holder, cond, fs)
                return st
            a_kind = is_alloc(f, n)
            if a_kind:
                var = R.assigned_var(f, n)
                if var is None:
                    # part of a larger initialiser (e.g. ?:) - bind at the enclosing declaration
                    return (owned, (a_kind, short_loc(n)), fr, holder, cond, fs)
                allocs.setdefault(var, (a_kind, short_loc(n)))
                return (owned | {var}, None, fr - {var}, holder, cond, fs)
            if k == 'DeclStmt':
                for v in n.get('vars', []):
                    if 'init' not in v or not v['type'].rstrip().endswith('*'):
                        continue
                    if pend is not None and any(is_alloc(f, x) for x in f.walk(v['init'])):
                        allocs.setdefault(v['id'], pend)
                        owned = owned | {v['id']}
                        pend = None
                    else:
                        # move: `T* v = cond ? other : alloc()` choosing the already owned object
                        for x in f.walk(v['init']):
                            if x['k'] == 'DeclRefExpr' and canon(x.get('id')) in owned and \
                                    f.strip(v['init'], casts=True)['k'] == 'ConditionalOperator':
                                src = canon(x['id'])
                                allocs.setdefault(v['id'], allocs.get(src, ('moved', short_loc(n))))
                                owned = (owned - {src}) | {v['id']}
                                break
                return (owned, pend, fr, holder, cond, fs)
            if k == 'BinaryOperator' and n.get('op') == '=':
                c = f.ch(n)
                lhs = f.strip(c[0])
                rv = owned_arg(st, c[1])
                if rv is not None and lhs is not None:
                    if lhs['k'] == 'UnaryOperator' and lhs.get('op') == '*':
                        return drop(st, rv)          # *out = x
                    if lhs['k'] == 'DeclRefExpr' and lhs.get('dk') == 'parm' and '&' in (lhs.get('ty') or '') + \
                            next((p['type'] for p in f.params if p['id'] == lhs['id']), ''):
                        return drop(st, rv)          # reference parameter := x
                    if lhs['k'] == 'MemberExpr':
                        return drop(st, rv)          # stored into an object
                return st
            if k == 'CXXDeleteExpr':
                c = f.ch(n)
                a = f.strip(c[0], casts=True) if c else None
                if a is not None and a['k'] == 'DeclRefExpr':
                    v = canon(a.get('id'))
                    if v in owned:
                        return drop(st, v, freed=True)
                    if v in fr:
                        e = dfrees.setdefault(short_loc(n), {'path': ctx.witness(), 'var': vname(v)})
                return st
            if k == 'ReturnStmt':
                c = f.ch(n)
                if c:
                    rv = owned_arg(st, c[0])
                    if rv is not None:
                        st = drop(st, rv)
                oa._exit(ctx, f, st, n, leaks, allocs)
                return None
            if k in CALL_KINDS:
                cq = n.get('cq') or ''
                args = call_args(f, n)
                recv = call_recv(f, n)
                if cq in FREES:
                    v = owned_arg(st, args[FREES[cq]]) if len(args) > FREES[cq] else None
                    if v is not None:
                        return drop(st, v, freed=True)
                    return st
                if cq == 'operator delete' and args:
                    v = owned_arg(st, args[0])
                    if v is not None:
                        return drop(st, v, freed=True)
                    return st
                if cq == Y + 'tree_instance::store_root_ptr' and args:
                    v = owned_arg(st, args[0])
                    if v is not None:
                        rvv = root_var(f, recv)
                        if rvv in local_holders:
                            return (owned, pend, fr, holder | {(rvv, v)}, cond, fs)
                        return drop(st, v)
                    return st
                if cq == Y + 'tree_instance::cas_root_ptr':
                    return st  # conditional transfer: decided on the branch edges
                if cq in SINKS:
                    for i in SINKS[cq]:
                        if i < len(args):
                            for x in f.walk(args[i]):
                                if x['k'] == 'DeclRefExpr' and canon(x.get('id')) in st[0]:
                                    st = drop(st, canon(x['id']))
                    return st
                # a local holder passed by address: the object moves iff the callee reports OK
                for a in args:
                    aa = f.strip(a, casts=True)
                    if aa is not None and aa['k'] == 'UnaryOperator' and aa.get('op') == '&':
                        hv = root_var(f, aa)
                        for (h, v) in holder:
                            if h == hv and v in st[0]:
                                rvar = R.assigned_var(f, n)
                                if rvar is not None:
                                    cond = cond | {(v, rvar)}
                                    st = (st[0], pend, fr, holder, cond, fs)
                g = facts.get(n.get('callee'))
                if g is not None and g.blocks and not g.is_lambda:
                    for i, a in enumerate(args):
                        v = owned_arg(st, a)
                        if v is not None and oa.callee_consumes(g, i):
                            st = drop(st, v)
                return st
            return st

        def branch(ctx, blk, idx, st):
            owned, pend, fr, holder, cond, fs = st
            fs2 = R.refine(f, blk, idx, fs)
            if fs2 is None:
                return None
            if blk.term and 'cond' in blk.term and len(blk.succ) == 2:
                c = f.strip(blk.term['cond'], casts=True)
                flip, shape = R.cond_shape(f, blk.term['cond'])
                if shape[0] == 'nonnull':
                    v = canon(shape[1])
                    truth = (idx == 0) != flip
                    if v in owned and not truth:
                        return None          # an owned object is not null
                    if v in nullinit and v not in owned and v not in fr and truth and v not in alias:
                        return None          # declared null and never assigned an allocation on this path
                if c is not None and is_call(c, cq=Y + 'tree_instance::cas_root_ptr') and idx == 0:
                    for a in call_args(f, c):
                        for x in f.walk(a):
                            if x['k'] == 'DeclRefExpr' and canon(x.get('id')) in owned:
                                owned = owned - {canon(x['id'])}
            return (owned, pend, fr, holder, cond, fs2)

        init_owned = frozenset([entry_owned]) if entry_owned else frozenset()
        if entry_owned:
            allocs[entry_owned] = ('parameter', f.loc)
        ex = Explorer(f, step, branch)
        ex.run((init_owned, None, frozenset(), frozenset(), frozenset(), frozenset()))
        self.visits += ex.visits
        for st in ex.exit_states:
            self._exit(None, f, st, None, leaks, allocs)
        return leaks, dfrees, allocs

    def _exit(self, ctx, f, st, n, leaks, allocs):
        owned, pend, fr, holder, cond, fs = st
        for v in owned:
            conds = [r for (x, r) in cond if x == v]
            if conds:
                val = R.facts_get(fs, conds[0])
                if val == 'in:' + OKS:
                    continue  # moved into the shared structure by the successful callee
                why = 'still owned although the call that would have taken it did not report OK' \
                    if (val and OKS not in val[3:].split('|')) else \
                    'still owned and the status of the call that may have taken it is not established'
            else:
                why = 'neither transferred nor freed'
            site = '%s bound to %s' % (allocs.get(v, ('object', ''))[0], vname(v))
            e = leaks.setdefault(site, {'loc': allocs.get(v, ('', f.loc))[1], 'exits': {}})
            rd = R.ret_desc(f, n) if n is not None else 'fall-off'
            trail = R.branch_trail(ctx.ex, ctx.key, f, 1) if ctx is not None else []
            key = '%s after [%s]' % (rd, '; '.join(trail))
            if key not in e['exits']:
                e['exits'][key] = {'why': why, 'path': ctx.witness() if ctx is not None else None,
                                   'loc': short_loc(n) if n is not None else f.loc}


def alloc_functions(facts):
    out = []
    for f in facts.functions.values():
        if f.is_lambda:
            continue
        if any(is_alloc(f, n) for n in f.all_nodes()):
            out.append(f)
    return out
