"""E-WIT: type-level witnesses.  tu/witness.cpp is compiled (-fsyntax-only) against the current headers with the
pinned flags; each WITNESS(id, expr) static_assert is one obligation, decided by the compiler's constant evaluator."""
import os
import re
import subprocess

from . import session
from .facts import AnalysisBroken

_MEMO = {}


def run(include_root=None, extra=()):
    include_root = include_root or os.path.join(session.REPO, 'include')
    key = (session.tree_hash(include_root), tuple(extra))
    if key in _MEMO:
        return _MEMO[key]
    src = os.path.join(session.VERIF, 'tu', 'witness.cpp')
    ids = re.findall(r'^WITNESS\((\w+),', open(src).read(), re.M)
    flags = session.BASE_FLAGS + [f for f in session.CONFIGS['pinned'] if not (extra and f.startswith('-DYAKUSHIMA_MAX'))] + \
        list(extra) + ['-I' + include_root, '-fsyntax-only', '-ferror-limit=0', src]
    p = subprocess.run(['clang++'] + flags, stdout=subprocess.PIPE, stderr=subprocess.STDOUT, text=True)
    failed = set(re.findall(r'witness (\w+) failed', p.stdout))
    other = [l for l in p.stdout.splitlines() if 'error:' in l and 'witness' not in l]
    if other:
        raise AnalysisBroken('witness unit does not compile against the current headers: ' + other[0][:300])
    res = {i: (i not in failed) for i in ids}
    _MEMO[key] = res
    return res


def emit(S, prop_prefix, rule, texts=None, extra=()):
    res = run(S.include_root, extra)
    n = 0
    for wid, ok in sorted(res.items()):
        if not wid.startswith(prop_prefix + '_'):
            continue
        n += 1
        S.ob(rule, 'tu/witness.cpp', wid + (' [%s]' % ' '.join(extra) if extra else ''), ok,
             (texts or {}).get(wid, 'static_assert holds') if ok else 'static_assert %s fails against the current headers' % wid,
             loc='witness.cpp')
    return n
