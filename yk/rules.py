"""Shared recognisers for the rule sets: local-fact tracking (declared path sensitivity),
condition matching, lambda inlining, site descriptors."""
from .facts import (AnalysisBroken, CALL_KINDS, call_args, call_recv, cv_through, is_call, root, root_var,
                    short_loc, term, term_str, vname)
from .flow import Explorer

ENUM_PREFIX = 'yakushima::'


# ---------------------------------------------------------------------------
# Local facts: finite tracking of bool / enum / null-ness of named locals.
# A fact set is a frozenset of (var_id, value) pairs; absent = unknown.
# ---------------------------------------------------------------------------

def _is_bool_ty(t):
    return (t or '').strip() in ('bool', 'const bool', 'bool const')


def _is_int_ty(t):
    t = (t or '').replace('const ', '').strip()
    return t in ('int', 'unsigned int', 'long', 'unsigned long', 'unsigned char', 'char', 'short', 'unsigned short',
                 'signed char', 'long long', 'unsigned long long')


def _is_enum_ty(t):
    t = (t or '').replace('const ', '').strip()
    if t.endswith(' const'):
        t = t[:-6].strip()
    return t in ('yakushima::status', 'yakushima::scan_endpoint')


def facts_get(fs, var):
    for v, val in fs:
        if v == var:
            return val
    return None


def facts_set(fs, var, val):
    out = frozenset((v, x) for v, x in fs if v != var)
    if val is None:
        return out
    return out | {(var, val)}


def const_of(f, n):
    """'T'/'F' for bool constants, enum qname for enum constants, 'null' for nullptr, else None."""
    n = f.strip(n, casts=True)
    if n is None:
        return None
    if n['k'] == 'CXXBoolLiteralExpr':
        return 'T' if n['val'] == '1' else 'F'
    if n['k'] == 'DeclRefExpr' and n.get('dk') == 'enum':
        return n['id']
    if n['k'] in ('CXXNullPtrLiteralExpr', 'GNUNullExpr'):
        return 'null'
    if n['k'] == 'InitListExpr':
        c = f.ch(n)
        if not c:
            return 'ZERO'
        if len(c) == 1:
            return const_of(f, c[0])
    if n['k'] == 'CXXScalarValueInitExpr' or n['k'] == 'ImplicitValueInitExpr':
        return 'ZERO'
    return None


_RET_MEMO = {}


def ret_summary(facts, fid):
    """Set of enum constants a function can return (all its returns are enum constants), else None."""
    if facts is None or fid is None:
        return None
    memo = facts.__dict__.setdefault('_ret_memo', {})
    key = fid
    if key in memo:
        return memo[key]
    g = facts.get(fid)
    res = None
    if g is not None and _is_enum_ty(g.raw.get('ret')):
        vals = set()
        ok = True
        def consts(x):
            x = g.strip(x, casts=True)
            if x is not None and x['k'] == 'ConditionalOperator':
                a, b = consts(g.ch(x)[1]), consts(g.ch(x)[2])
                return None if a is None or b is None else a | b
            c = const_of(g, x)
            if c is None or c in ('T', 'F', 'null', 'ZERO'):
                return None
            return {c}
        # the function's own returns are CFG elements (a `return` inside a lambda-expression is not one of them)
        for n in (g.node(e) for blk in g.blocks.values() for e in blk.elems):
            if n['k'] == 'ReturnStmt':
                cs = consts(g.ch(n)[0]) if g.ch(n) else None
                if cs is None:
                    ok = False
                    break
                vals |= cs
        if ok and vals:
            res = frozenset(vals)
    memo[key] = res
    return res


def enum_in(vals):
    return 'in:' + '|'.join(sorted(vals))


def _value_of(f, n, ty, facts, fs=None):
    """Abstract value of initialiser / right-hand side n for a tracked variable of type ty."""
    c = const_of(f, n)
    if c is None and fs is not None:
        # a copy of another tracked local: what is known about that local
        m0 = f.strip(n, casts=True)
        if m0 is not None and m0['k'] == 'DeclRefExpr' and m0.get('dk') in ('var', 'parm'):
            known = facts_get(fs, m0.get('id'))
            if known is not None:
                return known
    if _is_bool_ty(ty):
        if c == 'ZERO':
            return 'F'
        return c if c in ('T', 'F') else None
    if c is not None and c not in ('T', 'F', 'null', 'ZERO'):
        return enum_in([c])
    m = f.strip(n, casts=True)
    if m is not None and m['k'] in CALL_KINDS:
        rs = ret_summary(facts, m.get('callee'))
        if rs:
            return enum_in(rs)
    return None


def track_assign(f, n, fs, facts=None, tracked_types=(_is_bool_ty, _is_enum_ty)):
    """Update the fact set for one CFG element (declarations, assignments, by-reference escapes)."""
    k = n['k']
    if k == 'DeclStmt':
        for v in n.get('vars', []):
            if (_is_int_ty(v['type']) or v['type'].rstrip().endswith('*')) and facts_get(fs, v['id']) is not None:
                fs = facts_set(fs, v['id'], None)
            if any(p(v['type']) for p in tracked_types):
                val = _value_of(f, v['init'], v['type'], facts, fs) if 'init' in v else None
                fs = facts_set(fs, v['id'], val)
        return fs
    if k in ('BinaryOperator', 'CompoundAssignOperator') and (n.get('op') or '').endswith('=') and \
            n.get('op') not in ('==', '!=', '<=', '>='):
        c = f.ch(n)
        lhs = f.strip(c[0])
        if lhs is not None and lhs['k'] == 'DeclRefExpr' and lhs.get('dk') in ('var', 'parm'):
            if (_is_int_ty(lhs.get('ty')) or (lhs.get('ty') or '').rstrip().endswith('*')) and \
                    facts_get(fs, lhs['id']) is not None:
                fs = facts_set(fs, lhs['id'], None)
            if n.get('op') == '=' and any(p(lhs.get('ty')) for p in tracked_types):
                fs = facts_set(fs, lhs['id'], _value_of(f, c[1], lhs.get('ty'), facts, fs))
        return fs
    if k == 'UnaryOperator' and n.get('op') in ('++', '--'):
        x = f.strip(f.ch(n)[0])
        if x is not None and x['k'] == 'DeclRefExpr' and facts_get(fs, x.get('id')) is not None:
            fs = facts_set(fs, x['id'], None)
        return fs
    if k in CALL_KINDS or k == 'CXXConstructExpr':
        for a in n.get('args', []):
            a = f.node(a)
            if a is not None and a['k'] == 'DeclRefExpr' and a.get('dk') in ('var', 'parm') and \
                    facts_get(fs, a['id']) is not None:
                # passed as an lvalue (no lvalue-to-rvalue conversion): may be written by the callee
                if not (a.get('ty') or '').startswith('const '):
                    fs = facts_set(fs, a['id'], None)
        return fs
    return fs


def cond_shape(f, cond):
    """Normalise a branch condition to (polarity_flip, kind, payload).

    kinds: ('truth', var_id) | ('eq', var_id, const) | ('nonnull', var_id) | ('term', term)
    A leading logical negation flips polarity.
    """
    n = f.strip(cond)
    flip = False
    while n is not None and n['k'] == 'UnaryOperator' and n.get('op') == '!':
        flip = not flip
        n = f.strip(f.ch(n)[0])
    if n is None:
        return flip, ('term', ('other', 'none'))
    if n['k'] == 'DeclRefExpr' and n.get('dk') in ('var', 'parm'):
        if (n.get('ty') or '').endswith('*'):
            return flip, ('nonnull', n['id'], n.get('ty'))
        return flip, ('truth', n['id'], n.get('ty'))
    if n['k'] == 'BinaryOperator' and n.get('op') in ('==', '!='):
        c = f.ch(n)
        a, b = f.strip(c[0], casts=True), f.strip(c[1], casts=True)
        for x, y in ((a, b), (b, a)):
            if x is not None and x['k'] == 'DeclRefExpr' and x.get('dk') in ('var', 'parm'):
                cy = const_of(f, y)
                if cy is not None:
                    if n['op'] == '!=':
                        flip = not flip
                    if cy == 'null':
                        # (x == nullptr) true  <=> x is null
                        return (not flip), ('nonnull', x['id'], x.get('ty'))
                    return flip, ('eq', x['id'], cy, x.get('ty'))
    if n['k'] == 'BinaryOperator' and n.get('op') in ('<', '<=', '>', '>=', '==', '!='):
        c = f.ch(n)
        a, b = f.strip(c[0], casts=True), f.strip(c[1], casts=True)
        from .facts import cv_through
        for x, y, swap in ((a, c[1], False), (b, c[0], True)):
            if x is not None and x['k'] == 'DeclRefExpr' and x.get('dk') in ('var', 'parm') and \
                    _is_int_ty(x.get('ty')):
                cy = cv_through(f, y)
                if cy is not None:
                    op = n['op']
                    if swap:
                        op = {'<': '>', '<=': '>=', '>': '<', '>=': '<=', '==': '==', '!=': '!='}[op]
                    return flip, ('icmp', x['id'], op, cy, x.get('ty'))
    if n['k'] == 'CXXOperatorCallExpr' and n.get('cn') in ('operator==', 'operator!='):
        args = [f.strip(f.node(a), casts=True) for a in n.get('args', [])]
        if len(args) == 2:
            for x, y in ((args[0], args[1]), (args[1], args[0])):
                if x is not None and x['k'] == 'DeclRefExpr' and x.get('dk') in ('var', 'parm'):
                    cy = const_of(f, y)
                    if cy is not None:
                        if n['cn'] == 'operator!=':
                            flip = not flip
                        return flip, ('eq', x['id'], cy, x.get('ty'))
    return flip, ('term', term(f, n))


def refine(f, blk, idx, fs, assume=None, tracked=None, ints=None, ptrs=None):
    """Refine the fact set along successor idx of blk (None = edge infeasible).

    `assume` maps var_id -> required value ('T','F','nonnull','null', enum) for facts the
    rule fixes for the whole analysis (e.g. node_version_vec != nullptr).
    """
    t = blk.term
    if not t or len(blk.succ) != 2 or 'cond' not in t:
        return fs
    cache = f.__dict__.setdefault('_cond_shape_cache', {})
    if blk.id not in cache:
        cache[blk.id] = cond_shape(f, t['cond'])
    flip, shape = cache[blk.id]
    taken_true = (idx == 0)
    truth = taken_true != flip  # truth value of the un-negated shape on this edge
    kind = shape[0]
    if tracked is not None and kind in ('truth', 'eq') and not tracked((shape[-1] or '')):
        if not (assume and shape[1] in assume):
            return fs
    if kind == 'truth':
        var = shape[1]
        want = 'T' if truth else 'F'
        if assume and var in assume and assume[var] in ('T', 'F') and assume[var] != want:
            return None
        cur = facts_get(fs, var)
        if cur in ('T', 'F') and cur != want:
            return None
        return facts_set(fs, var, want)
    if kind == 'nonnull':
        var = shape[1]
        want = 'nonnull' if truth else 'null'
        if assume and var in assume and assume[var] in ('nonnull', 'null') and assume[var] != want:
            return None
        cur = facts_get(fs, var)
        if cur in ('nonnull', 'null') and cur != want:
            return None
        if ptrs and (ptrs is True or vname(var) in ptrs):
            return facts_set(fs, var, want)
        return fs  # null-ness is tracked only through `assume` and for the pointers a rule names
    if kind == 'icmp':
        var, op, c = shape[1], shape[2], shape[3]
        if not ints or (ints is not True and vname(var) not in ints):
            return fs  # integer comparisons are tracked only for the variables a rule names
        if not truth:
            op = {'<': '>=', '<=': '>', '>': '<=', '>=': '<', '==': '!=', '!=': '=='}[op]
        cur = facts_get(fs, var)
        lo, hi, ne = -(1 << 70), (1 << 70), ()
        if cur and cur.startswith('int:'):
            parts = cur[4:].split(':')
            lo, hi = int(parts[0]), int(parts[1])
            ne = tuple(int(x) for x in parts[2].split(',') if x) if len(parts) > 2 else ()
        if op == '<':
            hi = min(hi, c - 1)
        elif op == '<=':
            hi = min(hi, c)
        elif op == '>':
            lo = max(lo, c + 1)
        elif op == '>=':
            lo = max(lo, c)
        elif op == '==':
            lo, hi = max(lo, c), min(hi, c)
        elif op == '!=':
            ne = tuple(sorted(set(ne) | {c}))
        while lo in ne:
            lo += 1
        while hi in ne:
            hi -= 1
        if lo > hi:
            return None
        ne = tuple(x for x in ne if lo < x < hi)
        return facts_set(fs, var, 'int:%d:%d:%s' % (lo, hi, ','.join(str(x) for x in ne)))
    if kind == 'eq':
        var, const = shape[1], shape[2]
        cur = facts_get(fs, var)
        if const in ('T', 'F'):
            want = const if truth else ('F' if const == 'T' else 'T')
            if cur in ('T', 'F') and cur != want:
                return None
            return facts_set(fs, var, want)
        if cur is not None and cur.startswith('in:'):
            have = set(cur[3:].split('|'))
            have = (have & {const}) if truth else (have - {const})
            if not have:
                return None
            return facts_set(fs, var, enum_in(have))
        ex = set(cur[1:].split('|')) if cur and cur.startswith('!') else set()
        if truth:
            if const in ex:
                return None
            return facts_set(fs, var, enum_in([const]))
        ex.add(const)
        return facts_set(fs, var, '!' + '|'.join(sorted(ex)))
    return fs


# ---------------------------------------------------------------------------
# Site descriptors: semantic, position-free identification of an exit / call.
# ---------------------------------------------------------------------------

def branch_trail(ex, key, f, depth=2):
    """The last `depth` two-way branch conditions (with polarity) on the witness path to `key`."""
    chain = []
    k = key
    while k is not None:
        chain.append(k)
        k = ex.parent.get(k)
    chain.reverse()
    trail = []
    for a, b in zip(chain, chain[1:]):
        blk = f.blocks[a[0]]
        if blk.term and len(blk.succ) == 2 and 'cond' in blk.term and blk.succ[0] != blk.succ[1]:
            try:
                idx = blk.succ.index(b[0])
            except ValueError:
                continue
            tt = term(f, blk.term['cond'])
            if tt[0] == 'const':
                continue
            trail.append('%s:%s' % (term_str(tt), 'T' if idx == 0 else 'F'))
    return trail[-depth:]


def ret_desc(f, n):
    """'return <value term>' for a ReturnStmt node."""
    c = f.ch(n)
    if not c:
        return 'return'
    return 'return ' + term_str(term(f, c[0]))


def ret_const(f, n, fs=None):
    """The enum constant a ReturnStmt returns (through tracked facts for variables), else None."""
    c = f.ch(n)
    if not c:
        return None
    v = f.strip(c[0], casts=True)
    cst = const_of(f, v)
    if cst is not None:
        return cst
    if fs is not None and v is not None and v['k'] == 'DeclRefExpr':
        cur = facts_get(fs, v.get('id'))
        if cur and cur.startswith('in:') and '|' not in cur:
            return cur[3:]
    return None


# ---------------------------------------------------------------------------
# Lambda inlining
# ---------------------------------------------------------------------------

def lambda_target(facts, f, n):
    """If n is a call of a local closure, the Func of its call operator."""
    if n['k'] == 'CXXOperatorCallExpr' and n.get('lambda_call'):
        g = facts.get(n.get('callee'))
        return g
    return None


def inline_states(facts, g, state, step, branch, depth=0):
    """Run the rule's step/branch over callee g from `state`; return the set of states at its exits."""
    if depth > 3:
        raise AnalysisBroken('lambda inlining deeper than 3 in %s' % g.qname)
    ex = Explorer(g, step, branch)
    ex.run(state)
    out = set(ex.exit_states)
    return out, ex


def var_decl_init(f, var_id):
    """Initialiser node of a local variable (from its DeclStmt), or None."""
    for n in f.all_nodes():
        if n['k'] == 'DeclStmt':
            for v in n.get('vars', []):
                if v['id'] == var_id and 'init' in v:
                    return f.node(v['init'])
    return None


def params_of_type(f, pred):
    return [p for p in f.params if pred(p['type'])]


def find_calls(f, cq=None, cn=None):
    return [n for n in f.all_nodes() if is_call(n, cq=cq, cn=cn)]


# ---------------------------------------------------------------------------
# Interprocedural exploration by inlining (explicit bound), and simple call-graph helpers
# ---------------------------------------------------------------------------

class Inliner:
    """Runs a rule's step/branch over a function and, for calls the rule does not handle itself,
    over the bodies of yakushima callees (depth-bounded).  `step(g, ctx, n, st)` returns a state,
    a list of states, None (path ends) or Inliner.PASS (not handled: inline if possible, else keep st).
    """
    PASS = object()

    def __init__(self, facts, step, branch=None, should_inline=None, maxdepth=3):
        self.facts = facts
        self.step = step
        self.branch = branch
        self.should_inline = should_inline or (lambda g: True)
        self.maxdepth = maxdepth
        self.visits = 0
        self.inlined = set()

    def _mk(self, g, depth, stack):
        def step(ctx, n, st):
            r = self.step(g, ctx, n, st)
            if r is not Inliner.PASS:
                return r
            if n['k'] in CALL_KINDS and depth < self.maxdepth:
                tg = self.facts.get(n.get('callee'))
                if tg is not None and tg.blocks and tg.fid not in stack and self.should_inline(tg):
                    self.inlined.add(tg.fid)
                    ex = Explorer(tg, *self._mk(tg, depth + 1, stack | {tg.fid}))
                    ex.run(st)
                    self.visits += ex.visits
                    outs = set(ex.exit_states)
                    return list(outs)
            return st

        def branch(ctx, blk, idx, st):
            if self.branch is None:
                return st
            return self.branch(g, ctx, blk, idx, st)
        return step, branch

    def run(self, f, init):
        ex = Explorer(f, *self._mk(f, 0, frozenset([f.fid])))
        ex.run(init)
        self.visits += ex.visits
        return ex


def callees(facts, f, virtual_targets=True):
    """Funcs with bodies directly called from f (virtual calls resolved to all overriders)."""
    out = {}
    for n in f.all_nodes():
        if n['k'] in CALL_KINDS or n['k'] == 'CXXConstructExpr':
            cid = n.get('callee')
            g = facts.get(cid)
            if g is not None:
                out[g.fid] = g
            if n.get('virtual') and virtual_targets:
                for h in facts.functions.values():
                    if cid in (h.raw.get('overrides') or []):
                        out[h.fid] = h
        if n['k'] == 'LambdaExpr' and n.get('lambda'):
            g = facts.get(n['lambda'])
            if g is not None:
                out[g.fid] = g
        if n['k'] == 'DeclRefExpr' and n.get('dk') == 'func':
            g = facts.get(n.get('id'))
            if g is not None:
                out[g.fid] = g  # function used as a value (e.g. std::thread entry)
    return list(out.values())


def reachable_funcs(facts, roots, stop=None):
    seen = {}
    st = list(roots)
    while st:
        f = st.pop()
        if f.fid in seen:
            continue
        seen[f.fid] = f
        if stop and stop(f):
            continue
        st.extend(callees(facts, f))
    return seen


def global_ref(f, n):
    """Qualified name of the global / static member an expression is rooted in, else None."""
    r = root(f, n)
    if r[0] == 'var':
        return r[1] if '@' not in r[1] else None
    return None


def member_of_this(f, n):
    """Qualified field name if n is rooted at this->field (possibly through casts), else None."""
    n = f.strip(n, casts=True)
    while n is not None and n['k'] == 'MemberExpr':
        b = f.strip(f.ch(n)[0], casts=True)
        if b is not None and b['k'] == 'CXXThisExpr':
            return n['member']
        n = b
    return None


ATOMIC_WRITE = ('store', 'compare_exchange_weak', 'compare_exchange_strong', 'exchange', 'fetch_add', 'fetch_sub',
                'fetch_or', 'fetch_and', 'operator=', 'operator++', 'operator--', 'operator+=', 'operator-=')


def field_writes(f):
    """Fields of `this` that f itself writes: [(qualified field, node, how)]."""
    out = []
    for n in f.all_nodes():
        k = n['k']
        if k in ('BinaryOperator', 'CompoundAssignOperator') and (n.get('op') == '=' or n.get('op', '').endswith('=')) \
                and n.get('op') not in ('==', '!=', '<=', '>='):
            m = member_of_this(f, f.ch(n)[0])
            if m:
                out.append((m, n, 'assign'))
        elif k == 'UnaryOperator' and n.get('op') in ('++', '--'):
            m = member_of_this(f, f.ch(n)[0])
            if m:
                out.append((m, n, n['op']))
        elif k == 'CXXMemberCallExpr' and n.get('cn') in ATOMIC_WRITE and (n.get('mcls') or '').startswith('std::'):
            m = member_of_this(f, call_recv(f, n))
            if m:
                out.append((m, n, n['cn']))
        elif k == 'CXXOperatorCallExpr' and n.get('cn') in ATOMIC_WRITE:
            a = [f.node(x) for x in n.get('args', [])]
            if a:
                m = member_of_this(f, a[0])
                if m:
                    out.append((m, n, n['cn']))
        elif k == 'AtomicExpr' and ('store' in n.get('aop', '') or 'exchange' in n.get('aop', '')
                                    or 'fetch' in n.get('aop', '')):
            c = f.ch(n)
            if c:
                m = member_of_this(f, c[0])
                if m:
                    out.append((m, n, n['aop']))
        elif k in CALL_KINDS and n.get('cq') in ('yakushima::storeReleaseN', 'yakushima::storeRelaxed',
                                                'yakushima::storeRelease', 'yakushima::weakCompareExchange'):
            a = call_args(f, n)
            if a:
                m = member_of_this(f, a[0])
                if m:
                    out.append((m, n, n['cn']))
    return out


def assigned_var(f, n):
    """The variable that receives the value of expression n (declaration, built-in or class assignment)."""
    p = f.parent(n)
    if p is None:
        return None
    if p['k'] == 'ConditionalOperator':
        p = f.parent(p)
        if p is None:
            return None
    if p['k'] == 'DeclStmt':
        return p['vars'][0]['id']
    if p['k'] == 'BinaryOperator' and p.get('op') == '=':
        return root_var(f, f.ch(p)[0])
    if p['k'] == 'CXXOperatorCallExpr' and p.get('cn') == 'operator=' and p.get('args'):
        a0 = f.strip(f.node(p['args'][0]), casts=True)
        if a0 is not None and a0 is not f.strip(n, casts=True) and a0['k'] == 'DeclRefExpr':
            return a0.get('id')
    return None


def eval_bool(t, atoms):
    """Truth of a condition term given the truth of atomic condition terms established on the path (None = unknown).
    Needed where clang's CFG materialises `a && b` as a value and branches on `!(a && b)` in a join block."""
    if t in atoms:
        return atoms[t]
    if t[0] == 'un' and t[1] == '!':
        v = eval_bool(t[2], atoms)
        return None if v is None else (not v)
    if t[0] == 'bin' and t[1] == '&&':
        a, b = eval_bool(t[2], atoms), eval_bool(t[3], atoms)
        if a is False or b is False:
            return False
        if a is True and b is True:
            return True
        return None
    if t[0] == 'bin' and t[1] == '||':
        a, b = eval_bool(t[2], atoms), eval_bool(t[3], atoms)
        if a is True or b is True:
            return True
        if a is False and b is False:
            return False
        return None
    if t[0] == 'const':
        return bool(t[1])
    return None


def field_of(facts, cls, type_has, what=None):
    """Name of the one data member of cls whose declared type contains `type_has` (members are found by their role - their
    type in the record layout -, not by their spelling, so renaming a private member changes nothing)."""
    rec = facts.records.get(cls) or {}
    hits = [x['name'] for x in rec.get('fields', []) if type_has in (x.get('type') or '')]
    if len(hits) != 1:
        raise AnalysisBroken('record %s: expected exactly one member of type ~%s (%s), found %s' % (
            cls, type_has, what or 'role', hits))
    return hits[0]


def counted_table_loops(f, table):
    """{header block id: induction variable id} of loops `for (i = 0; i < TABLE.size(); ++i)` over the whole global
    container `table` (qualified name) - the counted equivalent of a range-for over it."""
    out = {}
    for b_, blk_ in f.blocks.items():
        t_ = blk_.term
        if not t_ or t_.get('k') not in ('ForStmt', 'WhileStmt') or 'cond' not in t_ or len(blk_.succ) != 2:
            continue
        c_ = f.strip(f.node(t_['cond']), casts=True)
        if c_ is None or c_['k'] != 'BinaryOperator' or c_.get('op') not in ('<', '!='):
            continue
        l_, r_ = f.strip(f.ch(c_)[0], casts=True), f.strip(f.ch(c_)[1], casts=True)
        if l_ is None or l_['k'] != 'DeclRefExpr' or r_ is None:
            continue
        whole = (r_['k'] in CALL_KINDS and r_.get('cn') == 'size' and global_ref(f, call_recv(f, r_)) == table)
        ini_ = var_decl_init(f, l_.get('id'))
        from_zero = ini_ is not None and cv_through(f, ini_) == 0
        stepped = any(x['k'] == 'UnaryOperator' and x.get('op') == '++' and root_var(f, f.ch(x)[0]) == l_.get('id')
                      for x in f.all_nodes())
        if whole and from_zero and stepped:
            out[b_] = l_.get('id')
    return out


def indexes_table(f, n, table, ivars):
    """does expression n denote TABLE[i] / TABLE.at(i) for an induction variable i of a whole-table loop?"""
    for x in f.walk(n):
        if x['k'] in CALL_KINDS and x.get('cn') in ('operator[]', 'at'):
            recv = call_recv(f, x)
            args = call_args(f, x)
            if recv is not None and global_ref(f, recv) == table and args and root_var(f, args[0]) in ivars:
                return True
    return False
