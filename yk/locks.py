"""E-LOCK: symbolic lock-set / dirty-bit / freshness analysis of the writer call graph.

Every function is analysed over all its CFG paths (Explorer) with the state
  (held, dirty, fresh, assumed, released)
where tokens are structural names of node pointers:
  ('var', id) | ('this',) | ('ROOT',) | ('pr', id) parent-or-root returned by lock_parent |
  ('out', param id) | ('next'|'prev'|'parent'|'child', tok) | ('new', loc) | ('null',) | ('unk', kind)
Functions get bottom-up summaries *inferred from their bodies*:
  rel  - tokens (parameter-relative) that are held at entry and released by the callee
  keep - tokens the callee acquires and leaves held (out-parameters)
  need - (token, level) that must be held ('H') / held and dirty ('D') at entry
The analysis emits events (acquire, release, spin, mutate, setdirty, exit, call) that the rule
sets of C01/C08/C09/C12 turn into obligations.  Recursion is handled by iterating to a fixpoint.
"""
from .facts import (AnalysisBroken, CALL_KINDS, call_args, call_recv, is_call, short_loc, term, term_str, vname)
from .flow import Explorer
from . import rules as R

Y = 'yakushima::'
LOCK = Y + 'base_node::lock'
UNLOCK = Y + 'base_node::version_unlock'
ROOT_LOCK = Y + 'tree_instance::root_lock'
ROOT_UNLOCK = Y + 'tree_instance::root_unlock'
LOCK_PARENT = Y + 'base_node::lock_parent'
SET_VERSION = Y + 'base_node::set_version'
GET_VERSION = Y + 'base_node::get_version'

SPIN = {Y + 'base_node::get_stable_version', Y + 'border_node::get_lv_of', Y + 'node_version64::get_stable_version',
        LOCK, Y + 'node_version64::lock', Y + 'interior_node::get_child_of'}

SET_DIRTY = {Y + 'base_node::set_version_inserting_deleting': 'I', Y + 'base_node::set_version_splitting': 'S'}

NAV = {Y + 'border_node::get_next': 'next', Y + 'border_node::get_prev': 'prev', Y + 'base_node::get_parent': 'parent',
       Y + 'interior_node::get_child_at': 'child'}
# accessors whose result designates (a part of) the receiver node
PART = {Y + 'border_node::get_lv_at', Y + 'border_node::get_lv', Y + 'border_node::get_lv_of',
        Y + 'border_node::get_lv_of_without_lock', Y + 'border_node::get_permutation', Y + 'base_node::get_version_ptr',
        Y + 'base_node::get_key_slice_ref', Y + 'base_node::get_key_length_ref'}

# mutators: callee -> (state class, needs dirty?)   receiver = the node (or a part of it)
MUT = {
    # key arrays
    Y + 'base_node::set_key': ('keys', True), Y + 'base_node::set_key_slice_at': ('keys', True),
    Y + 'base_node::set_key_length_at': ('keys', True), Y + 'base_node::init_base': ('keys', True),
    Y + 'base_node::shift_left_base_member': ('keys', True), Y + 'base_node::shift_right_base_member': ('keys', True),
    Y + 'base_node::move_key_to_base_range': ('keys', True), Y + 'base_node::init_base_member_range': ('keys', True),
    # border
    Y + 'border_node::insert_lv_at': ('entries', True), Y + 'border_node::init_border': ('entries', True),
    Y + 'border_node::set_lv': ('slots', True), Y + 'border_node::shift_left_border_member': ('slots', True),
    Y + 'border_node::init_border_member_range': ('slots', True),
    Y + 'border_node::permutation_rearrange': ('perm', True), Y + 'border_node::set_permutation_cnk': ('perm', True),
    Y + 'border_node::delete_at': ('remove', False),
    Y + 'border_node::set_lv_value': ('slotword', False), Y + 'border_node::set_lv_next_layer': ('slotword', False),
    Y + 'border_node::set_next': ('next', False),
    # permutation (receiver is a part of the border)
    Y + 'permutation::insert_rank': ('perm', True), Y + 'permutation::delete_rank': ('perm', True),
    Y + 'permutation::split_dest': ('perm', True), Y + 'permutation::rearrange': ('perm', True),
    Y + 'permutation::set_cnk': ('perm', True), Y + 'permutation::set_body': ('perm', True),
    Y + 'permutation::init': ('perm', True),
    # link_or_value (receiver is a slot of the border)
    Y + 'link_or_value::set_value': ('slotword', False), Y + 'link_or_value::set_next_layer': ('slotword', False),
    Y + 'link_or_value::init_lv': ('slotword', False), Y + 'link_or_value::set': ('slotword', False),
    # interior
    Y + 'interior_node::set_child_at': ('children', True), Y + 'interior_node::set_n_keys': ('children', True),
    Y + 'interior_node::n_keys_increment': ('children', True), Y + 'interior_node::n_keys_decrement': ('children', True),
    Y + 'interior_node::shift_left_children': ('children', True),
    Y + 'interior_node::shift_right_children': ('children', True),
    Y + 'interior_node::move_children_to_interior_range': ('children', True),
    Y + 'interior_node::swap_child': ('children', False), Y + 'interior_node::insert': ('children', False),
    Y + 'interior_node::init_interior': ('children', True),
    # reads that are only meaningful under the node lock (@pre of the functions: "Caller must lock this node")
    Y + 'border_node::compute_rank_if_insert': ('locked-read', False),
    Y + 'border_node::get_lv_of_without_lock': ('locked-read', False),
    # version bits
    Y + 'base_node::set_version_inserting_deleting': ('bits', False), Y + 'base_node::set_version_splitting': ('bits', False),
    Y + 'base_node::set_version_deleted': ('bits', False), Y + 'base_node::set_version_border': ('bits', False),
    Y + 'base_node::set_version_root': ('rootflag', False), Y + 'base_node::atomic_set_version_root': ('rootflag', False),
    Y + 'base_node::version_atomic_inc_vinsert': ('bits', False),
}
# functions whose own stores are exempt from the dirty requirement (frozen, one line of reason each)
D_EXEMPT_FUNCS = {
    Y + 'border_node::delete_at': 'border remove path: deletes are not counted in the version word (border_node.h:128)',
    Y + 'interior_node::swap_child': 'last-sibling promotion: the replaced child is already marked deleted and the '
                                     'replacement covers the same key range',
    Y + 'border_node::init_border': 'only ever applied to a fresh node or under the caller\'s dirty bit (checked at '
                                    'the call sites through the need-summary)',
}
NODE_PTR_TYPES = ('yakushima::base_node *', 'yakushima::border_node *', 'yakushima::interior_node *',
                  'yakushima::link_or_value *', 'yakushima::node_version64 *', 'yakushima::permutation &',
                  # a reference local to a part of a node (`auto& lv = lv_.at(pos);`) names that node, like a pointer
                  'yakushima::link_or_value &', 'yakushima::base_node &', 'yakushima::border_node &',
                  'yakushima::interior_node &')
def is_fresh_initialiser(g):
    """Whole-node initialisers: only legal on a node that is not yet published (level 'F')."""
    if g.qname in (Y + 'base_node::init_base', Y + 'border_node::init_border') and len(g.params) == 0:
        return True
    if g.qname == Y + 'interior_node::init_interior':
        return True
    if g.qname == Y + 'border_node::init_border' and len(g.params) == 4:
        return True
    return False


UNREACHABLE_TAIL_FUNCS = {
    Y + 'border_node::delete_of', Y + 'interior_node::delete_of', Y + 'interior_node::swap_child',
    Y + 'border_node::get_lv',
}


def is_node_ptr(t):
    t = (t or '').replace('const', '').replace('  ', ' ').strip()
    return any(t.startswith(x) for x in NODE_PTR_TYPES)


def param_relative(t):
    while t and t[0] in ('next', 'prev', 'parent', 'child'):
        t = t[1]
    return t and t[0] in ('this', 'ROOT', 'out', 'param')


def tok_str(t):
    if t is None:
        return '?'
    if t[0] == 'ret':
        return '<returned>'
    if t[0] in ('var', 'param', 'pr', 'out'):
        pre = {'var': '', 'param': '', 'pr': 'parent-or-root:', 'out': '*'}[t[0]]
        return pre + vname(t[1])
    if t[0] in ('next', 'prev', 'parent', 'child'):
        return '%s(%s)' % (t[0], tok_str(t[1]))
    if t[0] == 'new':
        return 'new@' + t[1]
    return t[0]


class FnInfo:
    def __init__(self, la, f):
        self.f = f
        self.params = {p['id'] for p in f.params}
        self.alias = {}
        self.fresh_vars = set()
        self.reassigned = set()
        self.lp_vars = set()
        facts = la.facts
        for n in f.all_nodes():
            if n['k'] == 'BinaryOperator' and n.get('op') == '=':
                l = f.strip(f.ch(n)[0])
                if l is not None and l['k'] == 'DeclRefExpr':
                    self.reassigned.add(l['id'])
        for n in f.all_nodes():
            if n['k'] == 'DeclStmt':
                for v in n.get('vars', []):
                    if 'init' not in v or not is_node_ptr(v['type']):
                        continue
                    ini = f.strip(v['init'], casts=True)
                    if ini is None:
                        continue
                    if ini['k'] == 'CXXNewExpr':
                        self.fresh_vars.add(v['id'])
                        continue
                    if is_call(ini, cq=LOCK_PARENT):
                        self.lp_vars.add(v['id'])
                        continue
                    if ini['k'] in ('CXXNullPtrLiteralExpr', 'GNUNullExpr', 'InitListExpr', 'ImplicitValueInitExpr'):
                        continue
                    if v['id'] in self.reassigned:
                        toks = {la.tok(self, ini)}
                        for m in f.all_nodes():
                            if m['k'] == 'BinaryOperator' and m.get('op') == '=':
                                l = f.strip(f.ch(m)[0])
                                if l is not None and l['k'] == 'DeclRefExpr' and l['id'] == v['id']:
                                    toks.add(la.tok(self, f.ch(m)[1]))
                        if len(toks) == 1 and list(toks)[0][0] != 'unk':
                            self.alias[v['id']] = list(toks)[0]
                        continue
                    t_ = la.tok(self, ini)
                    if t_[0] != 'unk':
                        self.alias[v['id']] = t_      # a pointer that is a name for something known; else it names itself


class LockAnalysis:
    def __init__(self, facts, roots):
        self.facts = facts
        self.roots = roots
        self.info = {}
        self.summary = {}
        self.events = []
        self.visits = 0
        self.funcs = self._family(roots)

    # ---- which functions --------------------------------------------------
    def _family(self, roots):
        reach = R.reachable_funcs(self.facts, roots)
        fam = {}
        for g in reach.values():
            if g.is_lambda:
                continue
            if g.qname.startswith(Y) and (g.file not in ('version.h', 'atomic_wrapper.h', 'log.h', 'clock.h')):
                fam[g.fid] = g
        return fam

    def fi(self, f):
        if f.fid not in self.info:
            self.info[f.fid] = None
            self.info[f.fid] = FnInfo(self, f)
        return self.info[f.fid]

    # ---- tokens -----------------------------------------------------------
    def tok(self, fi, n, depth=0):
        f = fi.f if isinstance(fi, FnInfo) else fi
        n = f.strip(n, casts=True)
        if n is None or depth > 12:
            return ('unk', 'none')
        k = n['k']
        if k == 'DeclRefExpr':
            vid = n.get('id')
            if isinstance(fi, FnInfo):
                if vid in fi.alias:
                    return fi.alias[vid]
                if vid in fi.params:
                    # `T*& out`: an out-parameter like `T** out` (assigning it hands a node to the caller)
                    pty = next((p.get('type') or '' for p in f.params if p['id'] == vid), '')
                    if pty.replace(' ', '').endswith('*&') and not pty.startswith('const '):
                        return ('out', vid)
                    return ('param', vid)
            return ('var', vid)
        if k == 'CXXThisExpr':
            return ('this',)
        if k == 'MemberExpr':
            return self.tok(fi, f.ch(n)[0], depth + 1)
        if k == 'UnaryOperator' and n.get('op') == '*':
            c = f.strip(f.ch(n)[0], casts=True)
            if c is not None and c['k'] == 'DeclRefExpr' and isinstance(fi, FnInfo) and c['id'] in fi.params \
                    and (c.get('ty') or '').count('*') >= 2:
                return ('out', c['id'])
            return self.tok(fi, c, depth + 1)
        if k == 'UnaryOperator' and n.get('op') == '&':
            return self.tok(fi, f.ch(n)[0], depth + 1)
        if k == 'ArraySubscriptExpr':
            return self.tok(fi, f.ch(n)[0], depth + 1)
        if k in CALL_KINDS:
            cq = n.get('cq') or ''
            recv = call_recv(f, n)
            if cq in NAV and recv is not None:
                return (NAV[cq], self.tok(fi, recv, depth + 1))
            if cq in PART and recv is not None:
                return self.tok(fi, recv, depth + 1)
            if cq.startswith('std::array') and recv is not None:
                return self.tok(fi, recv, depth + 1)
            if cq.startswith('std::get') or cq == 'std::get':
                a = call_args(f, n)
                if a:
                    return self.tok(fi, a[0], depth + 1)
            if n.get('cn') in ('at', 'operator[]') and recv is not None:
                return self.tok(fi, recv, depth + 1)
            return ('unk', 'call ' + cq)
        if k == 'CXXNewExpr':
            return ('new', short_loc(n))
        if k in ('CXXNullPtrLiteralExpr', 'GNUNullExpr'):
            return ('null',)
        return ('unk', k)

    def provenance(self, fi, t, state):
        held, dirty, fresh = state[0], state[1], state[2]
        if t in fresh:
            return 'FRESH'
        if t[0] in ('prev', 'next', 'child', 'parent'):
            return t[0].upper()
        if t[0] == 'var':
            if t[1] in fi.fresh_vars:
                return 'FRESH'
            ini = R.var_decl_init(fi.f, t[1])
            hops = 0
            while ini is not None and hops < 4:
                for x in fi.f.walk(ini):
                    if is_call(x, cq=Y + 'find_border'):
                        return 'TARGET'
                # a copy of another local (`auto [b, v] = node_and_v;`): what that local was initialised from
                x0 = fi.f.strip(ini, casts=True)
                if x0 is not None and x0['k'] == 'DeclRefExpr' and x0.get('dk') == 'var':
                    ini = R.var_decl_init(fi.f, x0.get('id'))
                    hops += 1
                else:
                    break
            return 'LOCAL'
        if t[0] in ('param', 'this'):
            return 'PARAM'
        if t[0] in ('pr', 'ROOT'):
            return 'PARENT'
        return 'UNKNOWN'

    # ---- analysis of one function -----------------------------------------
    def analyse(self, f, record):
        fi = self.fi(f)
        la = self
        evs = []
        exits = []

        def ev(kind, n, ctx, **kw):
            if record:
                d = {'kind': kind, 'fn': f, 'loc': short_loc(n) if n else f.loc, 'ctx_path': None}
                d.update(kw)
                if kw.get('bad'):
                    d['ctx_path'] = ctx.witness()
                evs.append(d)

        def have(st, t, level='H'):
            held, dirty, fresh = st[0], st[1], st[2]
            if t in fresh and t not in held:
                return True  # unpublished node: no lock needed
            if level == 'F':
                return t in fresh
            if t not in held:
                return False
            if level == 'D':
                return t in fresh or (t, 'I') in dirty or (t, 'S') in dirty
            return True

        def need(st, t, level, n, ctx, what, cls=None):
            """Require token t at `level`; assume-at-entry for parameter-relative tokens."""
            held, dirty, fresh, assumed, released, needs = st
            if t[0] in ('null', 'unk', 'new'):
                return st, (t[0] == 'new')
            if have(st, t, level):
                return st, True
            if level == 'F':
                if param_relative(t) and t not in held:
                    return (held, dirty, fresh, assumed, released, needs | {(t, 'F')}), True
                return st, False
            if param_relative(t) and t not in released:
                if t in held and t in assumed and level == 'D':
                    needs = needs | {(t, 'D')}
                    return (held, dirty, fresh, assumed, released, needs), True
                if t not in held:
                    assumed = assumed | {t}
                    held = held | {t}
                    needs = needs | {(t, level)}
                    return (held, dirty, fresh, assumed, released, needs), True
            return st, False

        def release(st, t, n, ctx):
            held, dirty, fresh, assumed, released, needs = st
            if t in held:
                held = held - {t}
                dirty = frozenset(d for d in dirty if d[0] != t)
                # remembered as released (also when taken locally): a later use must not be explained away by
                # assuming the lock was held at entry
                released = released | {t}
                ev('release', n, ctx, token=t, bad=False)
                return (held, dirty, fresh, assumed, released, needs)
            if param_relative(t) and t not in released:
                assumed = assumed | {t}
                released = released | {t}
                ev('release', n, ctx, token=t, bad=False, assumed=True)
                return (held, dirty, fresh, assumed, released, needs)
            ev('release', n, ctx, token=t, bad=True, what='unlock of %s which is not held on this path' % tok_str(t))
            return st

        def acquire(st, t, n, ctx, how, blocking=True, src=None):
            held, dirty, fresh, assumed, released, needs = st
            prov = la.provenance(fi, t, st) if how != 'lock_parent' else 'PARENT'
            bad = None
            if t in held and blocking:
                bad = 'lock() on %s which this path already holds (self-deadlock)' % tok_str(t)
            ev('acquire', n, ctx, token=t, how=how, prov=prov, held=held, bad=bool(bad), what=bad, src=src,
               fresh=(t in fresh))
            held = held | {t}
            released = released - {t}
            return (held, dirty, fresh, assumed, released, needs)

        def apply_summary(st, n, ctx, g):
            sm = la.summary.get(g.fid)
            if sm is None:
                return st
            args = call_args(f, n)
            recv = call_recv(f, n)
            pidx = {p['id']: i for i, p in enumerate(g.params)}

            def mp(t):
                if t[0] == 'param':
                    i = pidx.get(t[1])
                    return la.tok(fi, args[i]) if i is not None and i < len(args) else ('unk', 'arg')
                if t[0] == 'this':
                    return la.tok(fi, recv) if recv is not None else ('unk', 'recv')
                if t[0] == 'out':
                    i = pidx.get(t[1])
                    if i is not None and i < len(args):
                        a = f.strip(args[i], casts=True)
                        if a is not None and a['k'] == 'UnaryOperator' and a.get('op') == '&':
                            c = f.strip(f.ch(a)[0], casts=True)
                            if c is not None and c['k'] == 'DeclRefExpr':
                                return ('var', c['id'])
                        return la.tok(fi, a)
                    return ('unk', 'out')
                if t[0] == 'ret':
                    # the variable that receives the call's value
                    p_ = f.parent(n)
                    if p_ is not None and p_['k'] == 'DeclStmt':
                        return ('var', p_['vars'][0]['id'])
                    if p_ is not None and p_['k'] == 'BinaryOperator' and p_.get('op') == '=':
                        l_ = f.strip(f.ch(p_)[0])
                        if l_ is not None and l_['k'] == 'DeclRefExpr':
                            return ('var', l_['id'])
                    return ('unk', 'ret')
                if t[0] in ('next', 'prev', 'parent', 'child'):
                    return (t[0], mp(t[1]))
                return t
            for (t, level) in sorted(sm['need'], key=repr):
                mt = mp(t)
                if level == 'D' and f.qname in D_EXEMPT_FUNCS:
                    level = 'H'
                st, ok = need(st, mt, level, n, ctx, 'call')
                ev('callneed', n, ctx, token=mt, level=level, callee=g, bad=not ok,
                   what=None if ok else '%s requires %s %s at entry, which does not hold here' %
                   (g.qname, tok_str(mt), 'locked' if level == 'H' else 'locked and dirty'))
            for t in sorted(sm['rel'], key=repr):
                mt = mp(t)
                st2, ok = need(st, mt, 'H', n, ctx, 'call')
                st = st2
                if not ok:
                    ev('callneed', n, ctx, token=mt, level='H', callee=g, bad=True,
                       what='%s releases %s, which is not held here' % (g.qname, tok_str(mt)))
                    continue
                held, dirty, fresh, assumed, released, needs = st
                held = held - {mt}
                dirty = frozenset(d for d in dirty if d[0] != mt)
                if mt in assumed:
                    released = released | {mt}
                st = (held, dirty, fresh, assumed, released, needs)
            for t in sorted(sm['keep'], key=repr):
                mt = mp(t)
                held, dirty, fresh, assumed, released, needs = st
                st = (held | {mt}, dirty, fresh, assumed, released, needs)
            for t in sorted(sm.get('publishes', ()), key=repr):
                mt = mp(t)
                held, dirty, fresh, assumed, released, needs = st
                st = (held, dirty, fresh - {mt}, assumed, released, needs)
            return st

        def publish(st, t):
            held, dirty, fresh, assumed, released, needs = st
            if t in fresh:
                return (held, dirty, fresh - {t}, assumed, released, needs)
            return st

        def step(ctx, n, st):
            k = n['k']
            if k == 'DeclStmt':
                held, dirty, fresh, assumed, released, needs = st
                for v in n.get('vars', []):
                    if v['id'] in fi.fresh_vars:
                        fresh = fresh | {('var', v['id'])}
                return (held, dirty, fresh, assumed, released, needs)
            if k == 'ReturnStmt':
                rv = f.ch(n)
                exits.append((st, n, ctx.witness() if record else None, la.tok(fi, rv[0]) if rv else None))
                return None
            if k not in CALL_KINDS:
                if k == 'BinaryOperator' and n.get('op') == '=':
                    # *out = x : hand a held token over to the out-parameter
                    c = f.ch(n)
                    lt = la.tok(fi, c[0])
                    if lt[0] == 'out':
                        rt = la.tok(fi, c[1])
                        held, dirty, fresh, assumed, released, needs = st
                        if rt in held:
                            held = (held - {rt}) | {lt}
                            dirty = frozenset(((lt if d[0] == rt else d[0]), d[1]) for d in dirty)
                        fresh = fresh - {rt}
                        return (held, dirty, fresh, assumed, released, needs)
                    # p = q with q a local that names a held node and p a local that names none: from here on the node
                    # goes by the name p (pointer copy; the analysis keeps one name per node)
                    l0 = f.strip(c[0], casts=True)
                    r0 = f.strip(c[1], casts=True)
                    if l0 is not None and r0 is not None and l0['k'] == 'DeclRefExpr' and r0['k'] == 'DeclRefExpr' and \
                            l0.get('dk') == 'var' and r0.get('dk') == 'var' and (l0.get('ty') or '').rstrip().endswith('*'):
                        rt = la.tok(fi, c[1])
                        held, dirty, fresh, assumed, released, needs = st
                        heldt = {h[0] if isinstance(h, tuple) and h and isinstance(h[0], tuple) else h for h in held}
                        if rt in held and lt not in held and rt[0] == 'var' and lt[0] in ('var', 'pr'):
                            nlt = ('var', l0['id'])
                            held = (held - {rt}) | {nlt}
                            dirty = frozenset(((nlt if d[0] == rt else d[0]), d[1]) for d in dirty)
                            if rt in fresh:
                                fresh = (fresh - {rt}) | {nlt}
                            return (held, dirty, fresh, assumed, released, needs)
                return st
            cq = n.get('cq') or ''
            recv = call_recv(f, n)
            if cq == LOCK:
                t = la.tok(fi, recv)
                return acquire(st, t, n, ctx, 'lock')
            if cq == UNLOCK:
                return release(st, la.tok(fi, recv), n, ctx)
            if cq == ROOT_LOCK:
                return acquire(st, ('ROOT',), n, ctx, 'root_lock')
            if cq == ROOT_UNLOCK:
                return release(st, ('ROOT',), n, ctx)
            if cq == LOCK_PARENT:
                p = f.parent(n)
                var = None
                if p is not None and p['k'] == 'DeclStmt':
                    var = p['vars'][0]['id']
                elif p is not None and p['k'] == 'BinaryOperator' and p.get('op') == '=':
                    l = f.strip(f.ch(p)[0])
                    var = l.get('id') if l is not None else None
                if var is None:
                    raise AnalysisBroken('lock_parent result is not bound to a variable at %s' % n.get('loc'))
                src = la.tok(fi, recv)
                return acquire(st, ('pr', var), n, ctx, 'lock_parent', src=src)
            if cq == SET_VERSION:
                # copy of a (locked, dirty) version word: the receiver becomes locked like the source
                a = call_args(f, n)
                srcs = [x for x in f.walk(a[0]) if is_call(x, cq=GET_VERSION)] if a else []
                t = la.tok(fi, recv)
                if srcs:
                    s = la.tok(fi, call_recv(f, srcs[0]))
                    if s not in st[0] and param_relative(s):
                        st, _ = need(st, s, 'H', n, ctx, 'copy')
                    held, dirty, fresh, assumed, released, needs = st
                    ev('rawversion', n, ctx, token=t, fresh=(t in fresh), src=s, src_held=(s in held), bad=False)
                    if s in held:
                        st = acquire(st, t, n, ctx, 'copy', blocking=False, src=s)
                        held, dirty, fresh, assumed, released, needs = st
                        dirty = dirty | frozenset((t, d[1]) for d in dirty if d[0] == s)
                        st = (held, dirty, fresh, assumed, released, needs)
                    return st
                ev('rawversion', n, ctx, token=t, fresh=(t in st[2]), src=None, src_held=False, bad=False)
                return st
            if cq in SPIN and cq != LOCK:
                t = la.tok(fi, recv) if recv is not None else None
                if t is not None:
                    bad = t in st[0] and t not in st[2]
                    ev('spin', n, ctx, token=t, callee=cq, bad=bad,
                       what='%s spins on the version of %s while this path holds its lock' %
                       (cq.replace(Y, ''), tok_str(t)) if bad else None)
                return st
            if cq in SET_DIRTY:
                t = la.tok(fi, recv)
                a = call_args(f, n)
                on = bool(a) and R.const_of(f, a[0]) == 'T'
                st, ok = need(st, t, 'H', n, ctx, 'bits')
                ev('setdirty', n, ctx, token=t, flag=SET_DIRTY[cq], on=on, bad=not ok, fresh=(t in st[2]),
                   recv_ty=(f.strip(recv) or {}).get('ty') if recv is not None else None,
                   what=None if ok else 'dirty bit of %s changed without holding its lock' % tok_str(t))
                held, dirty, fresh, assumed, released, needs = st
                if on:
                    dirty = dirty | {(t, SET_DIRTY[cq])}
                else:
                    dirty = dirty - {(t, SET_DIRTY[cq])}
                return (held, dirty, fresh, assumed, released, needs)
            if cq == Y + 'base_node::set_parent':
                x = la.tok(fi, recv)
                a = call_args(f, n)
                p = la.tok(fi, a[0]) if a else ('unk', 'arg')
                held, dirty, fresh = st[0], st[1], st[2]
                ok = x in fresh
                if not ok and p == ('null',):
                    ok = ('ROOT',) in held
                    if not ok:
                        st, ok = need(st, ('ROOT',), 'H', n, ctx, 'parent')
                elif not ok:
                    if p[0] == 'pr':
                        ok = p in held
                    else:
                        st, ok = need(st, p, 'H', n, ctx, 'parent')
                ev('mutate', n, ctx, cls='parent', token=x, other=p, bad=not ok, callee=cq,
                   what=None if ok else 'parent pointer of %s set to %s without holding the lock of the new parent' %
                   (tok_str(x), tok_str(p)))
                st = publish(st, p)
                return st
            if cq == Y + 'border_node::set_prev':
                x = la.tok(fi, recv)
                a = call_args(f, n)
                q = la.tok(fi, a[0]) if a else ('unk', 'arg')
                held, dirty, fresh = st[0], st[1], st[2]
                ok = x in fresh
                exc = None
                if not ok and q == ('null',):
                    # named exception: the held leftmost border unlinks itself: next(this)->set_prev(nullptr)
                    ok = x[0] == 'next' and have(st, x[1], 'H')
                    if not ok and x[0] == 'next' and param_relative(x[1]):
                        st, ok = need(st, x[1], 'H', n, ctx, 'prev')
                    exc = 'leftmost-unlink'
                    if not ok and have(st, x, 'H') and ('ROOT',) in held:
                        # named exception: a held node that is the tree root (root lock held: no sibling exists whose
                        # lock could protect the field) resets its own prev pointer
                        ok = True
                        exc = 'root-reset'
                elif not ok:
                    st, ok = need(st, q, 'H', n, ctx, 'prev')
                ev('mutate', n, ctx, cls='prev', token=x, other=q, bad=not ok, callee=cq, exception=exc,
                   what=None if ok else 'prev pointer of %s set to %s without holding the lock of the new previous '
                                        'sibling' % (tok_str(x), tok_str(q)))
                st = publish(st, q)
                return st
            if cq in (Y + 'tree_instance::store_root_ptr', Y + 'tree_instance::cas_root_ptr'):
                a = call_args(f, n)
                held = st[0]
                tr = la.tok(fi, recv)
                ok = ('ROOT',) in held
                ev('mutate', n, ctx, cls='rootptr', token=tr, other=la.tok(fi, a[0]) if a else None, bad=False,
                   root_held=ok, callee=cq)
                for x in a:
                    st = publish(st, la.tok(fi, x))
                    for y in f.walk(x):
                        if y['k'] == 'DeclRefExpr':
                            st = publish(st, ('var', y.get('id')))
                return st
            if cq in MUT:
                cls, need_d = MUT[cq]
                t = la.tok(fi, recv)
                if (cq == Y + 'border_node::init_border' and len(call_args(f, n)) != 1) or \
                        cq == Y + 'interior_node::init_interior' or \
                        (cq == Y + 'base_node::init_base' and len(call_args(f, n)) == 0):
                    g0 = la.facts.get(n.get('callee'))
                    if g0 is not None:
                        st = apply_summary(st, n, ctx, g0)
                    return st
                level = 'D' if (need_d and f.qname not in D_EXEMPT_FUNCS) else 'H'
                if cls == 'rootflag':
                    held = st[0]
                    ok = have(st, t, 'H')
                    exc = None
                    if not ok:
                        # named exception: promotion of the last sibling with {this, parent-or-ROOT} held
                        ok2 = have(st, ('this',), 'H') or (param_relative(('this',)) and ('this',) not in st[4])
                        par = any(h[0] in ('pr', 'ROOT') or h[0] == 'var' for h in held if h != ('this',))
                        if f.qname == Y + 'interior_node::delete_of' and ok2 and par:
                            ok, exc = True, 'last-sibling-promotion'
                        else:
                            st, ok = need(st, t, 'H', n, ctx, 'rootflag')
                    ev('mutate', n, ctx, cls=cls, token=t, bad=not ok, callee=cq, exception=exc,
                       what=None if ok else 'root flag of %s changed without holding its lock' % tok_str(t))
                    return st
                st, ok = need(st, t, level, n, ctx, cls)
                ev('mutate', n, ctx, cls=cls, token=t, bad=not ok, callee=cq, level=level,
                   recv_ty=(f.strip(recv) or {}).get('ty') if recv is not None else None,
                   dirty=frozenset(d[1] for d in st[1] if d[0] == t), fresh=(t in st[2]),
                   what=None if ok else '%s on %s %s' % (
                       cq.replace(Y, ''), tok_str(t),
                       'without holding its lock' if not have(st, t, 'H') else
                       'while the node is not marked dirty (inserting_deleting / splitting): readers cannot notice'))
                # publication through link stores
                if cq in (Y + 'border_node::set_next', Y + 'interior_node::set_child_at',
                          Y + 'border_node::set_lv_next_layer', Y + 'link_or_value::set_next_layer',
                          Y + 'interior_node::insert', Y + 'interior_node::swap_child'):
                    for a in call_args(f, n):
                        st = publish(st, la.tok(fi, a))
                # fall through to summary application for helpers with bodies (needs of `this`)
            g = la.facts.get(n.get('callee'))
            if g is not None and g.fid in la.funcs and g.fid != f.fid or (g is not None and g.fid == f.fid):
                st = apply_summary(st, n, ctx, g)
            return st

        def branch(ctx, blk, idx, st):
            t = blk.term
            if not t or 'cond' not in t or len(blk.succ) != 2:
                return st
            flip, shape = R.cond_shape(f, t['cond'])
            if shape[0] == 'nonnull':
                var = shape[1]
                truth = (idx == 0) != flip
                held, dirty, fresh, assumed, released, needs = st
                if ('pr', var) in held:
                    held = held - {('pr', var)}
                    newt = ('var', var) if truth else ('ROOT',)
                    held = held | {newt}
                    return (held, dirty, fresh, assumed, released, needs)
            return st

        ex = Explorer(f, step, branch)
        init = (frozenset(), frozenset(), frozenset(), frozenset(), frozenset(), frozenset())
        ex.run(init)
        self.visits += ex.visits
        for s in ex.exit_states:
            exits.append((s, None, None, None))
        return evs, exits

    def summarise(self, f, exits):
        """Summary from exit states; also returns the per-exit effects for the balance rule."""
        effects = []
        need = set()
        for (st, n, path, rtok) in exits:
            held, dirty, fresh, assumed, released, needs = st
            rel = frozenset(t for t in released if param_relative(t) and t in assumed)
            keep = frozenset(t for t in held if t not in assumed)
            if rtok is not None and rtok in keep and rtok[0] == 'var':
                # the node is handed to the caller as the return value (locked): like an out-parameter
                keep = (keep - {rtok}) | {('ret',)}
            effects.append({'rel': rel, 'keep': keep, 'node': n, 'path': path, 'ret': rtok,
                            'held': held, 'assumed': assumed})
            need |= set(needs)
        return effects, need

    def run(self, max_iter=8):
        order = list(self.funcs.values())
        for f in order:
            self.summary[f.fid] = {'rel': frozenset(), 'keep': frozenset(), 'need': frozenset(),
                                   'publishes': frozenset()}
        for it in range(max_iter):
            changed = False
            for f in order:
                if is_fresh_initialiser(f):
                    sm = {'rel': frozenset(), 'keep': frozenset(), 'need': frozenset({(('this',), 'F')}),
                          'publishes': frozenset()}
                    if sm != self.summary[f.fid]:
                        self.summary[f.fid] = sm
                        changed = True
                    continue
                evs, exits = self.analyse(f, record=False)
                effects, need = self.summarise(f, exits)
                rel = frozenset().union(*[e['rel'] for e in effects]) if effects else frozenset()
                keep_all = [frozenset(t for t in e['keep'] if t[0] in ('out', 'ret') or param_relative(t)) for e in effects]
                keep = frozenset().union(*keep_all) if keep_all else frozenset()
                sm = {'rel': rel, 'keep': keep, 'need': frozenset(need), 'publishes': frozenset()}
                if sm != self.summary[f.fid]:
                    self.summary[f.fid] = sm
                    changed = True
            if not changed:
                break
        else:
            raise AnalysisBroken('E-LOCK: summaries did not stabilise in %d iterations' % max_iter)
        self.iterations = it + 1
        self.effects = {}
        for f in order:
            if is_fresh_initialiser(f):
                self.effects[f.fid] = []
                continue
            evs, exits = self.analyse(f, record=True)
            self.events.extend(evs)
            self.effects[f.fid], _ = self.summarise(f, exits)
        return self
