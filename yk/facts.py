"""Fact base access: functions, CFG blocks, element trees, term normalisation.

Nothing here decides a property; it is the shared vocabulary of the rules.
Rules identify program constructs by *resolved* declaration names, types and
the variable an access path is rooted in -- never by source text or position.
"""
import json
import os
import re

WRAPPERS = {
    'ImplicitCastExpr', 'ParenExpr', 'ExprWithCleanups', 'MaterializeTemporaryExpr',
    'CXXBindTemporaryExpr', 'ConstantExpr', 'SubstNonTypeTemplateParmExpr',
    'CXXFunctionalCastExpr', 'CXXDefaultArgExpr', 'CXXDefaultInitExpr', 'FullExpr',
}
EXPLICIT_CASTS = {
    'CStyleCastExpr', 'CXXStaticCastExpr', 'CXXReinterpretCastExpr',
    'CXXDynamicCastExpr', 'CXXConstCastExpr',
}
CALL_KINDS = {'CallExpr', 'CXXMemberCallExpr', 'CXXOperatorCallExpr'}


class AnalysisBroken(Exception):
    """The analysis cannot be carried out (anchor vanished, unmodelled construct)."""


class Block:
    __slots__ = ('id', 'elems', 'succ', 'term', 'label')

    def __init__(self, bid, raw):
        self.id = bid
        self.elems = raw.get('elems', [])
        self.succ = raw.get('succ', [])
        self.term = raw.get('term')
        self.label = raw.get('label')


class Func:
    def __init__(self, fid, raw):
        self.fid = fid
        self.raw = raw
        self.qname = raw['qname']
        self.name = raw['name']
        self.targs = raw.get('targs', '')
        self.params = raw.get('params', [])
        self.loc = raw.get('loc', '')
        self.file = self.loc.split(':')[0]
        self.cls = raw.get('cls')
        self.is_lambda = bool(raw.get('lambda'))
        self.enclosing = raw.get('enclosing')
        self.elems = {int(k): v for k, v in raw.get('elems', {}).items()}
        self.blocks = {int(k): Block(int(k), v) for k, v in raw.get('blocks', {}).items()}
        self.entry = raw.get('entry')
        self.exit = raw.get('exit')
        self._preds = None
        self._pos = None

    # ---- nodes -----------------------------------------------------------
    def node(self, x):
        if x is None:
            return None
        if isinstance(x, int):
            return self.elems[x]
        return x

    def ch(self, n):
        n = self.node(n)
        return [self.node(c) for c in n.get('ch', [])]

    def strip(self, n, casts=False):
        n = self.node(n)
        while n is not None:
            k = n['k']
            if k in WRAPPERS or (casts and k in EXPLICIT_CASTS):
                c = n.get('ch', [])
                if not c:
                    return n
                n = self.node(c[0])
                continue
            if k == 'InitListExpr' and len(n.get('ch', [])) == 1:
                c0 = self.node(n['ch'][0])
                if c0 is not None and (c0.get('ty') or '').replace('const ', '') == (n.get('ty') or '').replace('const ', ''):
                    n = c0
                    continue
            if k == 'CXXConstructExpr' and len(n.get('args', [])) == 1 and \
                    n.get('ctor') and self.node(n['args'][0]) is not None and \
                    _same_class_copy(n, self.node(n['args'][0])):
                # copy/move construction of the same class: transparent
                n = self.node(n['args'][0])
                continue
            return n
        return n

    def walk(self, n, seen=None):
        """Pre-order walk of the expression tree below n (following element refs)."""
        n = self.node(n)
        if n is None:
            return
        if seen is None:
            seen = set()
        if id(n) in seen:
            return
        seen.add(id(n))
        yield n
        for c in n.get('ch', []):
            yield from self.walk(c, seen)
        if n['k'] == 'DeclStmt':
            for v in n.get('vars', []):
                if 'init' in v:
                    yield from self.walk(v['init'], seen)

    def _inline(self, n):
        yield n
        for c in n.get('ch', []):
            if isinstance(c, dict):
                yield from self._inline(c)
        for key in ('args',):
            for c in n.get(key, []):
                if isinstance(c, dict) and c not in n.get('ch', []):
                    yield from self._inline(c)
        if isinstance(n.get('recv'), dict) and n['recv'] not in n.get('ch', []):
            yield from self._inline(n['recv'])
        if n['k'] == 'DeclStmt':
            for v in n.get('vars', []):
                if isinstance(v.get('init'), dict):
                    yield from self._inline(v['init'])

    def all_nodes(self):
        """Every node of the function once: block elements in block order plus the
        nodes that are serialised inline below them (not CFG elements themselves)."""
        for bid in sorted(self.blocks, reverse=True):
            for e in self.blocks[bid].elems:
                yield from self._inline(self.node(e))

    # ---- CFG -------------------------------------------------------------
    def preds(self):
        if self._preds is None:
            p = {b: [] for b in self.blocks}
            for b, blk in self.blocks.items():
                for i, s in enumerate(blk.succ):
                    if s is not None:
                        p[s].append((b, i))
            self._preds = p
        return self._preds

    def positions(self):
        """element id -> (block id, index)"""
        if self._pos is None:
            pos = {}
            for b, blk in self.blocks.items():
                for i, e in enumerate(blk.elems):
                    if isinstance(e, int):
                        pos[e] = (b, i)
            self._pos = pos
        return self._pos

    def elem_id(self, n):
        for k, v in self.elems.items():
            if v is n:
                return k
        return None

    def parents(self):
        """id(node) -> parent node (the node that has it as child / argument / receiver / initialiser)."""
        if getattr(self, '_par', None) is None:
            par = {}
            for n in self.all_nodes():
                kids = list(n.get('ch', [])) + list(n.get('args', []))
                if 'recv' in n:
                    kids.append(n['recv'])
                if n['k'] == 'DeclStmt':
                    kids += [v['init'] for v in n.get('vars', []) if 'init' in v]
                for c in kids:
                    c = self.node(c)
                    if c is not None and id(c) not in par:
                        par[id(c)] = n
            self._par = par
        return self._par

    def parent(self, n, transparent=True):
        """Nearest enclosing node, skipping wrappers / casts / same-class copies when transparent."""
        par = self.parents()
        p = par.get(id(n))
        while transparent and p is not None and (
                p['k'] in WRAPPERS or p['k'] in EXPLICIT_CASTS or
                (p['k'] == 'MemberExpr' and 'mfid' in p) or
                (p['k'] == 'InitListExpr' and len(p.get('ch', [])) == 1) or
                (p['k'] == 'CXXConstructExpr' and len(p.get('args', [])) == 1 and
                 _same_class_copy(p, self.node(p['args'][0])))):
            p = par.get(id(p))
        return p

    def reachable_blocks(self, start=None):
        start = self.entry if start is None else start
        seen = {start}
        st = [start]
        while st:
            b = st.pop()
            for s in self.blocks[b].succ:
                if s is not None and s not in seen:
                    seen.add(s)
                    st.append(s)
        return seen

    def __repr__(self):
        return '<Func %s>' % self.fid[:80]


def _same_class_copy(ctor, arg):
    t = (arg.get('ty') or '').replace('const ', '').strip()
    return t == ctor.get('ctor') or t.startswith((ctor.get('ctor') or '\0') + '<')


class Facts:
    def __init__(self, path):
        with open(path) as fh:
            raw = json.load(fh)
        self.raw = raw
        self.path = path
        # code in functions that did not exist on the pinned tree is attributed to their callers (yk/inline.py)
        from . import inline
        self.inline_log = inline.apply(raw, lambdas=os.environ.get('YK_INLINE_LAMBDAS', '1') != '0')
        self.include_root = raw.get('include_root')
        self.records = raw.get('records', {})
        self.globals = raw.get('globals', {})
        self.functions = {fid: Func(fid, fr) for fid, fr in raw['functions'].items()}
        self._by_q = {}
        for f in self.functions.values():
            self._by_q.setdefault(f.qname, []).append(f)

    def by_qname(self, q, pred=None):
        r = list(self._by_q.get(q, []))
        if pred:
            r = [f for f in r if pred(f)]
        return r

    def one(self, q, pred=None, what=None):
        r = self.by_qname(q, pred)
        if len(r) != 1:
            raise AnalysisBroken('anchor %s: expected exactly one function, found %d%s' %
                                 (what or q, len(r), ' (' + ', '.join(x.fid[:60] for x in r) + ')' if r else ''))
        return r[0]

    def some(self, q, pred=None, what=None):
        r = self.by_qname(q, pred)
        if not r:
            raise AnalysisBroken('anchor %s: no such function in the analysed program' % (what or q))
        return r

    def get(self, fid):
        return self.functions.get(fid)

    def lambdas_of(self, f):
        return [g for g in self.functions.values() if g.is_lambda and g.enclosing == f.fid]


# ---------------------------------------------------------------------------
# expression helpers
# ---------------------------------------------------------------------------

def is_call(n, cq=None, cn=None):
    if n is None or n['k'] not in CALL_KINDS:
        return False
    if cq is not None:
        if isinstance(cq, (set, frozenset, tuple, list)):
            if n.get('cq') not in cq:
                return False
        elif n.get('cq') != cq:
            return False
    if cn is not None:
        if isinstance(cn, (set, frozenset, tuple, list)):
            if n.get('cn') not in cn:
                return False
        elif n.get('cn') != cn:
            return False
    return True


def call_recv(f, n):
    """Receiver expression of a member call (or first argument of a member operator call)."""
    if n['k'] == 'CXXMemberCallExpr':
        return f.node(n.get('recv'))
    if n['k'] == 'CXXOperatorCallExpr' and n.get('mcls') and n.get('args'):
        return f.node(n['args'][0])
    return None


def call_args(f, n):
    a = [f.node(x) for x in n.get('args', [])]
    if n['k'] == 'CXXOperatorCallExpr' and n.get('mcls'):
        return a[1:]
    return a


def const_val(f, n):
    n = f.strip(n, casts=True)
    if n is None:
        return None
    for key in ('cv', 'val'):
        if key in n and n['k'] != 'StringLiteral':
            try:
                return int(n[key])
            except ValueError:
                return None
    # look through wrappers that carried the constant
    return None


def cv_through(f, n):
    """Constant value of n, also looking at wrappers around it (cv is attached to prvalues)."""
    n = f.node(n)
    while n is not None:
        if 'cv' in n:
            return int(n['cv'])
        if n['k'] in ('IntegerLiteral', 'CXXBoolLiteralExpr'):
            return int(n['val'])
        if n['k'] in WRAPPERS or n['k'] in EXPLICIT_CASTS:
            c = n.get('ch', [])
            if not c:
                return None
            n = f.node(c[0])
            continue
        return None
    return None


# accessors that return (a reference / pointer to) a part of their receiver: an access path continues through them
PART_ACCESSORS = {'yakushima::border_node::get_permutation', 'yakushima::border_node::get_lv_at',
                  'yakushima::base_node::get_key_slice_ref', 'yakushima::base_node::get_key_length_ref',
                  'yakushima::thread_info::get_gc_info', 'yakushima::iscan_context::stack_top'}


def root(f, n):
    """The variable / this / call an access path is rooted in.

    Returns ('var', id) | ('this',) | ('call', node) | ('new', node) | ('lit', node) | ('other', node)
    """
    n = f.strip(n, casts=True)
    while n is not None:
        k = n['k']
        if k == 'DeclRefExpr':
            if n.get('dk') in ('var', 'parm', 'global', 'binding'):
                return ('var', n['id'])
            return ('other', n)
        if k == 'CXXThisExpr':
            return ('this',)
        if k == 'MemberExpr':
            n = f.strip(f.ch(n)[0], casts=True)
            continue
        if k == 'UnaryOperator' and n.get('op') in ('*', '&'):
            n = f.strip(f.ch(n)[0], casts=True)
            continue
        if k == 'ArraySubscriptExpr':
            n = f.strip(f.ch(n)[0], casts=True)
            continue
        if k in CALL_KINDS:
            if n.get('cq') in PART_ACCESSORS and n['k'] == 'CXXMemberCallExpr':
                n = f.strip(f.node(n.get('recv')), casts=True)
                continue
            return ('call', n)
        if k == 'CXXNewExpr':
            return ('new', n)
        if k in ('IntegerLiteral', 'CXXNullPtrLiteralExpr', 'CXXBoolLiteralExpr', 'GNUNullExpr'):
            return ('lit', n)
        return ('other', n)
    return ('other', None)


def root_var(f, n):
    r = root(f, n)
    if r[0] == 'var':
        return r[1]
    if r[0] == 'this':
        return 'this'
    return None


def vname(var_id):
    """Human name of a variable id ('name@file:line:col' or a qualified name)."""
    if var_id is None:
        return None
    return var_id.split('@')[0]


def term(f, n, depth=0, res=False):
    """Structural normal form of an expression as nested tuples (for pattern matching).

    ('var', name) | ('this',) | ('const', int) | ('null',) | ('enum', qname) | ('str', s)
    ('call', cq, recv_term|None, (arg_terms...)) | ('member', base_term, qualified_field)
    ('un', op, t) | ('bin', op, a, b) | ('cast', type, t) | ('new', type) | ('other', kind)
    Variables are named by their *declared name* (not location) so that terms compare
    equal across instantiations; rules that need identity use root_var().
    """
    n0 = f.node(n)
    # a constant attached to a wrapper (e.g. the lvalue-to-rvalue conversion of a constexpr variable)
    while n0 is not None and n0['k'] in WRAPPERS:
        if 'cv' in n0:
            return ('const', int(n0['cv']))
        c0 = n0.get('ch', [])
        if not c0:
            break
        n0 = f.node(c0[0])
    n = f.strip(n)
    if n is None or depth > 40:
        return ('other', 'none')
    k = n['k']
    if 'cv' in n and k not in ('DeclRefExpr',):
        return ('const', int(n['cv']))
    if k == 'DeclRefExpr':
        if n.get('dk') == 'enum':
            return ('enum', n['id'])
        if n.get('dk') == 'func':
            return ('func', n.get('q'))
        if res:
            ini = const_local_init(f, n.get('id'))
            if ini is not None:
                return term(f, ini, depth + 1, res)
        return ('var', n['name'])
    if k == 'CXXThisExpr':
        return ('this',)
    if k in ('IntegerLiteral', 'CXXBoolLiteralExpr', 'CharacterLiteral'):
        return ('const', int(n['val']))
    if k in ('CXXNullPtrLiteralExpr', 'GNUNullExpr'):
        return ('null',)
    if k == 'StringLiteral':
        return ('str', n.get('val'))
    if k == 'MemberExpr':
        return ('member', term(f, f.ch(n)[0], depth + 1, res), n['member'])
    if k == 'UnaryOperator':
        return ('un', n['op'], term(f, f.ch(n)[0], depth + 1, res))
    if k in ('BinaryOperator', 'CompoundAssignOperator'):
        c = f.ch(n)
        return ('bin', n['op'], term(f, c[0], depth + 1, res), term(f, c[1], depth + 1, res))
    if k in CALL_KINDS:
        recv = call_recv(f, n)
        return ('call', n.get('cq'), term(f, recv, depth + 1, res) if recv is not None else None,
                tuple(term(f, a, depth + 1, res) for a in call_args(f, n)))
    if k in EXPLICIT_CASTS:
        return ('cast', n.get('ty'), term(f, f.ch(n)[0], depth + 1, res))
    if k == 'CXXNewExpr':
        return ('new', n.get('alloc_ty'))
    if k == 'CXXConstructExpr':
        return ('ctor', n.get('ctor'), tuple(term(f, a, depth + 1, res) for a in n.get('args', [])))
    if k == 'ConditionalOperator':
        c = f.ch(n)
        return ('?:', term(f, c[0], depth + 1, res), term(f, c[1], depth + 1, res), term(f, c[2], depth + 1, res))
    if k == 'ArraySubscriptExpr':
        c = f.ch(n)
        return ('idx', term(f, c[0], depth + 1, res), term(f, c[1], depth + 1, res))
    if k == 'InitListExpr':
        return ('init', tuple(term(f, c, depth + 1, res) for c in f.ch(n)))
    if k == 'UnaryExprOrTypeTraitExpr':
        return ('trait', n.get('trait'), n.get('arg_ty'))
    return ('other', k)


def const_local_init(f, var_id):
    """Initialiser of a const-qualified local (`const T x = init;` / `T* const p = init;`): such a variable is a name for
    its initialiser, rules that match expressions may look through it."""
    cache = f.__dict__.setdefault('_const_local_init', None)
    if cache is None:
        cache = {}
        for nd in f.all_nodes():
            if nd['k'] == 'DeclStmt':
                for v in nd.get('vars', []):
                    ty = v.get('type') or ''
                    if 'init' in v and (ty.startswith('const ') or ty.rstrip().endswith('const')) and '&' not in ty:
                        ini = f.node(v['init'])
                        x = f.strip(ini, casts=True)
                        if x is not None and x['k'] == 'InitListExpr' and len(f.ch(x)) == 1:
                            ini = f.ch(x)[0]
                        cache[v['id']] = ini
        f.__dict__['_const_local_init'] = cache
    return cache.get(var_id)


def term_str(t):
    """Readable rendering of a term (for reports)."""
    if t is None:
        return ''
    tag = t[0]
    if tag == 'var':
        return t[1]
    if tag == 'this':
        return 'this'
    if tag == 'const':
        return str(t[1])
    if tag == 'null':
        return 'nullptr'
    if tag == 'enum':
        return t[1].replace('yakushima::', '')
    if tag == 'str':
        return json.dumps(t[1])
    if tag == 'member':
        return '%s.%s' % (term_str(t[1]), t[2].split('::')[-1])
    if tag == 'un':
        return '%s(%s)' % (t[1], term_str(t[2]))
    if tag == 'bin':
        return '(%s %s %s)' % (term_str(t[2]), t[1], term_str(t[3]))
    if tag == 'call':
        nm = (t[1] or '?').replace('yakushima::', '')
        args = ', '.join(term_str(a) for a in t[3])
        if t[2] is not None:
            return '%s.%s(%s)' % (term_str(t[2]), nm.split('::')[-1], args)
        return '%s(%s)' % (nm, args)
    if tag == 'cast':
        return term_str(t[2])
    if tag == '?:':
        return '(%s ? %s : %s)' % (term_str(t[1]), term_str(t[2]), term_str(t[3]))
    if tag == 'trait':
        return '%s(%s)' % (t[1], t[2])
    if tag == 'idx':
        return '%s[%s]' % (term_str(t[1]), term_str(t[2]))
    if tag in ('ctor',):
        return '%s{%s}' % (t[1].split('::')[-1], ', '.join(term_str(a) for a in t[2]))
    return '<%s>' % (str(t[1]) if len(t) > 1 else tag,)


def short_loc(n):
    loc = (n or {}).get('loc', '')
    p = loc.split(':')
    return ':'.join(p[:2]) if len(p) >= 2 else loc


def calls_in(f, pred=None):
    """All call elements of f (each once)."""
    out = []
    for n in f.all_nodes():
        if n['k'] in CALL_KINDS or n['k'] == 'CXXConstructExpr':
            if pred is None or pred(n):
                out.append(n)
    return out


def is_yk(n):
    cq = n.get('cq') or ''
    return cq.startswith('yakushima::')
