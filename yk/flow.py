"""CFG utilities and the path-sensitive explorer (engines E-CFG / E-TS of DESIGN.md).

The explorer propagates *rule-defined finite abstract states* along every CFG
path (a powerset / disjunctive dataflow): each (block, state) pair is visited
once, elements of a block are applied in evaluation order through the rule's
`step`, and the rule's `branch` refines or kills a state on each outgoing edge.
Because the state space of every rule is finite and small, this terminates and
covers all paths of the function, including the ones no execution ever takes.
A parent map yields a witness path (list of source locations) for every report.
"""
from collections import deque

from .facts import AnalysisBroken, short_loc


class Ctx:
    """What a rule callback sees while the explorer walks one function."""

    def __init__(self, explorer, f):
        self.ex = explorer
        self.f = f
        self.block = None
        self.index = None
        self.key = None  # (block id, entry state) of the visit in progress

    def witness(self, limit=60):
        return self.ex.witness(self.key, self.block, self.index, limit)


class Explorer:
    def __init__(self, f, step, branch=None, max_visits=400000):
        self.f = f
        self.step = step
        self.branch = branch
        self.max_visits = max_visits
        self.parent = {}
        self.visits = 0
        self.paths_ended = 0
        self.exit_states = set()
        self.return_states = []  # (state, return node)

    def run(self, init, start=None):
        f = self.f
        start = f.entry if start is None else start
        inits = init if isinstance(init, (list, set, tuple)) and not _is_state(init) else [init]
        work = deque()
        seen = set()
        for s in inits:
            key = (start, s)
            if key not in seen:
                seen.add(key)
                self.parent[key] = None
                work.append(key)
        ctx = Ctx(self, f)
        while work:
            key = work.popleft()
            b, st = key
            self.visits += 1
            if self.visits > self.max_visits:
                raise AnalysisBroken('explorer: state space exceeded %d visits in %s' % (self.max_visits, f.qname))
            blk = f.blocks[b]
            ctx.block = b
            ctx.key = key
            states = [st]
            for i, e in enumerate(blk.elems):
                ctx.index = i
                n = f.node(e)
                nxt = []
                for s in states:
                    r = self.step(ctx, n, s)
                    if r is None:
                        self.paths_ended += 1
                        continue
                    if _is_state(r):
                        nxt.append(r)
                    else:
                        nxt.extend(r)
                    if n['k'] == 'ReturnStmt':
                        for rs in ([r] if _is_state(r) else r):
                            self.return_states.append((rs, n))
                # de-duplicate, keep order
                states = list(dict.fromkeys(nxt))
                if not states:
                    break
            if not states:
                continue
            ctx.index = len(blk.elems)
            if b == f.exit:
                self.exit_states.update(states)
                continue
            for idx, tgt in enumerate(blk.succ):
                if tgt is None:
                    continue
                for s in states:
                    s2 = s
                    if self.branch is not None and (len(blk.succ) > 1 or
                                                    (blk.term and blk.term.get('k') == 'GotoStmt')):
                        s2 = self.branch(ctx, blk, idx, s)
                        if s2 is None:
                            continue
                        # a branch on a bool local initialised right before it (`const bool c = <expr>; if (c)`)
                        # also tells the rule what <expr> says on that edge
                        if len(blk.succ) == 2:
                            alts = implied_conditions(f, blk, idx == 0)
                            if alts:
                                outs = []
                                for alt in alts:
                                    s3 = s2
                                    for (node, truth) in alt:
                                        syn = _SynthBlock(blk, node, tgt)
                                        s3 = self.branch(ctx, syn, 0 if truth else 1, s3)
                                        if s3 is None:
                                            break
                                    if s3 is not None:
                                        outs.append(s3)
                                for s3 in outs:
                                    k2 = (tgt, s3)
                                    if k2 not in seen:
                                        seen.add(k2)
                                        self.parent[k2] = key
                                        work.append(k2)
                                continue
                    k2 = (tgt, s2)
                    if k2 not in seen:
                        seen.add(k2)
                        self.parent[k2] = key
                        work.append(k2)
        self.seen = seen
        return self

    def witness(self, key, block=None, index=None, limit=60):
        """Source-location hops from the function entry to the visit `key`."""
        f = self.f
        chain = []
        k = key
        while k is not None:
            chain.append(k[0])
            k = self.parent.get(k)
        chain.reverse()
        hops = []
        for b in chain:
            blk = f.blocks[b]
            loc = None
            if blk.label:
                loc = 'label %s' % blk.label
            for e in blk.elems:
                n = f.node(e)
                if n.get('loc'):
                    l = short_loc(n)
                    loc = (loc + ' ' + l) if loc and loc.startswith('label') else l
                    break
            if loc is None and blk.term:
                loc = short_loc(blk.term)
            if loc and (not hops or hops[-1] != loc):
                hops.append(loc)
        if block is not None and index is not None:
            blk = f.blocks[block]
            if index < len(blk.elems):
                l = short_loc(f.node(blk.elems[index]))
                if l and (not hops or hops[-1] != l):
                    hops.append(l)
        if len(hops) > limit:
            hops = hops[:limit // 2] + ['...'] + hops[-limit // 2:]
        return hops


class _SynthBlock:
    """A two-way branch on `node` that stands for what a bool local's initialiser says on an edge."""
    def __init__(self, blk, node, tgt):
        self.id = ('syn', blk.id, id(node))
        self.term = {'k': 'IfStmt', 'cond': node, 'loc': (blk.term or {}).get('loc')}
        self.succ = [tgt, tgt]
        self.elems = []
        self.raw = {}


def implied_conditions(f, blk, taken_true):
    """Alternatives [[(condition node, truth), ...], ...] (a disjunction of conjunctions) implied on the true/false
    edge of blk when its condition is a bool local that was declared with an initialiser immediately before the branch
    (same block, nothing but the condition's own sub-expressions in between) and is assigned nowhere else.
    `a && b` true = [a, b]; false = [!a] or [a, !b]; `a || b` dually; everything else is an atom.  [] = nothing."""
    cache = f.__dict__.setdefault('_implied_cache', {})
    key = (blk.id, taken_true)
    if key in cache:
        return cache[key]
    out = []
    t = blk.term
    if t and 'cond' in t and len(blk.succ) == 2:
        c = f.strip(f.node(t['cond']), casts=True)
        truth = taken_true
        while c is not None and c['k'] == 'UnaryOperator' and c.get('op') == '!':
            truth = not truth
            c = f.strip(f.ch(c)[0], casts=True)
        if c is not None and c['k'] == 'BinaryOperator' and c.get('op') in ('&&', '||') and truth != taken_true:
            # `!(a && b)`: the CFG evaluates the operand as a value and branches on its negation
            out = _dnf(f, c, truth, 0)
            if len(out) > 8:
                out = []
        elif c is not None and c['k'] == 'DeclRefExpr' and c.get('dk') == 'var' and \
                (c.get('ty') or '').replace('const ', '').strip() == 'bool':
            init = _adjacent_init(f, blk, c['id'])
            if init is not None:
                out = _dnf(f, init, truth, 0)
                if len(out) > 8:
                    out = []
    cache[key] = out
    return out


def _dnf(f, n, truth, depth):
    n = f.strip(n, casts=True)
    if n is None or depth > 6:
        return [[]]
    if n['k'] == 'InitListExpr' and len(f.ch(n)) == 1:
        return _dnf(f, f.ch(n)[0], truth, depth + 1)
    if n['k'] == 'UnaryOperator' and n.get('op') == '!':
        return _dnf(f, f.ch(n)[0], not truth, depth + 1)
    if n['k'] == 'BinaryOperator' and n.get('op') in ('&&', '||'):
        conj = (n['op'] == '&&') == truth     # a&&b true, a||b false: both operands take `truth`
        A = _dnf(f, f.ch(n)[0], truth, depth + 1)
        B = _dnf(f, f.ch(n)[1], truth, depth + 1)
        if conj:
            return [x + y for x in A for y in B]
        # short-circuit order: first operand decides, or it does not and the second decides
        nA = _dnf(f, f.ch(n)[0], not truth, depth + 1)
        return A + [x + y for x in nA for y in B]
    return [[(n, truth)]]


def _adjacent_init(f, blk, var):
    """The expression a bool local received in the same block as the branch on it - by its declaration or by a plain
    assignment - provided everything between that definition and the branch is free of side effects on it: only reads,
    calls of const member functions and declarations of other locals may lie in between."""
    pos = None
    init = None
    # the straight-line code before the branch: the block itself and the chain of blocks that flow into it without any
    # other way in or out (a helper spliced in by yk/inline.py ends in such a block)
    chain = list(blk.elems)
    cur = blk.id
    preds = f.preds()
    for _ in range(3):
        ps = preds.get(cur, []) if not isinstance(cur, tuple) else []
        if len(ps) != 1:
            break
        pb = f.blocks[ps[0][0]]
        if len([x for x in pb.succ if x is not None]) != 1 or (pb.term and 'cond' in pb.term):
            break
        chain = list(pb.elems) + chain
        cur = pb.id

    class _B:
        elems = chain
    blk = _B
    for i, e in enumerate(blk.elems):
        n = f.node(e)
        if n['k'] == 'DeclStmt' and any(v['id'] == var and 'init' in v for v in n.get('vars', [])):
            pos = i
            init = [v for v in n['vars'] if v['id'] == var][0]['init']
        elif n['k'] == 'BinaryOperator' and n.get('op') == '=':
            l = f.strip(f.ch(n)[0], casts=True)
            if l is not None and l['k'] == 'DeclRefExpr' and l.get('id') == var:
                pos = i
                init = f.ch(n)[1]
    if pos is None:
        return None
    for e in blk.elems[pos + 1:]:
        n = f.node(e)
        k = n['k']
        if k in ('DeclRefExpr', 'ImplicitCastExpr', 'UnaryOperator', 'ParenExpr', 'MemberExpr', 'CXXThisExpr',
                 'IntegerLiteral', 'CXXBoolLiteralExpr', 'MaterializeTemporaryExpr', 'ExprWithCleanups'):
            if k == 'UnaryOperator' and n.get('op') in ('++', '--'):
                return None
            continue
        if k == 'DeclStmt' and not any(v['id'] == var for v in n.get('vars', [])):
            continue
        if k == 'CXXMemberCallExpr' and (n.get('callee') or '').rstrip().endswith('const'):
            continue
        if k == 'BinaryOperator' and n.get('op') in ('==', '!=', '<', '<=', '>', '>=', '&&', '||'):
            continue
        return None
    return f.node(init)


def _is_state(x):
    # states are tuples / frozensets / strings / ints; collections of states are lists or sets
    return not isinstance(x, (list, set))


# ---------------------------------------------------------------------------
# classic graph helpers
# ---------------------------------------------------------------------------

def dominators(f):
    """Block-level dominator sets (iterative)."""
    blocks = f.reachable_blocks()
    preds = f.preds()
    dom = {b: set(blocks) for b in blocks}
    dom[f.entry] = {f.entry}
    changed = True
    order = sorted(blocks, reverse=True)
    while changed:
        changed = False
        for b in order:
            if b == f.entry:
                continue
            ps = [p for p, _ in preds[b] if p in blocks]
            if not ps:
                continue
            new = set.intersection(*[dom[p] for p in ps]) | {b}
            if new != dom[b]:
                dom[b] = new
                changed = True
    return dom


def natural_loops(f):
    """{header block: set of blocks of the natural loop(s) with that header} (back edges u -> h with h dominating u)."""
    memo = f.__dict__.get('_natural_loops')
    if memo is not None:
        return memo
    dom = dominators(f)
    preds = f.preds()
    loops = {}
    for u in dom:
        for h in f.blocks[u].succ:
            if h is not None and h in dom.get(u, ()):
                body = {h, u}
                work = [u] if u != h else []
                while work:
                    x = work.pop()
                    for (pb, _) in preds.get(x, []):
                        if pb not in body and pb in dom:
                            body.add(pb)
                            work.append(pb)
                loops.setdefault(h, set()).update(body)
    f.__dict__['_natural_loops'] = loops
    return loops


def reach_avoiding(f, src_blocks, avoid_edge=None, avoid_block=None):
    """Blocks reachable from src_blocks without taking avoided edges / entering avoided blocks."""
    seen = set(src_blocks)
    st = list(src_blocks)
    while st:
        b = st.pop()
        for i, s in enumerate(f.blocks[b].succ):
            if s is None or s in seen:
                continue
            if avoid_edge and avoid_edge(b, i, s):
                continue
            if avoid_block and avoid_block(s):
                continue
            seen.add(s)
            st.append(s)
    return seen


def block_of(f, node):
    """(block id, index) of a block-level element node."""
    eid = f.elem_id(node)
    if eid is None:
        return None
    return f.positions().get(eid)


def edge_label(f, blk, idx):
    """Human description of taking successor idx out of blk."""
    t = blk.term
    if not t:
        return ''
    if len(blk.succ) == 2:
        return 'true' if idx == 0 else 'false'
    return str(idx)
