"""CFG utilities and the path-sensitive explorer (engines E-CFG / E-TS of DESIGN.md).

The explorer propagates *rule-defined finite abstract states* along every CFG
path (a powerset / disjunctive dataflow): each (block, state) pair is visited
once, elements of a block are applied in evaluation order through the rule's
`step`, and the rule's `branch` refines or kills a state on each outgoing edge.
Because the state space of every rule is finite and small, this terminates and
covers all paths of the function, including the ones no execution ever takes.
A parent map yields a witness path (list of source locations) for every report.
"""
from collections import deque

from .facts import AnalysisBroken, short_loc


class Ctx:
    """What a rule callback sees while the explorer walks one function."""

    def __init__(self, explorer, f):
        self.ex = explorer
        self.f = f
        self.block = None
        self.index = None
        self.key = None  # (block id, entry state) of the visit in progress

    def witness(self, limit=60):
        return self.ex.witness(self.key, self.block, self.index, limit)


class Explorer:
    def __init__(self, f, step, branch=None, max_visits=400000):
        self.f = f
        self.step = step
        self.branch = branch
        self.max_visits = max_visits
        self.parent = {}
        self.visits = 0
        self.paths_ended = 0
        self.exit_states = set()
        self.return_states = []  # (state, return node)

    def run(self, init, start=None):
        f = self.f
        start = f.entry if start is None else start
        inits = init if isinstance(init, (list, set, tuple)) and not _is_state(init) else [init]
        work = deque()
        seen = set()
        for s in inits:
            key = (start, s)
            if key not in seen:
                seen.add(key)
                self.parent[key] = None
                work.append(key)
        ctx = Ctx(self, f)
        while work:
            key = work.popleft()
            b, st = key
            self.visits += 1
            if self.visits > self.max_visits:
                raise AnalysisBroken('explorer: state space exceeded %d visits in %s' % (self.max_visits, f.qname))
            blk = f.blocks[b]
            ctx.block = b
            ctx.key = key
            states = [st]
            for i, e in enumerate(blk.elems):
                ctx.index = i
                n = f.node(e)
                nxt = []
                for s in states:
                    r = self.step(ctx, n, s)
                    if r is None:
                        self.paths_ended += 1
                        continue
                    if _is_state(r):
                        nxt.append(r)
                    else:
                        nxt.extend(r)
                    if n['k'] == 'ReturnStmt':
                        for rs in ([r] if _is_state(r) else r):
                            self.return_states.append((rs, n))
                # de-duplicate, keep order
                states = list(dict.fromkeys(nxt))
                if not states:
                    break
            if not states:
                continue
            ctx.index = len(blk.elems)
            if b == f.exit:
                self.exit_states.update(states)
                continue
            for idx, tgt in enumerate(blk.succ):
                if tgt is None:
                    continue
                for s in states:
                    s2 = s
                    if self.branch is not None and (len(blk.succ) > 1 or
                                                    (blk.term and blk.term.get('k') == 'GotoStmt')):
                        s2 = self.branch(ctx, blk, idx, s)
                        if s2 is None:
                            continue
                    k2 = (tgt, s2)
                    if k2 not in seen:
                        seen.add(k2)
                        self.parent[k2] = key
                        work.append(k2)
        self.seen = seen
        return self

    def witness(self, key, block=None, index=None, limit=60):
        """Source-location hops from the function entry to the visit `key`."""
        f = self.f
        chain = []
        k = key
        while k is not None:
            chain.append(k[0])
            k = self.parent.get(k)
        chain.reverse()
        hops = []
        for b in chain:
            blk = f.blocks[b]
            loc = None
            if blk.label:
                loc = 'label %s' % blk.label
            for e in blk.elems:
                n = f.node(e)
                if n.get('loc'):
                    l = short_loc(n)
                    loc = (loc + ' ' + l) if loc and loc.startswith('label') else l
                    break
            if loc is None and blk.term:
                loc = short_loc(blk.term)
            if loc and (not hops or hops[-1] != loc):
                hops.append(loc)
        if block is not None and index is not None:
            blk = f.blocks[block]
            if index < len(blk.elems):
                l = short_loc(f.node(blk.elems[index]))
                if l and (not hops or hops[-1] != l):
                    hops.append(l)
        if len(hops) > limit:
            hops = hops[:limit // 2] + ['...'] + hops[-limit // 2:]
        return hops


def _is_state(x):
    # states are tuples / frozensets / strings / ints; collections of states are lists or sets
    return not isinstance(x, (list, set))


# ---------------------------------------------------------------------------
# classic graph helpers
# ---------------------------------------------------------------------------

def dominators(f):
    """Block-level dominator sets (iterative)."""
    blocks = f.reachable_blocks()
    preds = f.preds()
    dom = {b: set(blocks) for b in blocks}
    dom[f.entry] = {f.entry}
    changed = True
    order = sorted(blocks, reverse=True)
    while changed:
        changed = False
        for b in order:
            if b == f.entry:
                continue
            ps = [p for p, _ in preds[b] if p in blocks]
            if not ps:
                continue
            new = set.intersection(*[dom[p] for p in ps]) | {b}
            if new != dom[b]:
                dom[b] = new
                changed = True
    return dom


def reach_avoiding(f, src_blocks, avoid_edge=None, avoid_block=None):
    """Blocks reachable from src_blocks without taking avoided edges / entering avoided blocks."""
    seen = set(src_blocks)
    st = list(src_blocks)
    while st:
        b = st.pop()
        for i, s in enumerate(f.blocks[b].succ):
            if s is None or s in seen:
                continue
            if avoid_edge and avoid_edge(b, i, s):
                continue
            if avoid_block and avoid_block(s):
                continue
            seen.add(s)
            st.append(s)
    return seen


def block_of(f, node):
    """(block id, index) of a block-level element node."""
    eid = f.elem_id(node)
    if eid is None:
        return None
    return f.positions().get(eid)


def edge_label(f, blk, idx):
    """Human description of taking successor idx out of blk."""
    t = blk.term
    if not t:
        return ''
    if len(blk.succ) == 2:
        return 'true' if idx == 0 else 'false'
    return str(idx)
